"""Hypothesis strategies for local networks (DESIGN 3.2).  All random choices are draws."""
import math

import numpy as np
from hypothesis import strategies as st

from . import netmodel as nm

IDS = ["A", "B", "C", "D", "E", "F", "G", "H", "J", "K", "L", "M", "N", "P", "Q", "R"]


def rnd(draw, lo, hi, step=0.001):
    n = int(round((hi - lo) / step))
    return lo + draw(st.integers(0, n)) * step


@st.composite
def frame(draw, all_axes=True):
    axes = draw(st.sampled_from(nm.AXES)) if all_axes else "ne"
    angles = draw(st.sampled_from(["left-handed", "right-handed"])) if all_axes else "left-handed"
    return axes, angles


@st.composite
def points(draw, n, box=None, min_sep=5.0, offset=None):
    """n points at pairwise horizontal distance >= min_sep (constructed on a jittered grid)."""
    box = box or draw(st.sampled_from([50.0, 300.0, 2000.0, 5000.0]))
    g = int(math.ceil(math.sqrt(n))) + 1
    cell = box / g
    cells = draw(st.permutations([(i, j) for i in range(g) for j in range(g)]))[:n]
    off = offset or (0.0, 0.0)
    pts = []
    for (i, j) in cells:
        # keep 15 % margin inside the cell so that separation >= 0.3*cell
        E = (i + 0.15 + 0.7 * draw(st.integers(0, 1000)) / 1000.0) * cell
        N = (j + 0.15 + 0.7 * draw(st.integers(0, 1000)) / 1000.0) * cell
        H = draw(st.integers(-2000, 2000)) / 1000.0 * min(box, 400.0) / 10.0 + 200.0
        pts.append((round(E + off[0], 3), round(N + off[1], 3), round(H, 3)))
    return pts


@st.composite
def cov_for(draw, sds, allow_band=True):
    """positive definite banded covariance with the given standard deviations on the diagonal scale"""
    dim = len(sds)
    w = draw(st.integers(0, dim - 1)) if (allow_band and dim > 1) else 0
    L = np.zeros((dim, dim))
    for i in range(dim):
        L[i, i] = draw(st.integers(5, 15)) / 10.0
        for j in range(max(0, i - w), i):
            L[i, j] = draw(st.integers(-6, 6)) / 10.0
    Cn = L @ L.T
    D = np.diag(sds)
    C = D @ Cn @ D
    # exact band (entries outside the band are exactly zero by construction)
    for i in range(dim):
        for j in range(dim):
            if abs(i - j) > w:
                C[i, j] = 0.0
    return {"band": int(w), "C": C.tolist()}


ANG_OFFSETS = [0.0, 1e-4, -1e-4, 0.5, -0.5, 99.9999, 100.0, -100.0, 150.0, 199.9, -199.9]


@st.composite
def lin_network(draw):
    """Small networks with given approximate coordinates for every point and every
    observation type; used by C05 (linearisation)."""
    axes, angles = draw(frame())
    n = draw(st.integers(2, 5))
    pts = draw(points(n))
    deg = draw(st.booleans())
    P = []
    for i, (E, N, H) in enumerate(pts):
        xy = draw(st.sampled_from(["fix", "adj", "adj", "constr"]))
        z = draw(st.sampled_from(["fix", "adj", "adj", "constr", None]))
        p = {"id": IDS[i], "E": E, "N": N, "H": H, "xy": xy, "z": z, "give_xy": True, "give_z": True,
             "dE": draw(st.integers(-20, 20)) / 1000.0, "dN": draw(st.integers(-20, 20)) / 1000.0,
             "dH": draw(st.integers(-20, 20)) / 1000.0}
        P.append(p)
    ids = [p["id"] for p in P]
    clusters = []
    nst = draw(st.integers(1, min(3, n)))
    stations = draw(st.permutations(ids))[:nst]
    types = ["direction", "distance", "angle", "s-distance", "z-angle", "azimuth"]
    for sid in stations:
        others = [i for i in ids if i != sid]
        obs = []
        # a direction set with >= 2 targets when possible
        if len(others) >= 2 and draw(st.booleans()):
            for to in draw(st.permutations(others))[:draw(st.integers(2, len(others)))]:
                obs.append({"t": "direction", "to": to, "sd": 10.0,
                            "e": draw(st.sampled_from(ANG_OFFSETS)) * 1e4})
        for _ in range(draw(st.integers(1, 6))):
            t = draw(st.sampled_from(types[1:]))
            to = draw(st.sampled_from(others))
            ob = {"t": t, "sd": 10.0}
            if t == "angle":
                if len(others) < 2:
                    continue
                bs, fs = draw(st.permutations(others))[:2]
                ob.update({"bs": bs, "fs": fs, "e": draw(st.sampled_from(ANG_OFFSETS)) * 1e4})
            elif t in ("distance", "s-distance"):
                ob.update({"to": to, "e": draw(st.integers(-30, 30)) * 1.0})
            elif t == "z-angle":
                ob.update({"to": to, "e": draw(st.sampled_from([0.0, 1e-4, -1e-4, 0.3, -0.3])) * 1e4})
                if draw(st.integers(0, 5)) == 0:
                    ob["face2"] = True
            else:
                ob.update({"to": to, "e": draw(st.sampled_from(ANG_OFFSETS)) * 1e4})
            if t in ("s-distance", "z-angle") and draw(st.booleans()):
                ob["from_dh"] = draw(st.integers(0, 2000)) / 1000.0
                ob["to_dh"] = draw(st.integers(0, 3000)) / 1000.0
            obs.append(ob)
        if not obs:
            continue
        clusters.append({"k": "obs", "from": sid, "orient": draw(st.integers(0, 3999999)) / 1e4,
                         "from_dh": None, "obs": obs, "cov": None})
    if draw(st.booleans()):
        obs = []
        for _ in range(draw(st.integers(1, 3))):
            a, b = draw(st.permutations(ids))[:2]
            obs.append({"from": a, "to": b, "sd": 2.0, "dist": None, "e": draw(st.integers(-20, 20)) * 1.0})
        clusters.append({"k": "hdiff", "obs": obs, "cov": None})
    if draw(st.booleans()):
        obs = []
        for pid in draw(st.permutations(ids))[:draw(st.integers(1, min(2, n)))]:
            dims = draw(st.sampled_from(["xy", "z", "xyz"]))
            obs.append({"id": pid, "dims": dims, "e": [draw(st.integers(-20, 20)) * 1.0 for _ in range(3)][:len(dims) if dims != "xy" else 2]})
        dim = sum(len(o["e"]) for o in obs)
        clusters.append({"k": "coords", "obs": obs, "cov": draw(cov_for([5.0] * dim))})
    if draw(st.booleans()):
        obs = []
        for _ in range(draw(st.integers(1, 2))):
            a, b = draw(st.permutations(ids))[:2]
            obs.append({"from": a, "to": b, "e": [draw(st.integers(-20, 20)) * 1.0 for _ in range(3)]})
        clusters.append({"k": "vectors", "obs": obs, "cov": draw(cov_for([5.0] * (3 * len(obs))))})
    order = draw(st.permutations(list(range(len(clusters)))))
    clusters = [clusters[i] for i in order]
    return {"axes": axes, "angles": angles, "deg": deg, "params": {"sigma-apr": 10, "tol-abs": 1e9},
            "description": "lin", "points": P, "clusters": clusters}
