"""Hypothesis strategies for local networks (DESIGN 3.2).  All random choices are draws."""
import math

import numpy as np
from hypothesis import strategies as st

from . import netmodel as nm

IDS = ["A", "B", "C", "D", "E", "F", "G", "H", "J", "K", "L", "M", "N", "P", "Q", "R"]


def rnd(draw, lo, hi, step=0.001):
    n = int(round((hi - lo) / step))
    return lo + draw(st.integers(0, n)) * step


@st.composite
def frame(draw, all_axes=True):
    axes = draw(st.sampled_from(nm.AXES)) if all_axes else "ne"
    angles = draw(st.sampled_from(["left-handed", "right-handed"])) if all_axes else "left-handed"
    return axes, angles


@st.composite
def points(draw, n, box=None, min_sep=5.0, offset=None):
    """n points at pairwise horizontal distance >= min_sep (constructed on a jittered grid)."""
    box = box or draw(st.sampled_from([50.0, 300.0, 2000.0, 5000.0]))
    g = int(math.ceil(math.sqrt(n))) + 1
    cell = box / g
    cells = draw(st.permutations([(i, j) for i in range(g) for j in range(g)]))[:n]
    off = offset or (0.0, 0.0)
    pts = []
    for (i, j) in cells:
        # keep 15 % margin inside the cell so that separation >= 0.3*cell
        E = (i + 0.15 + 0.7 * draw(st.integers(0, 1000)) / 1000.0) * cell
        N = (j + 0.15 + 0.7 * draw(st.integers(0, 1000)) / 1000.0) * cell
        H = draw(st.integers(-2000, 2000)) / 1000.0 * min(box, 400.0) / 10.0 + 200.0
        pts.append((round(E + off[0], 3), round(N + off[1], 3), round(H, 3)))
    return pts


def stretch_heights(draw, net, factors=(1, 1, 3, 8)):
    """Steep terrain.  The observed values are derived from the coordinates when the input is written (truth model: value =
    f(coordinates) + error), so the heights may be stretched after the network was composed: slope and horizontal lengths
    then differ markedly and zenith angles leave the neighbourhood of 100 gon."""
    kz = draw(st.sampled_from(list(factors)))
    if kz != 1 and net["dims"] != "2d":
        for p in net["points"]:
            p["H"] = round(200.0 + kz * (p["H"] - 200.0), 3)
    return kz


@st.composite
def cov_for(draw, sds, allow_band=True):
    """positive definite banded covariance with the given standard deviations on the diagonal scale"""
    dim = len(sds)
    w = draw(st.integers(0, dim - 1)) if (allow_band and dim > 1) else 0
    L = np.zeros((dim, dim))
    for i in range(dim):
        L[i, i] = draw(st.integers(5, 15)) / 10.0
        for j in range(max(0, i - w), i):
            L[i, j] = draw(st.integers(-6, 6)) / 10.0
    Cn = L @ L.T
    D = np.diag(sds)
    C = D @ Cn @ D
    # exact band (entries outside the band are exactly zero by construction)
    for i in range(dim):
        for j in range(dim):
            if abs(i - j) > w:
                C[i, j] = 0.0
    return {"band": int(w), "C": C.tolist()}


ANG_OFFSETS = [0.0, 1e-4, -1e-4, 0.5, -0.5, 99.9999, 100.0, -100.0, 150.0, 199.9, -199.9]


@st.composite
def lin_network(draw):
    """Small networks with given approximate coordinates for every point and every
    observation type; used by C05 (linearisation)."""
    axes, angles = draw(frame())
    n = draw(st.integers(2, 5))
    pts = draw(points(n))
    deg = draw(st.booleans())
    P = []
    for i, (E, N, H) in enumerate(pts):
        xy = draw(st.sampled_from(["fix", "adj", "adj", "constr"]))
        z = draw(st.sampled_from(["fix", "adj", "adj", "constr", None]))
        p = {"id": IDS[i], "E": E, "N": N, "H": H, "xy": xy, "z": z, "give_xy": True, "give_z": True,
             "dE": draw(st.integers(-20, 20)) / 1000.0, "dN": draw(st.integers(-20, 20)) / 1000.0,
             "dH": draw(st.integers(-20, 20)) / 1000.0}
        P.append(p)
    ids = [p["id"] for p in P]
    clusters = []
    nst = draw(st.integers(1, min(3, n)))
    stations = draw(st.permutations(ids))[:nst]
    types = ["direction", "distance", "angle", "s-distance", "z-angle", "azimuth"]
    for sid in stations:
        others = [i for i in ids if i != sid]
        obs = []
        # a direction set with >= 2 targets when possible
        if len(others) >= 2 and draw(st.booleans()):
            for to in draw(st.permutations(others))[:draw(st.integers(2, len(others)))]:
                obs.append({"t": "direction", "to": to, "sd": 10.0,
                            "e": draw(st.sampled_from(ANG_OFFSETS)) * 1e4})
        for _ in range(draw(st.integers(1, 6))):
            t = draw(st.sampled_from(types[1:]))
            to = draw(st.sampled_from(others))
            ob = {"t": t, "sd": 10.0}
            if t == "angle":
                if len(others) < 2:
                    continue
                bs, fs = draw(st.permutations(others))[:2]
                if draw(st.integers(0, 11)) == 0:
                    fs = bs         # identical targets are admitted by class Angle: derivatives cancel, misclosure = value
                ob.update({"bs": bs, "fs": fs, "e": draw(st.sampled_from(ANG_OFFSETS)) * 1e4})
            elif t in ("distance", "s-distance"):
                ob.update({"to": to, "e": draw(st.integers(-30, 30)) * 1.0})
            elif t == "z-angle":
                ob.update({"to": to, "e": draw(st.sampled_from([0.0, 1e-4, -1e-4, 0.3, -0.3])) * 1e4})
                if draw(st.integers(0, 5)) == 0:
                    ob["face2"] = True
            else:
                ob.update({"to": to, "e": draw(st.sampled_from(ANG_OFFSETS)) * 1e4})
            if t in ("s-distance", "z-angle") and draw(st.booleans()):
                ob["from_dh"] = draw(st.integers(0, 2000)) / 1000.0
                ob["to_dh"] = draw(st.integers(0, 3000)) / 1000.0
            obs.append(ob)
        if not obs:
            continue
        clusters.append({"k": "obs", "from": sid, "orient": draw(st.integers(0, 3999999)) / 1e4,
                         "from_dh": None, "obs": obs, "cov": None})
    if draw(st.booleans()):
        obs = []
        for _ in range(draw(st.integers(1, 3))):
            a, b = draw(st.permutations(ids))[:2]
            obs.append({"from": a, "to": b, "sd": 2.0, "dist": None, "e": draw(st.integers(-20, 20)) * 1.0})
        clusters.append({"k": "hdiff", "obs": obs, "cov": None})
    if draw(st.booleans()):
        obs = []
        for pid in draw(st.permutations(ids))[:draw(st.integers(1, min(2, n)))]:
            dims = draw(st.sampled_from(["xy", "z", "xyz"]))
            obs.append({"id": pid, "dims": dims, "e": [draw(st.integers(-20, 20)) * 1.0 for _ in range(3)][:len(dims) if dims != "xy" else 2]})
        dim = sum(len(o["e"]) for o in obs)
        clusters.append({"k": "coords", "obs": obs, "cov": draw(cov_for([5.0] * dim))})
    if draw(st.booleans()):
        obs = []
        for _ in range(draw(st.integers(1, 2))):
            a, b = draw(st.permutations(ids))[:2]
            obs.append({"from": a, "to": b, "e": [draw(st.integers(-20, 20)) * 1.0 for _ in range(3)]})
        clusters.append({"k": "vectors", "obs": obs, "cov": draw(cov_for([5.0] * (3 * len(obs))))})
    order = draw(st.permutations(list(range(len(clusters)))))
    clusters = [clusters[i] for i in order]
    net = {"axes": axes, "angles": angles, "deg": deg, "params": {"sigma-apr": 10, "tol-abs": 1e9},
           "description": "lin", "points": P, "clusters": clusters, "dims": "3d"}
    if stretch_heights(draw, net) != 1:
        net["steep"] = True
    return net


# --------------------------------------------------------------------------
# determined networks built by recipes (DESIGN 3.2)

def _noise(draw, sd, level):
    """bounded error in units of sd: level 0 -> exactly 0"""
    if level == 0:
        return 0.0
    return draw(st.integers(-25, 25)) / 10.0 * sd * level


class _Builder:
    def __init__(self, draw, noise, dims, sds=None):
        self.draw = draw
        self.noise = noise
        self.dims = dims            # "2d" | "3d" | "1d"
        self.stations = {}          # station id -> list of obs (one <obs> cluster per station)
        self.order = []             # station ids in creation order
        self.hd = []                # height differences
        self.coords = []
        self.vectors = []
        self.recipes = []
        self.sd = sds or {"direction": 10.0, "angle": 14.0, "azimuth": 15.0, "z-angle": 12.0,
                          "distance": 5.0, "s-distance": 6.0, "dh": 2.0, "coord": 8.0}

    def st_obs(self, sid):
        if sid not in self.stations:
            self.stations[sid] = []
            self.order.append(sid)
        return self.stations[sid]

    def add(self, sid, t, **kw):
        sd = self.sd[t]
        ob = {"t": t, "sd": sd, "e": _noise(self.draw, sd, self.noise)}
        ob.update(kw)
        lst = self.st_obs(sid)
        if t == "direction":
            for o in lst:
                if o["t"] == "direction" and o["to"] == ob["to"]:
                    return o
        lst.append(ob)
        return ob

    def has_dir(self, sid, to):
        return any(o["t"] == "direction" and o["to"] == to for o in self.stations.get(sid, []))

    def add_dh(self, a, b):
        sd = self.sd["dh"]
        self.hd.append({"from": a, "to": b, "sd": sd, "dist": None, "e": _noise(self.draw, sd, self.noise)})

    def add_coords(self, pid, dims):
        n = {"xy": 2, "z": 1, "xyz": 3}[dims]
        self.coords.append({"id": pid, "dims": dims, "e": [_noise(self.draw, self.sd["coord"], self.noise) for _ in range(n)]})

    def add_vector(self, a, b):
        self.vectors.append({"from": a, "to": b, "e": [_noise(self.draw, self.sd["coord"], self.noise) for _ in range(3)]})


def _dir_or_angle(draw, B, s, ref, pid):
    """the horizontal angle at s between ref and pid: two readings of a direction set, or (one time in three) an <angle>
    observation with the new point as foresight or as backsight"""
    k = draw(st.integers(0, 5))
    if k == 0:
        B.add(s, "angle", bs=ref, fs=pid)
    elif k == 1:
        B.add(s, "angle", bs=pid, fs=ref)
    else:
        B.add(s, "direction", to=ref)
        B.add(s, "direction", to=pid)


def apply_implicit_stdevs(draw, net):
    """Implicit standard deviations (attributes of <points-observations>): observations of clusters without a covariance
    matrix lose their stdev attribute (half of them) and take the documented default instead - for lengths
    a + b * (observed value / 1 km)^c.  Call last: the defaults of lengths depend on the observed values."""
    imp = {"direction": draw(st.sampled_from([10.0, 7.5])), "angle": draw(st.sampled_from([14.0, 10.0])),
           "z-angle": draw(st.sampled_from([12.0, 20.0])), "azimuth": draw(st.sampled_from([15.0, 9.0])),
           "dist": [draw(st.sampled_from([5.0, 3.0])), draw(st.sampled_from([0.0, 2.0, 10.0])), draw(st.sampled_from([1.0, 0.5, 2.0]))]}
    vals = nm.observed_values(net)
    n = 0
    for cl, vv in zip(net["clusters"], vals):
        if cl["k"] != "obs" or cl.get("cov") is not None:
            continue
        for ob, v in zip(cl["obs"], vv):
            if not draw(st.booleans()):
                continue
            if ob["t"] in ("distance", "s-distance"):
                a, b, c = imp["dist"]
                ob["sd"] = a + b * (v / 1000.0) ** c
            else:
                ob["sd"] = imp[ob["t"]]
            ob["implicit_sd"] = True
            n += 1
    if n:
        net["implicit"] = imp
    return n


@st.composite
def determined_network(draw, noise=1, dims=None, free=False, allow_cov=True, all_axes=True,
                       n_max=8, omit=True, heights_dh=True, isotropic=False, only_recipe=None, stretch=True, box=None):
    """A geometrically determined network built by recipes.
    noise: 0 exact observations, 1 errors of about one sigma.
    free: no fixed coordinates - the datum is carried by constrained points (C08)."""
    axes, angles = draw(frame(all_axes))
    dims = dims or draw(st.sampled_from(["2d", "2d", "3d", "1d"]))
    deg = draw(st.booleans())
    nfix = {"2d": 2, "3d": 2, "1d": 1}[dims] + draw(st.integers(0, 1))
    nnew = draw(st.integers(1, max(1, n_max - nfix)))
    n = nfix + nnew
    offset = draw(st.sampled_from([(0.0, 0.0), (0.0, 0.0), (7.0e5, 1.0e6), (-4.5e5, 5.2e6)]))
    pts = draw(points(n, box=box, offset=offset))
    B = _Builder(draw, noise, dims)
    P = []
    has_xy = dims in ("2d", "3d")
    has_z = dims in ("3d", "1d")
    for i, (E, N, H) in enumerate(pts):
        known = i < nfix
        p = {"id": IDS[i], "E": E, "N": N, "H": H, "xy": None, "z": None,
             "give_xy": False, "give_z": False}
        if has_xy:
            p["xy"] = "fix" if known else "adj"
            p["give_xy"] = True
        if has_z:
            p["z"] = "fix" if known else "adj"
            p["give_z"] = True
        P.append(p)
    ids = [p["id"] for p in P]
    known = ids[:nfix]
    hz_recipes = ["polar", "intersection", "trilateration", "azdist", "coords", "vector", "traverse", "polar3d"]
    z_recipes = ["dh", "trig", "vector", "coords"]
    if free:
        # observed coordinates carry an absolute datum: not part of a free network
        hz_recipes.remove("coords")
        z_recipes.remove("coords")
    for p in P[nfix:]:
        pid = p["id"]
        rec_xy = rec_z = None
        xy_station = None
        if has_xy:
            rec_xy = draw(st.sampled_from(hz_recipes))
            if has_z and draw(st.integers(0, 3)) == 0:
                rec_xy = "polar3d"      # total-station observations are over-represented on purpose in 3D networks
            if only_recipe:
                rec_xy = only_recipe    # a survey of one kind, without redundant observations of other kinds
            if rec_xy == "intersection" and len(known) < 2:
                rec_xy = "polar"
            if rec_xy == "trilateration" and len(known) < 3:
                rec_xy = "polar"
            if rec_xy == "vector" and not has_z:
                rec_xy = "polar"
            if rec_xy == "polar3d" and (not has_z or len(known) < 2):
                rec_xy = "polar"
            if rec_xy in ("polar", "traverse"):
                s = known[-1] if rec_xy == "traverse" else draw(st.sampled_from(known))
                refs = [k for k in known if k != s]
                # a traverse station sights back to the previous point of the chain
                ref = known[-2] if (rec_xy == "traverse" and len(known) >= 2 and draw(st.booleans())) else draw(st.sampled_from(refs))
                _dir_or_angle(draw, B, s, ref, pid)
                if draw(st.booleans()):
                    B.add(s, "distance", to=pid)
                else:
                    B.add(pid, "distance", to=s)
                xy_station = s
            elif rec_xy == "intersection":
                s1, s2 = draw(st.permutations(known))[:2]
                for s in (s1, s2):
                    refs = [k for k in known if k != s]
                    _dir_or_angle(draw, B, s, draw(st.sampled_from(refs)), pid)
                # a third element keeps the intersection determined when P is near the line s1-s2; with a good
                # intersection angle it is left out half of the time (forward intersection proper)
                pm = {q["id"]: q for q in P}
                a1 = math.atan2(pm[s1]["E"] - p["E"], pm[s1]["N"] - p["N"])
                a2 = math.atan2(pm[s2]["E"] - p["E"], pm[s2]["N"] - p["N"])
                gamma = abs((a1 - a2 + math.pi) % (2 * math.pi) - math.pi)
                if not (math.radians(30) < gamma < math.radians(150)) or draw(st.booleans()):
                    B.add(s1, "distance", to=pid)
            elif rec_xy == "trilateration":
                for s in draw(st.permutations(known))[:3]:
                    if draw(st.booleans()):
                        B.add(s, "distance", to=pid)
                    else:
                        B.add(pid, "distance", to=s)
            elif rec_xy == "azdist":
                s = draw(st.sampled_from(known))
                B.add(s, "azimuth", to=pid)
                B.add(s, "distance", to=pid)
                xy_station = s
            elif rec_xy == "coords":
                B.add_coords(pid, "xyz" if has_z and draw(st.booleans()) else "xy")
            elif rec_xy == "vector":
                B.add_vector(draw(st.sampled_from(known)), pid)
            elif rec_xy == "polar3d":
                # total station: direction + slope distance + zenith angle, no horizontal distance at all
                # several targets from one total station are the usual case
                prev = getattr(B, "polar3d_station", None)
                s = prev if (prev in known and draw(st.booleans())) else draw(st.sampled_from(known))
                B.polar3d_station = s
                refs = [k for k in known if k != s]
                B.add(s, "direction", to=draw(st.sampled_from(refs)))
                B.add(s, "direction", to=pid)
                kw = {}
                if draw(st.integers(0, 2)) == 0:
                    kw = {"from_dh": draw(st.integers(1000, 1900)) / 1000.0, "to_dh": draw(st.integers(-600, 2500)) / 1000.0}   # a target may hang below its mark
                B.add(s, "z-angle", to=pid, **kw)
                B.add(s, "s-distance", to=pid, **kw)
        if has_z:
            got_z = (rec_xy in ("vector", "polar3d")) or (rec_xy == "coords" and B.coords and B.coords[-1]["id"] == pid
                                             and "z" in B.coords[-1]["dims"])
            if not got_z:
                rec_z = draw(st.sampled_from(z_recipes if has_xy else [r for r in z_recipes if r in ("dh", "coords")]))
                if rec_z == "vector" and not has_xy:
                    rec_z = "dh"
                if rec_z == "dh":
                    s = draw(st.sampled_from(known))
                    if draw(st.booleans()):
                        B.add_dh(s, pid)
                    else:
                        B.add_dh(pid, s)
                elif rec_z == "trig":
                    # half of the time from the station that also measured the horizontal distance (tacheometry)
                    s = xy_station if (xy_station is not None and draw(st.booleans())) else draw(st.sampled_from(known))
                    kw = {}
                    if draw(st.booleans()):
                        kw = {"from_dh": draw(st.integers(1000, 1900)) / 1000.0, "to_dh": draw(st.integers(-600, 2500)) / 1000.0}   # a target may hang below its mark
                    B.add(s, "z-angle", to=pid, **kw)
                    if draw(st.booleans()):
                        B.add(s, "s-distance", to=pid, **kw)
                elif rec_z == "vector":
                    B.add_vector(draw(st.sampled_from(known)), pid)
                elif rec_z == "coords":
                    B.add_coords(pid, "z")
        B.recipes.append((pid, rec_xy, rec_z))
        p["recipe"] = [rec_xy, rec_z]
        known.append(pid)
    if only_recipe == "traverse" and has_xy and len(P) > nfix and draw(st.booleans()):
        # close the traverse on a fixed point: angle at the last point between the previous point and the end point,
        # and the distance to the end point
        last, prev_, end = P[-1]["id"], (P[-2]["id"] if len(P) >= 2 else ids[0]), ids[0]
        if end not in (last, prev_):
            _dir_or_angle(draw, B, last, prev_, end)
            B.add(last, "distance", to=end)
    # redundant observations between determined points
    nred = draw(st.integers(0, 2 * n)) if not only_recipe else 0
    for _ in range(nred):
        a, b = draw(st.permutations(ids))[:2]
        kinds = []
        if has_xy:
            kinds += ["distance", "direction", "angle", "azimuth"]
        if has_z:
            kinds += ["dh"]
        if has_xy and has_z:
            kinds += ["s-distance", "z-angle", "vector"]
        t = draw(st.sampled_from(kinds))
        if t == "dh":
            B.add_dh(a, b)
        elif t == "vector":
            B.add_vector(a, b)
        elif t == "angle":
            if n < 3:
                continue
            c = draw(st.sampled_from([i for i in ids if i not in (a, b)]))
            B.add(a, "angle", bs=b, fs=c)
        elif t == "direction":
            B.add(a, "direction", to=b)
        else:
            B.add(a, t, to=b)
    # every direction set needs >= 2 distinct targets
    for sid in list(B.order):
        dirs = [o for o in B.stations[sid] if o["t"] == "direction"]
        if len(dirs) == 1:
            others = [i for i in ids if i not in (sid, dirs[0]["to"])]
            if others:
                B.add(sid, "direction", to=draw(st.sampled_from(others)))
            else:
                B.stations[sid] = [o for o in B.stations[sid] if o["t"] != "direction"]
    clusters = []
    for sid in B.order:
        obs = B.stations[sid]
        if not obs:
            continue
        if draw(st.booleans()):
            obs = list(draw(st.permutations(obs)))
        cov = None
        if allow_cov and len(obs) >= 2 and draw(st.integers(0, 3)) == 0:
            cov = draw(cov_for([o["sd"] for o in obs]))
        # instrument height given for the whole cluster (inherited by its slope distances and zenith angles
        # that have none of their own; it must not leak into other clusters)
        cl_dh = None
        if has_z and any(o["t"] in ("z-angle", "s-distance") for o in obs) and draw(st.integers(0, 2)) == 0:
            cl_dh = draw(st.integers(1000, 1900)) / 1000.0
        clusters.append({"k": "obs", "from": sid, "from_dh": cl_dh, "orient": draw(st.integers(0, 3999999)) / 1e4,
                         "obs": obs, "cov": cov})
    if B.hd:
        cov = None
        if allow_cov and len(B.hd) >= 2 and draw(st.integers(0, 3)) == 0:
            cov = draw(cov_for([o["sd"] for o in B.hd]))
        clusters.append({"k": "hdiff", "obs": B.hd, "cov": cov})
    if B.coords:
        dim = sum(len(o["e"]) for o in B.coords)
        clusters.append({"k": "coords", "obs": B.coords,
                         "cov": _iso(dim, B.sd["coord"]) if isotropic else draw(cov_for([B.sd["coord"]] * dim, allow_cov))})
    if B.vectors:
        dim = 3 * len(B.vectors)
        clusters.append({"k": "vectors", "obs": B.vectors,
                         "cov": _iso(dim, B.sd["coord"]) if isotropic else draw(cov_for([B.sd["coord"]] * dim, allow_cov))})
    clusters = [clusters[i] for i in draw(st.permutations(list(range(len(clusters)))))]
    params = {"sigma-apr": draw(st.sampled_from([1, 2.5, 10, 10, 25])),
              "conf-pr": draw(st.sampled_from([0.95, 0.9, 0.99, 0.5, 0.999])),
              "sigma-act": draw(st.sampled_from(["aposteriori", "apriori"])),
              "tol-abs": 1000}
    net = {"axes": axes, "angles": angles, "deg": deg, "params": params, "description": "generated",
           "points": P, "clusters": clusters, "dims": dims, "noise": noise}
    if free:
        _make_free(draw, net)
    if stretch and stretch_heights(draw, net) != 1 and dims == "3d":
        net["steep"] = True
    return net


def _iso(dim, sd):
    return {"band": 0, "C": (np.eye(dim) * sd * sd).tolist()}


def _make_free(draw, net):
    """turn the fixed points into constrained ones (free network) and tie them together
    by mutual observations, which fixed points did not need"""
    base = [p for p in net["points"] if p["xy"] == "fix" or p["z"] == "fix"]
    has_xy = any(p["xy"] == "fix" for p in base)
    has_z = any(p["z"] == "fix" for p in base)
    noise = net.get("noise", 1)
    for p in base:
        if p["xy"] == "fix":
            p["xy"] = "constr"
        if p["z"] == "fix":
            p["z"] = "constr"
    extra = []
    for i in range(len(base)):
        for j in range(i + 1, len(base)):
            a, b = base[i]["id"], base[j]["id"]
            if has_xy:
                extra.append({"k": "obs", "from": a, "from_dh": None, "orient": 0.0, "cov": None,
                              "obs": [{"t": "distance", "to": b, "sd": 5.0, "e": _noise(draw, 5.0, noise)}]})
            if has_z:
                extra.append({"k": "hdiff", "cov": None,
                              "obs": [{"from": a, "to": b, "sd": 2.0, "dist": None, "e": _noise(draw, 2.0, noise)}]})
    if has_xy and len(base) >= 3:
        # distances alone leave (nearly) collinear base points weakly determined: add a direction set
        a = base[0]["id"]
        extra.append({"k": "obs", "from": a, "from_dh": None, "orient": 0.0, "cov": None,
                      "obs": [{"t": "direction", "to": b["id"], "sd": 10.0, "e": _noise(draw, 10.0, noise)} for b in base[1:]]})
    net["clusters"] += extra
    net["free"] = True


def mix_constraints(draw, net):
    """free 3D network: a constrained point may carry the datum with its position only (adj="XYz") or its height only
    (adj="xyZ"); the first point keeps both.  Whether the rest still fixes the datum is for the oracle to decide."""
    if net["dims"] != "3d":
        return 0
    n = 0
    first = True
    for p in net["points"]:
        if p["xy"] == "constr" and p["z"] == "constr":
            if first:
                first = False
                continue
            g = draw(st.sampled_from(["both", "xy", "z"]))
            if g == "xy":
                p["z"] = "adj"; n += 1
            elif g == "z":
                p["xy"] = "adj"; n += 1
    return n


def truth_jacobian(net):
    """(A, cols) of the error-free model at the true coordinates; columns are the free/constrained
    coordinates (physical E,N,H) and one orientation per direction set; rows scaled to unit sigma."""
    P = nm.pmap(net)
    cols = {}
    for p in net["points"]:
        if p["xy"] in ("adj", "constr"):
            cols[(p["id"], "E")] = len(cols); cols[(p["id"], "N")] = len(cols)
        if p["z"] in ("adj", "constr"):
            cols[(p["id"], "H")] = len(cols)
    rows = []
    for ci, oi, comp, t in nm.flat_observations(net):
        cl = net["clusters"][ci]
        ob = cl["obs"][oi]
        g = nm.obs_gradient(net, cl, ob, comp, P)
        row = {}
        ang = cl["k"] == "obs" and t in nm.ANGULAR
        sd = ob.get("sd") or 5.0
        unit = (200e4 / math.pi / 1000.0) if ang else 1.0
        for (pid, c), v in g.items():
            if pid == "orient":
                key = ("orient", ci)
                if key not in cols:
                    cols[key] = len(cols)
                row[cols[key]] = v / sd         # orientation in cc: the whole row is scaled to unit sigma
            elif (pid, c) in cols:
                row[cols[(pid, c)]] = v * unit / sd
        rows.append(row)
    A = np.zeros((len(rows), len(cols)))
    for i, r in enumerate(rows):
        for j, v in r.items():
            A[i, j] = v
    return A, cols


def is_determined(net, tol=2e-3):
    A, cols = truth_jacobian(net)
    if A.shape[1] == 0:
        return True
    if A.shape[0] < A.shape[1]:
        return False
    s = np.linalg.svd(A / np.maximum(np.linalg.norm(A, axis=0), 1e-300), compute_uv=False)
    if not bool(s[-1] > tol * s[0]):
        return False
    # determined, but so weakly that gama's documented protection (a priori sigma above 10 m) may remove a coordinate:
    # not part of the domain of "determined networks" (limit 1 m, a factor 10 below gama's)
    try:
        Q = np.linalg.inv(A.T @ A)
    except np.linalg.LinAlgError:
        return False
    idx = [j for k, j in cols.items() if k[0] != "orient"]
    d = np.diag(Q)[idx]
    return not bool(np.any(~np.isfinite(d)) or np.any(d < 0) or (len(d) and np.sqrt(np.max(d)) > 1000.0))


def weak_geometry(net, limit_mm=1000.0):
    """gama removes a point as 'indeterminable' when the a priori standard deviation of one of its coordinates exceeds
    10 m (network.cpp, rm_huge_cov_*).  True when the reference a priori standard deviation of any coordinate (from the
    truth Jacobian, correlations inside clusters ignored) exceeds limit_mm - a factor 10 below gama's limit."""
    A, cols = truth_jacobian(net)
    if A.shape[1] == 0:
        return False
    try:
        Q = np.linalg.inv(A.T @ A)
    except np.linalg.LinAlgError:
        return True
    idx = [j for k, j in cols.items() if k[0] != "orient"]
    d = np.diag(Q)[idx]
    return bool(np.any(~np.isfinite(d)) or np.any(d < 0) or np.sqrt(np.max(d)) > limit_mm)


def add_mixed_points(draw, net):
    """3D networks only: append points that have only xy or only z (observed coordinates with their own
    covariance), with identifiers sorting before and after the others.  Readers must keep the dimension per point."""
    if net["dims"] != "3d":
        return []
    base = net["points"][0]
    added = []
    obs = []
    for k in range(draw(st.integers(1, 3))):
        kind = draw(st.sampled_from(["xy", "z"]))
        first = draw(st.booleans())
        pid = ("0M%d" if first else "zM%d") % k
        p = {"id": pid, "E": base["E"] + 3.0 + 2.5 * k, "N": base["N"] - 4.0 - 1.5 * k, "H": base["H"] + 0.25 * k,
             "xy": "adj" if kind == "xy" else None, "z": "adj" if kind == "z" else None,
             "give_xy": kind == "xy", "give_z": kind == "z", "recipe": ["coords", None] if kind == "xy" else [None, "coords"]}
        if first:
            net["points"].insert(0, p)
        else:
            net["points"].append(p)
        n = 2 if kind == "xy" else 1
        obs.append({"id": pid, "dims": kind, "e": [draw(st.integers(-8, 8)) * 1.0 for _ in range(n)]})
        added.append(pid)
    dim = sum(len(o["e"]) for o in obs)
    net["clusters"].append({"k": "coords", "obs": obs, "cov": {"band": 0, "C": (np.eye(dim) * 64.0).tolist()}})
    return added
