"""Linear system of a network as dumped by gdrv_net -> numpy, and its reference solution."""
import numpy as np

from . import ref_linalg


def system(dump, key=None):
    """(A, b, C, minx0) from a driver dump (final linearisation, or dump['first'])"""
    d = dump if key is None else dump[key]
    M, N = d["M"], d["N"]
    A = np.zeros((M, N))
    b = np.zeros(M)
    for i, o in enumerate(d["obs"]):
        for j, cf in zip(o["idx"], o["coef"]):
            A[i, j - 1] += cf
        b[i] = o["rhs"]
    C = np.zeros((M, M))
    r = 0
    m0 = d["m0_apr"]
    for cl in d["clusters"]:
        n, w = cl["n"], cl["band"]
        k = 0
        for i in range(n):
            for j in range(i, min(n, i + w + 1)):
                C[r + i, r + j] = C[r + j, r + i] = cl["cov"][k] / (m0 * m0)
                k += 1
        r += n
    minx = [i - 1 for i in d["minx"]]
    return A, b, C, minx


def reference(dump, key=None):
    A, b, C, minx = system(dump, key)
    if A.shape[1] == 0 or A.shape[0] == 0:
        return A, b, C, minx, None
    R = ref_linalg.solve(A, b, C, minx if minx else None)
    return A, b, C, minx, R
