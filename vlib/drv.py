"""Run sanitized binaries/drivers; classify sanitizer reports."""
import json
import os
import re
import subprocess

from . import build

ENV = dict(os.environ)
ENV["ASAN_OPTIONS"] = ("detect_leaks=0:allocator_may_return_null=1:max_allocation_size_mb=2048:"
                       "alloc_dealloc_mismatch=1:symbolize=1:handle_abort=1")
ENV["UBSAN_OPTIONS"] = "print_stacktrace=1:halt_on_error=1"
ENV["ASAN_SYMBOLIZER_PATH"] = "/usr/bin/llvm-symbolizer-14"
ENV["LC_ALL"] = "C"

_FRAME = re.compile(r"#\d+ 0x[0-9a-f]+ in (.+?) /\S*?/mirror/([^\s:]+):(\d+)")
_FRAME_ANY = re.compile(r"#\d+ 0x[0-9a-f]+ in (.+?) (/verif/build/mirror/|/verif/harness/)([^\s:]+):(\d+)")


class Crash(dict):
    pass


def classify(stderr, returncode):
    """Return Crash(kind=..., frame=..., text=...) if stderr/returncode shows a
    sanitizer report or a signal; else None."""
    kind = None
    m = re.search(r"ERROR: AddressSanitizer: ([\w-]+)", stderr)
    if m:
        kind = "asan:" + m.group(1)
    else:
        m = re.search(r"([^\s:]+):(\d+):\d+: runtime error: (.*)", stderr)
        if m:
            kind = "ubsan:" + re.sub(r"\b\d[\d.]*\b", "#", m.group(3))[:60]
    if kind is None and returncode is not None and returncode < 0:
        kind = "signal:%d" % (-returncode)
    if kind is None and "terminate called" in stderr:
        kind = "terminate"
    if kind is None:
        return None
    frame = ""
    m = _FRAME.search(stderr)
    if m:
        fn = re.sub(r"\(.*", "", m.group(1))
        frame = "%s@%s" % (fn, m.group(2))
    return Crash(kind=kind, frame=frame, text=stderr[-3000:])


def run(argv, stdin_text=None, timeout=120, cwd=None, binary=False):
    """Run a program; return (returncode, stdout, stderr, crash|None).
    A timeout is returned as returncode None and crash kind 'timeout'."""
    try:
        p = subprocess.run(argv, input=stdin_text, stdout=subprocess.PIPE,
                           stderr=subprocess.PIPE, timeout=timeout, env=ENV, cwd=cwd,
                           text=not binary, errors=None if binary else "replace")
    except subprocess.TimeoutExpired as e:
        return None, "", "", Crash(kind="timeout", frame="", text="timeout %ss" % timeout)
    err = p.stderr if not binary else p.stderr.decode("utf-8", "replace")
    return p.returncode, p.stdout, err, classify(err, p.returncode)


def driver(name, script, timeout=120):
    """Run driver `name` on a command script; returns (answers, crash).
    answers: list of decoded JSON lines (those produced before a crash)."""
    rc, out, err, crash = run([build.exe(name)], script, timeout=timeout)
    answers = []
    for line in out.splitlines():
        line = line.strip()
        if not line:
            continue
        try:
            answers.append(json.loads(line))
        except ValueError:
            answers.append({"fatal": "undecodable: " + line[:200]})
    if crash is None and rc not in (0, None):
        crash = Crash(kind="exit:%s" % rc, frame="", text=err[-2000:])
    return answers, crash
