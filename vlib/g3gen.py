"""C19 generators: ECEF networks for gama-g3 as JSON-serialisable cases built from Hypothesis draws."""
import math

import numpy as np
from hypothesis import strategies as st

from . import g3model as gm

ID_POOL = ["A", "B1", "c", "104", "P_5", "pt-6", "7a", "X", "sta.9", "Q"]
KINDS = ["gnss_fixed", "gnss_fixed", "gnss_free", "gnss_free", "mixed_fixed", "mixed_fixed", "dist_fixed", "dist_fixed", "dist_free"]
LAT_CLASSES = ["equator", "mid_north", "mid_south", "polar_cap", "pole", "antimeridian"]
DEG = 3600 * 100000          # units of 1e-5" per degree


@st.composite
def ellipsoid(draw):
    k = draw(st.sampled_from(["default", "default", "id", "id", "ab", "af"]))
    if k == "id":
        return {"kind": "id", "id": draw(st.sampled_from(sorted(gm.ELLIPSOIDS)))}
    if k == "ab":
        a = 6378000 + draw(st.integers(0, 500))
        return {"kind": "ab", "a": float(a), "b": float(a - 21000 - draw(st.integers(0, 800)))}
    if k == "af":
        return {"kind": "af", "a": float(6377000 + draw(st.integers(0, 1500))), "invf": 290.0 + draw(st.integers(0, 1000)) / 100.0}
    return {"kind": "default"}


@st.composite
def positions(draw, n, scale, ell):
    """-> (lat_class, [(b, l, h)]) in units 1e-5", 1e-5", mm"""
    ab = gm.ellipsoid_ab(ell)
    if scale == "global":
        out = []
        for _ in range(n):
            out.append((draw(st.integers(-90 * DEG, 90 * DEG)), draw(st.integers(-180 * DEG + 1, 180 * DEG)),
                        draw(st.integers(-100000, 4000000))))
        return "global", out
    lat = draw(st.sampled_from(LAT_CLASSES))
    sgn = draw(st.sampled_from([-1, 1]))
    L0 = draw(st.integers(-180 * DEG + 1, 180 * DEG))
    if lat == "equator":
        B0 = draw(st.integers(-DEG // 2, DEG // 2))
    elif lat == "mid_north":
        B0 = draw(st.integers(20 * DEG, 70 * DEG))
    elif lat == "mid_south":
        B0 = -draw(st.integers(20 * DEG, 70 * DEG))
    elif lat == "polar_cap":
        B0 = sgn * draw(st.integers(80 * DEG, 90 * DEG - DEG // 10))
    elif lat == "pole":
        B0 = sgn * 90 * DEG
    else:
        B0 = draw(st.integers(-70 * DEG, 70 * DEG))
        L0 = 180 * DEG - draw(st.integers(0, DEG // 200))
    H0 = draw(st.integers(-100, 3000)) * 1000
    cell = 300.0 if scale == "local" else 20000.0
    uamp = 400 if scale == "local" else 1500
    cells = draw(st.lists(st.tuples(st.integers(-4, 4), st.integers(-4, 4)), min_size=n, max_size=n, unique=True))
    Bc, Lc = gm.units_to_rad(B0), gm.units_to_rad(L0)
    C0 = gm.blh2xyz(ab, Bc, Lc, H0 * 1e-3)
    R0 = gm.frame(Bc, Lc)
    out = []
    for k, (i, j) in enumerate(cells):
        jn = draw(st.integers(-250, 250)) / 1000.0
        je = draw(st.integers(-250, 250)) / 1000.0
        du = draw(st.integers(-uamp, uamp)) * 1.0
        if k == 0 and lat == "pole":
            out.append((B0, L0, H0))
            continue
        nn, ee = (i + jn) * cell, (j + je) * cell
        s2 = nn * nn + ee * ee
        P = C0 + R0 @ np.array([nn, ee, du + s2 / (2.0 * ab[0])])
        B, L, H = gm.xyz2blh(ab, P)
        out.append((int(round(B / gm.ARCSEC * 1e5)), int(round(L / gm.ARCSEC * 1e5)), int(round(H * 1e3))))
    return lat, out


STATUS_FREEISH = ["free", "free", "free", "free", "free", "constr", "fixed"]


@st.composite
def covariance(draw, obs, big_sigma=False):
    """cov description of a cluster (see g3model.cluster_cov)"""
    m = sum(gm.OBS_DIM[o["t"]] for o in obs)
    scalars = 0
    for o in obs:
        if gm.OBS_DIM[o["t"]] == 1:
            scalars += 1
        else:
            break
    own = 0
    if scalars and draw(st.integers(0, 2)) == 0:
        # leading scalar observations carry their own <stdev>/<variance>
        own = scalars if (scalars == len(obs) and draw(st.booleans())) else draw(st.integers(1, scalars))
    rest = m - own
    r = draw(st.integers(0, 5))
    if rest <= 1 or r == 0:
        band = 0
    elif r <= 3:
        band = rest - 1                      # full matrix
    else:
        band = draw(st.integers(1, max(1, min(rest - 1, 4))))
    return {"own": own, "band": band, "sigscale": draw(st.sampled_from([1, 1, 1, 1, 30, 1000])) if big_sigma else 1,
            "sdmode": draw(st.lists(st.sampled_from(["stdev", "variance"]), min_size=3, max_size=3)),
            "diag": draw(st.lists(st.integers(2, 6), min_size=4, max_size=4)),
            "off": draw(st.lists(st.integers(-2, 2), min_size=6, max_size=6)),
            "sig": draw(st.lists(st.integers(5, 200), min_size=4, max_size=4))}


@st.composite
def network(draw, noisy=None, kinds=None):
    kind = draw(st.sampled_from(kinds or KINDS))
    ell = draw(ellipsoid())
    gnss = kind.startswith("gnss")
    n = draw(st.integers(4, 7)) if kind == "dist_free" else draw(st.integers(2, 7))
    scale = draw(st.sampled_from(["local", "local", "regional"] + (["global", "global"] if gnss else [])))
    lat, pos = draw(positions(n, scale, ell))
    ids = list(draw(st.permutations(ID_POOL)))[:n]
    if noisy is None:
        noisy = draw(st.booleans())
    use_dh = draw(st.integers(0, 3)) == 0
    use_defl = (not use_dh) and (not gnss) and kind != "dist_free" and draw(st.integers(0, 3)) == 0

    pts = []
    for k in range(n):
        pts.append({"id": ids[k], "b": pos[k][0], "l": pos[k][1], "h": pos[k][2], "ne": "free", "u": "free",
                    "given": draw(st.sampled_from(["xyz", "xyz", "xyz", "blh"])),
                    "style": draw(st.sampled_from(["global", "local"])), "d": [0, 0, 0], "geoid": None, "defl": None})

    obs = []

    def dh():
        return draw(st.integers(0, 2500)) if (use_dh and draw(st.booleans())) else 0

    def mk(t, *a):
        if t == "vector":
            i, j = a
            if draw(st.booleans()):
                i, j = j, i
            return {"t": "vector", "from": i, "to": j, "fdh": dh(), "tdh": dh()}
        if t == "distance":
            return {"t": "distance", "from": a[0], "to": a[1], "fdh": dh(), "tdh": dh()}
        if t == "zenith":
            return {"t": "zenith", "from": a[0], "to": a[1], "fdh": dh(), "tdh": dh(), "dms": draw(st.integers(0, 3)) == 0}
        if t == "angle":
            return {"t": "angle", "from": a[0], "left": a[1], "right": a[2], "fdh": dh(),
                    "ldh": dh() if draw(st.integers(0, 3)) == 0 else 0, "rdh": dh() if draw(st.integers(0, 3)) == 0 else 0,
                    "dms": draw(st.integers(0, 3)) == 0}
        if t == "xyz":
            return {"t": "xyz", "id": a[0]}
        if t == "height":
            return {"t": "height", "id": a[0]}
        if t == "hdiff":
            return {"t": "hdiff", "from": a[0], "to": a[1]}
        raise ValueError(t)

    def other(k, cnt=1, upto=None):
        pool = [i for i in range(upto if upto is not None else n) if i != k]
        if cnt == 1:
            return draw(st.sampled_from(pool))
        return list(draw(st.permutations(pool)))[:cnt]

    datum = None
    if kind in ("gnss_fixed", "mixed_fixed", "dist_fixed"):
        datum = draw(st.sampled_from(["fixed_point", "fixed_point", "xyz_obs"]))
        if datum == "fixed_point":
            pts[0]["ne"] = pts[0]["u"] = "fixed"
        else:
            obs.append(mk("xyz", 0))
        for k in range(1, n):
            pts[k]["ne"] = draw(st.sampled_from(STATUS_FREEISH))
            pts[k]["u"] = draw(st.sampled_from(STATUS_FREEISH))
        for k in range(1, n):
            recipes = ["vector", "vector", "xyz"]
            if kind == "mixed_fixed":
                if k >= 2:
                    recipes += ["polar", "polar", "polar"]
                if k >= 3:
                    recipes += ["trilat", "trilat"]
            if kind == "dist_fixed" and k >= 3:
                recipes += ["trilat", "trilat", "trilat"]
            rc = draw(st.sampled_from(recipes))
            if rc == "vector":
                obs.append(mk("vector", other(k, upto=k), k))
            elif rc == "xyz":
                obs.append(mk("xyz", k))
            elif rc == "polar":
                s, t = other(k, 2, upto=k)
                if draw(st.booleans()):
                    obs.append(mk("angle", s, t, k))
                else:
                    obs.append(mk("angle", s, k, t))
                obs.append(mk("zenith", s, k) if draw(st.booleans()) else mk("hdiff", s, k))
                obs.append(mk("distance", s, k))
            else:
                a, b, c = other(k, 3, upto=k)
                obs += [mk("distance", a, k), mk("distance", k, b), mk("distance", c, k)]
                obs.append(mk("height", k) if (kind == "dist_fixed" or draw(st.booleans())) else mk("zenith", a, k))
        types = ["vector", "xyz"] if gnss else ["vector", "xyz", "distance", "distance", "zenith", "angle", "height", "hdiff"]
        if kind == "dist_fixed":
            types = ["vector", "xyz", "distance", "distance", "distance", "height", "hdiff"]
        for _ in range(draw(st.integers(0, n + 2))):
            t = draw(st.sampled_from(types))
            k = draw(st.integers(0, n - 1))
            if t in ("xyz", "height"):
                obs.append(mk(t, k))
            elif t == "angle":
                if n >= 3:
                    l, r = other(k, 2)
                    obs.append(mk("angle", k, l, r))
            else:
                obs.append(mk(t, k, other(k)))
    else:
        # free networks: no fixed component, a subset of constrained components
        nc = draw(st.integers(0, n))
        if nc == 0 and draw(st.booleans()):
            nc = 1
        if kind == "dist_free" and nc:
            nc = max(nc, 3)
        chosen = set(list(draw(st.permutations(list(range(n)))))[:nc])
        for k in chosen:
            what = draw(st.sampled_from(["both", "both", "both", "ne", "u"]))
            if what in ("both", "ne"):
                pts[k]["ne"] = "constr"
            if what in ("both", "u"):
                pts[k]["u"] = "constr"
        if kind == "gnss_free":
            for k in range(1, n):
                obs.append(mk("vector", other(k, upto=k), k))
            for _ in range(draw(st.integers(0, n + 1))):
                k = draw(st.integers(0, n - 1))
                obs.append(mk("vector", k, other(k)))
        else:
            # every pair of points with a drawn probability: distances only (exact datum defect 6),
            # a few vectors reduce it to 4 / 3
            dens = draw(st.sampled_from([100, 100, 85, 70]))
            for i in range(n):
                for j in range(i + 1, n):
                    if draw(st.integers(0, 99)) < dens:
                        obs.append(mk("distance", i, j) if draw(st.booleans()) else mk("distance", j, i))
            for _ in range(draw(st.sampled_from([0, 0, 0, 1, 2]))):
                k = draw(st.integers(0, n - 1))
                obs.append(mk("vector", k, other(k)))

    # an unused point with observations (they must be ignored)
    if draw(st.integers(0, 9)) == 0:
        b, l, h = pos[0]
        pts.append({"id": "unused1", "b": b + 3 * 100000, "l": l, "h": h + 5000, "ne": "unused", "u": "unused",
                    "given": draw(st.sampled_from(["xyz", "blh", "none"])), "style": draw(st.sampled_from(["global", "local"])),
                    "d": [0, 0, 0], "geoid": None, "defl": None})
        k = len(pts) - 1
        tgt = draw(st.integers(0, n - 1))
        if gnss:
            obs.append(mk("vector", k, tgt))
        else:
            # the unused point takes every role once in a while: end of a vector / distance / zenith angle, station,
            # left or right target of an angle
            role = draw(st.sampled_from(["vector", "distance", "distance_from", "zenith", "angle_from", "angle_left", "angle_right"]))
            if role == "vector":
                obs.append(mk("vector", k, tgt))
            elif role == "distance":
                obs.append(mk("distance", tgt, k))
            elif role == "distance_from":
                obs.append(mk("distance", k, tgt))
            elif role == "zenith":
                obs.append(mk("zenith", tgt, k))
            elif n >= 2:
                t2 = other(tgt)
                if role == "angle_from":
                    obs.append(mk("angle", k, tgt, t2))
                elif role == "angle_left":
                    obs.append(mk("angle", tgt, k, t2))
                else:
                    obs.append(mk("angle", tgt, t2, k))
            else:
                obs.append(mk("distance", tgt, k))

    # points of angles are mostly given as XYZ (a labelled minority keeps B-L-H)
    if draw(st.integers(0, 3)) != 0:
        for o in obs:
            if o["t"] == "angle":
                for q in (o["from"], o["left"], o["right"]):
                    pts[q]["given"] = "xyz"

    # geoid undulations where heights are observed
    need_geoid = set()
    for o in obs:
        if o["t"] == "height":
            need_geoid.add(o["id"])
        if o["t"] == "hdiff":
            need_geoid.update((o["from"], o["to"]))
    for k in range(len(pts)):
        if k in need_geoid or draw(st.integers(0, 5)) == 0:
            pts[k]["geoid"] = draw(st.integers(-60000, 60000))
    if use_defl:
        for k in range(len(pts)):
            if draw(st.booleans()):
                pts[k]["defl"] = [draw(st.integers(-500, 500)), draw(st.integers(-500, 500))]     # 0.01"

    # perturbation of the given coordinates of non-fixed components
    types_present = set(o["t"] for o in obs)
    linear_only = types_present <= {"vector", "xyz"} and not use_dh
    modes = ["exact", "small", "small", "small"]
    if linear_only:
        modes += ["medium", "medium", "big", "big"]
    elif types_present <= {"vector", "xyz", "height", "hdiff"} and not use_dh:
        modes += ["medium"]
    shift = draw(st.sampled_from(modes))
    amp_xyz = {"exact": 0, "small": 300, "medium": 30000, "big": 50000000}[shift]            # 0.01 mm
    amp_bl = {"exact": 0, "small": 10, "medium": 900, "big": 1500000}[shift]                # 1e-5"
    amp_h = {"exact": 0, "small": 3, "medium": 300, "big": 500000}[shift]                    # mm
    for p in pts:
        if p["ne"] == "unused":
            continue
        partial = (p["ne"] == "fixed") != (p["u"] == "fixed")
        ax, ab_, ah = amp_xyz, amp_bl, amp_h
        if partial and shift in ("medium", "big"):
            ax, ab_, ah = 300, 10, 3
        if p["given"] == "blh":
            d = [draw(st.integers(-ab_, ab_)), draw(st.integers(-ab_, ab_)), draw(st.integers(-ah, ah))]
        else:
            d = [draw(st.integers(-ax, ax)), draw(st.integers(-ax, ax)), draw(st.integers(-ax, ax))]
        if p["ne"] == "fixed":
            d[0] = d[1] = 0
        if p["u"] == "fixed":
            d[2] = 0
        p["d"] = d
    # points without given coordinates: only where gama can derive them from vectors / xyz (checked by the oracle)
    # (not in free networks regularised over all unknowns, not at a pole where the printed 9 decimals do not fix the frame)
    any_constr = any(p["ne"] == "constr" or p["u"] == "constr" for p in pts)
    if gnss and lat != "pole" and not use_dh and (kind == "gnss_fixed" or any_constr) and draw(st.integers(0, 2)) == 0:
        for k, p in enumerate(pts):
            # (a constrained component without given coordinates would make the datum depend on which observation
            # gama happens to use for the approximate position)
            if p["ne"] == "free" and p["u"] == "free" and abs(p["b"]) < 89 * DEG and draw(st.booleans()):
                p["given"] = "none"
                p["d"] = [0, 0, 0]

    # clusters: observations of one dimension per cluster, except in the labelled class of mixed clusters
    clusters = []
    order = list(range(len(obs)))
    if draw(st.booleans()):
        order = list(draw(st.permutations(order)))
    mixdim = draw(st.integers(0, 5)) == 0
    if mixdim:
        groups = [order]
    else:
        groups = [[k for k in order if gm.OBS_DIM[obs[k]["t"]] == 3], [k for k in order if gm.OBS_DIM[obs[k]["t"]] == 1]]
    for grp in groups:
        i = 0
        while i < len(grp):
            sz = draw(st.sampled_from([1, 1, 2, 3, 4]))
            part = [obs[k] for k in grp[i:i + sz]]
            i += sz
            # leading scalars may carry their own stdev
            if draw(st.booleans()):
                part.sort(key=lambda o: gm.OBS_DIM[o["t"]])
            for o in part:
                o["z"] = [draw(st.integers(-300, 300)) for _ in range(gm.OBS_DIM[o["t"]])] if noisy else [0] * gm.OBS_DIM[o["t"]]
            clusters.append({"obs": part, "cov": draw(covariance(part, big_sigma=not noisy))})
    if len(clusters) > 1 and draw(st.booleans()):
        clusters = [clusters[k] for k in draw(st.permutations(list(range(len(clusters)))))]

    const = {"apriori_sd": draw(st.sampled_from([None, None, 1, 10, 3.5])),
             "ref": draw(st.sampled_from([None, None, "apriori", "aposteriori"])),
             "units": draw(st.sampled_from([None, None, "gons", "degrees"])),
             "tolabs": 1e9 if shift == "big" else draw(st.sampled_from([None, None, 1500])),
             "conf": draw(st.sampled_from([None, 0.95, 0.99]))}
    return {"kind": kind, "scale": scale, "lat": lat, "ell": ell, "const": const, "pts": pts, "clusters": clusters,
            "noisy": bool(noisy), "shift": shift, "datum": datum, "use_dh": use_dh}


@st.composite
def record_order(draw, case):
    """a permutation of the input records: points, clusters, observations within clusters; optional interleaving"""
    npts, ncl = len(case["pts"]), len(case["clusters"])
    inner = []
    for cl in case["clusters"]:
        own = cl["cov"]["own"]
        a = list(draw(st.permutations(list(range(own))))) if own > 1 else list(range(own))
        b = list(draw(st.permutations(list(range(own, len(cl["obs"])))))) if len(cl["obs"]) - own > 1 else list(range(own, len(cl["obs"])))
        inner.append(a + b)
    return {"pts": list(draw(st.permutations(list(range(npts))))), "cl": list(draw(st.permutations(list(range(ncl))))),
            "in": inner, "interleave": draw(st.integers(0, 3)) == 0,
            "flip_style": draw(st.booleans())}
