"""C19 reference analysis of a generated gama-g3 network: which observations gama must use,
the unknowns, my own design matrix (numerical Jacobian), right-hand side, covariance, the
numpy least-squares solution and the predicted printed results."""
import math

import numpy as np

from . import g3model as gm, ref_linalg

COMPS = ("n", "e", "u")


class Discard(Exception):
    """the case is outside the quantified domain (reason = label)"""


def derive_positions(case, net, obsval):
    """points without given coordinates: can gama derive them (xyz observation, vector from a point with position)?
    -> set of point indices that have a position"""
    have = set(i for i, g in enumerate(net.given) if g is not None)
    changed = True
    while changed:
        changed = False
        for cl in case["clusters"]:
            for o in cl["obs"]:
                if o["t"] == "xyz" and o["id"] not in have:
                    have.add(o["id"]); changed = True
                if o["t"] == "vector":
                    a, b = o["from"] in have, o["to"] in have
                    if a != b:
                        have.update((o["from"], o["to"])); changed = True
    return have


class Analysis:
    pass


def analyse(case, approx_override=None, skip=()):
    """Reference analysis.  approx_override: {point index: XYZ} linearisation points observed from the
    output (for points whose coordinates gama derived itself)."""
    net = gm.Net(case)
    obsval = gm.observed(case, net)
    pts = case["pts"]
    unused = set(i for i, p in enumerate(pts) if p["ne"] == "unused" and p["u"] == "unused")
    have = derive_positions(case, net, obsval)
    An = Analysis()
    An.net, An.obsval, An.unused = net, obsval, unused
    # active observations in document order
    act = []          # (cluster index, obs index, offset in cluster)
    for ci, cl in enumerate(case["clusters"]):
        off = 0
        for oi, o in enumerate(cl["obs"]):
            ps = gm.obs_points(o)
            ok = not any(p in unused for p in ps) and (ci, oi) not in skip
            if ok and any(p not in have for p in ps):
                raise Discard("discard_no_position")
            if ok and o["t"] in ("height", "hdiff") and any(net.geoid[p] is None for p in ps):
                ok = False
            if ok:
                act.append((ci, oi, off))
            off += gm.OBS_DIM[o["t"]]
    An.act = act
    if not act:
        raise Discard("discard_no_observation")
    # linearisation points
    approx = []
    for i in range(len(pts)):
        if approx_override and i in approx_override:
            approx.append(np.array(approx_override[i], float))
        elif net.given[i] is not None:
            approx.append(net.given[i])
        else:
            approx.append(net.truth[i])
    An.approx = approx
    An.frames = []
    for i in range(len(pts)):
        B, L, _ = gm.xyz2blh(net.ab, approx[i])
        if pts[i]["given"] == "blh" and not (approx_override and i in approx_override):
            d = pts[i].get("d") or [0, 0, 0]
            B, L = gm.units_to_rad(pts[i]["b"] + d[0]), gm.units_to_rad(pts[i]["l"] + d[1])
        An.frames.append(gm.frame(B, L))
    # unknowns: non-fixed components of the points of active observations, in order of first appearance
    params, pidx = [], {}
    for ci, oi, off in act:
        o = case["clusters"][ci]["obs"][oi]
        for p in gm.obs_points(o):
            # heights and height differences introduce only the up component of their points
            for c in (("u",) if o["t"] in ("height", "hdiff") else COMPS):
                st = pts[p]["ne"] if c in "ne" else pts[p]["u"]
                if st in ("free", "constr") and (p, c) not in pidx:
                    pidx[(p, c)] = len(params)
                    params.append((p, c))
    An.params, An.pidx = params, pidx
    An.constr = [k for k, (p, c) in enumerate(params) if (pts[p]["ne"] if c in "ne" else pts[p]["u"]) == "constr"]
    if gm.MUTATE == "minx_free" and An.constr:
        An.constr = [k for k in range(len(params)) if k not in An.constr] or An.constr
    if not params:
        raise Discard("discard_no_unknown")
    # rows
    rows = []         # (act index, component, obs)
    for k, (ci, oi, off) in enumerate(act):
        o = case["clusters"][ci]["obs"][oi]
        for d in range(gm.OBS_DIM[o["t"]]):
            rows.append((k, d, o))
    An.rows = rows
    m, n = len(rows), len(params)
    A = np.zeros((m, n))
    rhs = np.zeros(m)
    dmin = None
    r = 0
    for k, (ci, oi, off) in enumerate(act):
        o = case["clusters"][ci]["obs"][oi]
        dim = gm.OBS_DIM[o["t"]]
        sc = gm.obs_scale(o)
        f0 = net.f(o, approx)
        l = obsval[ci]["vals"][oi]
        rhs[r:r + dim] = gm.wrap(o, l - f0) * sc
        ps = gm.obs_points(o)
        # step of the numerical differentiation: a fraction of the shortest sight of this observation
        dd = [np.linalg.norm(approx[a] - approx[b]) for a in ps for b in ps if a < b]
        h = 1.0
        if dd:
            dm = min(dd)
            if o["t"] not in ("vector", "xyz"):
                dmin = dm if dmin is None else min(dmin, dm)
                h = min(1.0, dm / 200.0)
        for p in set(ps):
            for c_i, c in enumerate(COMPS):
                if (p, c) not in pidx:
                    continue
                e = An.frames[p][:, c_i]
                if o["t"] in ("vector", "xyz"):
                    # linear in the coordinates (instrument heights along a normal held fixed): the derivative is the
                    # unit vector of the component itself; numerical differentiation would only add rounding noise
                    sgn = 1.0 if o["t"] == "xyz" else ((1.0 if o["to"] == p else 0.0) - (1.0 if o["from"] == p else 0.0))
                    A[r:r + dim, pidx[(p, c)]] = sgn * e * sc * 1e-3
                    continue

                def g(t):
                    pos = list(approx)
                    pos[p] = approx[p] + t * e
                    return net.f(o, pos, ref=approx)
                d1 = (gm.wrap(o, g(h) - g(-h))) / (2 * h)
                d2 = (gm.wrap(o, g(h / 2) - g(-h / 2))) / h
                d1 = (4.0 * d2 - d1) / 3.0              # Richardson
                A[r:r + dim, pidx[(p, c)]] = d1 * sc * 1e-3       # per mm
        r += dim
    An.A, An.rhs, An.dmin = A, rhs, dmin
    An.dmax_ang = max([float(np.linalg.norm(approx[a] - approx[b])) for ci, oi, off in act
                       for o in [case["clusters"][ci]["obs"][oi]] if o["t"] in gm.ANGULAR
                       for a in gm.obs_points(o) for b in gm.obs_points(o) if a < b] or [0.0])
    # covariance of the active rows
    C = np.zeros((m, m))
    r = 0
    k = 0
    while k < len(act):
        ci = act[k][0]
        idx = []
        while k < len(act) and act[k][0] == ci:
            o = case["clusters"][ci]["obs"][act[k][1]]
            idx += [act[k][2] + d for d in range(gm.OBS_DIM[o["t"]])]
            k += 1
        Cc = obsval[ci]["C"][np.ix_(idx, idx)]
        C[r:r + len(idx), r:r + len(idx)] = Cc
        r += len(idx)
    An.C = C
    s0 = case["const"].get("apriori_sd")
    An.s0 = float(s0) if s0 is not None else 1.0
    An.Q = C / (An.s0 ** 2)
    return An


def solve(An, rank_gap=(5e-4, 1e-10)):
    """numpy solution of the reference system; None when the rank is numerically ambiguous"""
    S = An.constr if An.constr else None
    if not (np.all(np.isfinite(An.A)) and np.all(np.isfinite(An.rhs))):
        return None                 # degenerate geometry (coincident points): no reference
    try:
        R = ref_linalg.solve(An.A, An.rhs, An.Q, S, rank_gap=rank_gap)
    except np.linalg.LinAlgError:
        return None
    return R


def stdev_obs(An):
    return np.sqrt(np.diag(An.C))
