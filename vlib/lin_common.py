"""Shared helpers for the linear-algebra level properties (C01-C04)."""
import numpy as np

from . import drv, gen_linear, ref_linalg

ALGS = ["envelope", "cholesky", "gso", "svd"]


def reference(case):
    A = np.array(case["A"], float).reshape(case["m"], case["n"])
    C = gen_linear.cov_matrix(case)
    S = None if case["minx"] is None else [i - 1 for i in case["minx"]]
    return A, C, ref_linalg.solve(A, case["b"], C, S)


def whitened_case(case, R):
    w = dict(case)
    w["A"] = R.Ab.tolist()
    w["b"] = R.bb.tolist()
    w["blocks"] = [{"dim": 1, "width": 0, "band": [1.0]} for _ in range(case["m"])]
    return w


def query(case, kind, algs, queries):
    """Create one object per algorithm, ask `queries` (list of strings like 'x', 'qxx 1 2')
    Returns {alg: {query: answer} | {'crash': Crash}}"""
    script = gen_linear.script_problem(case)
    for k, alg in enumerate(algs):
        script += "new %d %s %s\n" % (k, kind, alg)
        for q in queries:
            script += "%d %s\n" % (k, q)
        script += "del %d\n" % k
    answers, crash = drv.driver("gdrv_adj", script)
    out = {}
    step = len(queries) + 2
    for k, alg in enumerate(algs):
        chunk = answers[step * k:step * (k + 1)]
        if len(chunk) < step:
            out[alg] = {"crash": crash or drv.Crash(kind="short", frame="", text=str(answers[-2:]))}
        else:
            out[alg] = dict(zip(queries, chunk[1:-1]))
    return out


def val(a):
    """numeric value of an answer or None (exception / non-finite marker)."""
    if not isinstance(a, dict) or "v" not in a:
        return None
    try:
        v = np.array(a["v"], float)
    except (TypeError, ValueError):
        return None
    return v


def labels(case, R, stats):
    stats.label("d=0" if R.d == 0 else "d>0", "defect=%d" % R.d)
    if any(b["width"] > 0 for b in case["blocks"]):
        stats.label("band>0")
    if case["minx"] is None:
        stats.label("minx=none")
    elif len(set(case["minx"])) == case["n"]:
        stats.label("minx=all")
    else:
        stats.label("subset")
    if case.get("zero_col"):
        stats.label("zero_column")
    if case["m"] == R.rank:
        stats.label("no_redundancy")
    if case.get("offset"):
        stats.label("large_abs_terms")
    if case.get("pow2"):
        stats.label("scaled_units", "scaled_2^%d" % case["pow2"])


def nontrivial(case):
    return (case["d"] > 0 or any(b["width"] > 0 for b in case["blocks"])
            or (case["minx"] is not None and len(set(case["minx"])) < case["n"]))
