"""Readers of gama-g3 outputs (adjustment results XML, --project-equations dump),
independent of gama's own parsers (Python expat via adjxml.parse_tree), and the
runners of the real gama-g3 binary and of the gdrv_g3adj driver."""
import json
import os

import numpy as np

from . import adjxml, build, drv
from .netrun import TmpDir

NotWellFormed = adjxml.NotWellFormed


def _f(node, tag):
    t = node.get(tag)
    if t is None:
        return None
    try:
        return float(t)
    except ValueError:
        return float("nan")


def parse_results(text):
    """-> dict(stats, rejected, points (id -> dict), point_order, obs (list))"""
    root = adjxml.parse_tree(text)
    top = root.find("gnu-gama-data")
    if top is None:
        raise NotWellFormed("no <gnu-gama-data>")
    res = top.find("g3-adjustment-results")
    if res is None:
        raise NotWellFormed("no <g3-adjustment-results>")
    out = {"stats": {}, "rejected": [], "points": {}, "point_order": [], "obs": []}
    st = res.find("adjustment-statistics")
    if st is None:
        raise NotWellFormed("no <adjustment-statistics>")
    S = out["stats"]
    S["algorithm"] = st.get("algorithm")
    for k in ("parameters", "equations", "defect", "redundancy"):
        t = st.get(k)
        try:
            S[k] = int(t)
        except (TypeError, ValueError):
            S[k] = t
    for k in ("sum-of-squares", "apriori-variance", "aposteriori-variance"):
        S[k] = _f(st, k)
    S["variance-factor-used"] = st.get("variance-factor-used")
    S["design-matrix-graph"] = st.get("design-matrix-graph")
    el = st.find("ellipsoid")
    if el is not None:
        S["ellipsoid"] = {"id": el.get("id"), "a": _f(el, "a"), "b": _f(el, "b")}
    rj = res.find("rejected-observations")
    if rj is not None:
        for r in rj.findall("rejected"):
            item = {"reason": r.get("reason"), "flt": [float(c.text) for c in r.findall("flt")]}
            for c in r.children:
                if c.tag not in ("reason", "flt"):
                    item["tag"] = c.tag
                    for k in ("from", "to", "id"):
                        if c.get(k) is not None:
                            item[k] = c.get(k)
            out["rejected"].append(item)
    ar = res.find("adjustment-results")
    if ar is None:
        raise NotWellFormed("no <adjustment-results>")
    for p in ar.findall("point"):
        pid = p.get("id")
        d = {"id": pid}
        inds = [c for c in p.children if c.tag == "ind"]
        k = 0
        for comp in ("n", "e", "u"):
            status = None
            for s in ("fixed", "constr", "free", "unused"):
                if p.find("%s-%s" % (comp, s)) is not None:
                    status = s
            if comp == "u" and status is None and p.find("unused") is not None:
                status = "unused"
            corr = _f(p, "d" + comp)
            ind = None
            if corr is not None and k < len(inds):
                ind = int(inds[k].text)
                k += 1
            d[comp] = {"status": status, "d": corr, "ind": ind}
        for key in ("cnn", "cne", "cnu", "cee", "ceu", "cuu", "cxx", "cxy", "cxz", "cyy", "cyz", "czz"):
            d[key] = _f(p, key)
        for c in ("x", "y", "z"):
            d[c] = {"given": _f(p, c + "-given"), "correction": _f(p, c + "-correction"), "adjusted": _f(p, c + "-adjusted")}
        for c in ("b", "l"):
            d[c] = {"given": p.get(c + "-given"), "correction": _f(p, c + "-correction"), "adjusted": p.get(c + "-adjusted")}
        d["h"] = {"given": _f(p, "h-given"), "correction": _f(p, "h-correction"), "adjusted": _f(p, "h-adjusted")}
        d["geoid"] = _f(p, "geoid")
        if pid in out["points"]:
            d["duplicate"] = True
        out["points"][pid] = d
        out["point_order"].append(pid)
    ao = res.find("adjusted-observations")
    if ao is None:
        raise NotWellFormed("no <adjusted-observations>")
    for o in ao.children:
        item = {"tag": o.tag}
        for k in ("from", "to", "id"):
            if o.get(k) is not None:
                item[k] = o.get(k)
        if o.get("ind") is not None:
            item["ind"] = int(o.get("ind"))
        for c in o.children:
            if c.tag in ("from", "to", "id", "ind"):
                continue
            try:
                item[c.tag] = float(c.text)
            except ValueError:
                item[c.tag] = float("nan")
        out["obs"].append(item)
    return out


def parse_dump(text):
    """--project-equations dump -> dict(A (dense), rhs, blocks [(dim,width,[flt])], C (dense), minx or None)"""
    root = adjxml.parse_tree(text)
    top = root.find("gnu-gama-data")
    d = top.find("adj-input-data") if top is not None else None
    if d is None:
        raise NotWellFormed("no <adj-input-data>")
    sm = d.find("sparse-mat")
    rows, cols, nonz = int(sm.get("rows")), int(sm.get("cols")), int(sm.get("nonz"))
    A = np.zeros((rows, cols))
    cnt = 0
    rws = sm.findall("row")
    if len(rws) != rows:
        raise NotWellFormed("sparse-mat: %d rows announced, %d present" % (rows, len(rws)))
    for i, r in enumerate(rws):
        ints = [int(c.text) for c in r.findall("int")]
        flts = [float(c.text) for c in r.findall("flt")]
        if int(r.get("nonz")) != len(ints) or len(ints) != len(flts):
            raise NotWellFormed("sparse-mat row %d: nonz mismatch" % (i + 1))
        for j, v in zip(ints, flts):
            if not 1 <= j <= cols:
                raise NotWellFormed("sparse-mat row %d: column index %d outside 1..%d" % (i + 1, j, cols))
            A[i, j - 1] += v
            cnt += 1
    if cnt != nonz:
        raise NotWellFormed("sparse-mat: nonz %d announced, %d present" % (nonz, cnt))
    bd = d.find("block-diagonal")
    blocks = []
    C = np.zeros((rows, rows))
    off = 0
    for b in bd.findall("block"):
        dim, w = int(b.get("dim")), int(b.get("width"))
        fl = [float(c.text) for c in b.findall("flt")]
        if len(fl) != dim * (w + 1) - w * (w + 1) // 2:
            raise NotWellFormed("block-diagonal: block of dim %d width %d has %d numbers" % (dim, w, len(fl)))
        k = 0
        for i in range(dim):
            for j in range(i, min(i + w, dim - 1) + 1):
                if off + j >= rows:
                    raise NotWellFormed("block-diagonal larger than the number of rows")
                C[off + i, off + j] = C[off + j, off + i] = fl[k]
                k += 1
        blocks.append((dim, w))
        off += dim
    if off != rows:
        raise NotWellFormed("block-diagonal: total dimension %d, rows %d" % (off, rows))
    if int(bd.get("blocks")) != len(blocks):
        raise NotWellFormed("block-diagonal: %s blocks announced, %d present" % (bd.get("blocks"), len(blocks)))
    v = d.find("vector")
    rhs = np.array([float(c.text) for c in v.findall("flt")])
    if int(v.get("dim")) != len(rhs) or len(rhs) != rows:
        raise NotWellFormed("vector: dim %s, %d numbers, %d rows" % (v.get("dim"), len(rhs), rows))
    minx = None
    a = d.find("array")
    if a is not None:
        minx = [int(c.text) for c in a.findall("int")]
        if int(a.get("dim")) != len(minx):
            raise NotWellFormed("array: dim mismatch")
    return {"A": A, "rhs": rhs, "C": C, "blocks": blocks, "minx": minx}


def gama_g3(text, alg=None, dump=False, timeout=60):
    """Run the real gama-g3.  Returns dict(rc, crash, stdout, stderr, out (text|None), pe (text|None))."""
    with TmpDir() as d:
        path = os.path.join(d, "in.xml")
        with open(path, "w", encoding="utf-8") as f:
            f.write(text)
        argv = [build.exe("gama-g3")]
        if alg:
            argv += ["--algorithm", alg]
        if dump:
            argv += ["--project-equations", os.path.join(d, "pe.xml")]
        argv += [path, os.path.join(d, "out.xml")]
        rc, out, err, crash = drv.run(argv, timeout=timeout, cwd=d)
        res = {"rc": rc, "crash": crash, "stdout": out, "stderr": err, "out": None, "pe": None}
        for k, fn in (("out", "out.xml"), ("pe", "pe.xml")):
            p = os.path.join(d, fn)
            if os.path.exists(p):
                with open(p, "rb") as f:
                    res[k] = f.read().decode("utf-8", "replace")
    return res


def adj_driver(dump_text, algs=(), timeout=60):
    """gdrv_g3adj on a dump: (dict | None, crash | None)"""
    with TmpDir() as d:
        path = os.path.join(d, "pe.xml")
        with open(path, "w", encoding="utf-8") as f:
            f.write(dump_text)
        rc, out, err, crash = drv.run([build.exe("gdrv_g3adj"), path] + list(algs), timeout=timeout)
    if crash is not None:
        return None, crash
    try:
        return json.loads(out), None
    except ValueError:
        return None, drv.Crash(kind="undecodable", frame="", text=(out[-300:] + err[-500:]))
