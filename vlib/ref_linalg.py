"""numpy reference for weighted, possibly singular least squares (DESIGN 4.1).
Shares no code or algorithm with gama (LAPACK SVD / Cholesky)."""
import numpy as np


class Ref:
    pass


def solve(A, b, C, minx, rank_gap=(1e-4, 1e-11)):
    """A (m,n), b (m), C (m,m) spd, minx: None or list of 0-based indices.
    Returns Ref or None when the rank is numerically ambiguous."""
    A = np.asarray(A, float)
    b = np.asarray(b, float)
    m, n = A.shape
    L = np.linalg.cholesky(C)
    Ab = np.linalg.solve(L, A)          # whitened
    bb = np.linalg.solve(L, b)
    if n == 0:
        return None
    U, s, Vt = np.linalg.svd(Ab, full_matrices=True)
    s1 = s[0] if len(s) else 0.0
    if s1 == 0.0:
        return None
    sv = np.zeros(n)
    sv[:len(s)] = s
    rank = int(np.sum(sv > rank_gap[0] * s1))
    # ambiguous band
    if np.any((sv <= rank_gap[0] * s1) & (sv > rank_gap[1] * s1)):
        return None
    d = n - rank
    R = Ref()
    R.m, R.n, R.rank, R.d = m, n, rank, d
    R.Ab, R.bb, R.L = Ab, bb, L
    R.cond = sv[0] / sv[rank - 1] if rank else 1.0
    R.condC = np.linalg.cond(C)
    pinv = (Vt[:rank].T / sv[:rank]) @ U[:, :rank].T
    xp = pinv @ bb
    G = Vt[rank:].T                      # (n,d) null space basis
    R.G = G
    S = list(range(n)) if minx is None else sorted(set(minx))
    R.S = S
    if d > 0:
        GS = G[S, :]
        sg = np.linalg.svd(GS, compute_uv=False)
        # G has orthonormal columns, so sigma_d(G_S) in [0,1] measures absolutely how well
        # the selected unknowns fix the null space
        R.sg_ratio = float(sg[d - 1]) if len(sg) >= d else 0.0
        R.resolving = R.sg_ratio >= 1e-3
        R.nonresolving_exact = R.sg_ratio < 1e-10
        if not R.resolving:
            R.x = None
            return R
        GSp = np.linalg.pinv(GS)
        E = np.zeros((len(S), n))
        for k, i in enumerate(S):
            E[k, i] = 1.0
        T = np.eye(n) - G @ GSp @ E
        H = T @ pinv
        R.x = T @ xp
    else:
        R.resolving = True
        R.nonresolving_exact = False
        R.sg_ratio = 1.0
        H = pinv
        R.x = xp
    R.Q = H @ H.T
    R.v = A @ R.x - b
    R.vw = Ab @ R.x - bb
    R.rtr = float(R.vw @ R.vw)
    R.N = Ab.T @ Ab
    R.Pproj = Ab @ pinv                 # projector of the homogenised system
    R.AQA = A @ R.Q @ A.T               # cofactors of adjusted observations (original system)
    R.scale_x = max(1.0, float(np.max(np.abs(R.x)))) if n else 1.0
    return R
