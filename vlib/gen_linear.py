"""Hypothesis strategies for linear adjustment problems (DESIGN 3.1).

A case is a JSON-serialisable dict
  m, n        sizes
  A           dense m x n list of lists (zeros are structural zeros)
  b           m numbers
  blocks      [{dim, width, band: [row-wise upper band of C]}]
  minx        None (not given -> all) | list of 1-based indices
  d           planted defect
  resolving   whether minx resolves the defect (by construction)
"""
import numpy as np
from hypothesis import strategies as st


def band_from_full(C, w):
    dim = C.shape[0]
    out = []
    for i in range(dim):
        for j in range(i, min(dim, i + w + 1)):
            out.append(float(C[i, j]))
    return out


def full_from_band(dim, w, band):
    C = np.zeros((dim, dim))
    k = 0
    for i in range(dim):
        for j in range(i, min(dim, i + w + 1)):
            C[i, j] = C[j, i] = band[k]
            k += 1
    return C


def cov_matrix(case):
    m = case["m"]
    C = np.zeros((m, m))
    r = 0
    for b in case["blocks"]:
        d = b["dim"]
        C[r:r + d, r:r + d] = full_from_band(d, b["width"], b["band"])
        r += d
    return C


@st.composite
def cov_block(draw, dim, allow_band=True):
    w = draw(st.integers(0, dim - 1)) if (allow_band and dim > 1 and draw(st.booleans())) else 0
    # C = L L', L lower triangular with band w
    diag = [draw(st.integers(3, 30)) / 10.0 for _ in range(dim)]
    L = np.diag(diag)
    for i in range(dim):
        for j in range(max(0, i - w), i):
            L[i, j] = draw(st.integers(-10, 10)) / 10.0
    C = L @ L.T
    return {"dim": dim, "width": w, "band": band_from_full(C, w)}


@st.composite
def blocks_for(draw, m, allow_band=True, unit=False):
    out = []
    left = m
    while left > 0:
        dim = draw(st.integers(1, min(6, left)))
        if unit:
            out.append({"dim": dim, "width": 0, "band": [1.0] * dim})
        else:
            out.append(draw(cov_block(dim, allow_band)))
        left -= dim
    return out


def _offset(draw, A, b):
    """large absolute terms with small residuals: b + A x0 for a large x0 (approximate values far from the solution, as with
    heights given as 0 in a network at 3000 m).  The residuals and v'Pv stay those of b; formulas that obtain v'Pv as a
    difference of large numbers (b'Pb - x'A'Pb) lose them."""
    if draw(st.integers(0, 3)) != 0:
        return b, 0
    k = draw(st.integers(3, 7))
    x0 = np.array([draw(st.integers(-9, 9)) for _ in range(A.shape[1])], dtype=float) * 10.0 ** k
    return [float(v) for v in (np.array(b, float) + A @ x0)], k


def _scale(draw, A, b, big=False):
    """the same problem in other units: A and b multiplied by 2^k (exact, so the planted rank stays exact); x is unchanged,
    residuals scale by 2^k.  Rank decisions must not depend on the unit (absolute pivot tolerances do)."""
    if draw(st.integers(0, 3)) != 0:
        return A, b, 0
    # factors above 2^10 only where asked for (C01): the absolute tolerance of ICGS (gso) then takes the rounding of a dependent
    # column for an independent one - recorded as a known finding there
    k = draw(st.sampled_from([-20, -17, -14, -10, -5, 5, 10] + ([14, 17] if big else [])))
    f = 2.0 ** k
    return A * f, [float(v) * f for v in b], k


@st.composite
def linear_problem(draw, max_n=9, max_extra=10, unit_cov=False, singular_only=False,
                   minx_mode=None, big_scale=False):
    n = draw(st.integers(2 if singular_only else 1, max_n))
    if singular_only:
        d = draw(st.integers(1, min(3, n - 1)))
    else:
        d = 0 if draw(st.booleans()) else draw(st.integers(0, min(3, n - 1)))
    r = n - d
    extra = draw(st.integers(0, max_extra))
    real = draw(st.booleans())
    density = draw(st.sampled_from([0.25, 0.5, 0.8, 1.0]))
    rows = []
    for _ in range(extra):
        row = []
        for _j in range(r):
            if draw(st.integers(0, 99)) < density * 100:
                v = draw(st.integers(-6, 6))
                row.append(v / 2.0 if real and draw(st.booleans()) else float(v))
            else:
                row.append(0.0)
        rows.append(row)
    for j in range(r):
        row = [0.0] * r
        row[j] = float(draw(st.integers(2, 9)))
        rows.append(row)
    order = draw(st.permutations(list(range(len(rows)))))
    AI = np.array([rows[i] for i in order], dtype=float).reshape(len(rows), r)
    m = AI.shape[0]
    zero_col = False
    cols = [AI[:, j] for j in range(r)]
    combos = []
    for _ in range(d):
        if draw(st.integers(0, 19)) == 0:
            c = np.zeros(r)
            zero_col = True
        else:
            c = np.array([draw(st.integers(-2, 2)) for _ in range(r)], dtype=float)
            # avoid a combination that is accidentally zero (that is the zero_column class)
            if not c.any():
                c[draw(st.integers(0, r - 1))] = 1.0
        combos.append(c)
        cols.append(AI @ c)
    perm = draw(st.permutations(list(range(n))))
    A = np.column_stack([cols[p] for p in perm]) if n else np.zeros((m, 0))
    dep_positions = [i for i, p in enumerate(perm) if p >= r]
    b = [draw(st.integers(-20, 20)) / (2.0 if real else 1.0) for _ in range(m)]
    b, offset = _offset(draw, A, b) if n else (b, 0)
    A, b, pow2 = _scale(draw, A, b, big_scale) if n else (A, b, 0)
    blocks = draw(blocks_for(m, unit=unit_cov))
    # regularisation
    mode = minx_mode or draw(st.sampled_from(["none", "all", "subset", "subset", "depcols"]))
    minx = None
    if mode == "all":
        minx = list(range(1, n + 1))
    elif mode == "depcols":
        others = [i for i in range(n) if i not in dep_positions]
        k = draw(st.integers(0, len(others)))
        sel = sorted(set(dep_positions) | set(draw(st.permutations(others))[:k]))
        minx = [i + 1 for i in sel]
        if not minx:
            minx = list(range(1, n + 1))
    elif mode == "subset":
        k = draw(st.integers(max(d, 1), n))
        minx = sorted(i + 1 for i in draw(st.permutations(list(range(n))))[:k])
    elif mode == "nonres":
        # a subset that cannot fix the null space: columns outside the support of every
        # null vector, or fewer columns than the defect
        inv = {p: i for i, p in enumerate(perm)}
        free = [inv[k] for k in range(r) if all(c[k] == 0 for c in combos)]
        if free and draw(st.booleans()):
            k = draw(st.integers(1, len(free)))
            minx = sorted(i + 1 for i in draw(st.permutations(free))[:k])
        else:
            k = draw(st.integers(0, d - 1))
            minx = sorted(i + 1 for i in draw(st.permutations(list(range(n))))[:k])
    if minx is not None and draw(st.booleans()):
        minx = list(draw(st.permutations(minx)))
    return {"m": int(m), "n": int(n), "A": A.tolist(), "b": b, "blocks": blocks,
            "minx": minx, "d": int(d), "zero_col": zero_col, "mode": mode, "offset": offset, "pow2": pow2}


def script_problem(case, minx="case"):
    """Text of the 'problem' section for gdrv_adj."""
    A = case["A"]
    out = ["problem %d %d" % (case["m"], case["n"])]
    for row in A:
        nz = [(j + 1, v) for j, v in enumerate(row) if v != 0.0]
        out.append(" ".join([str(len(nz))] + ["%d %r" % (j, float(v)) for j, v in nz]))
    out.append(" ".join(repr(float(v)) for v in case["b"]) or "")
    out.append(str(len(case["blocks"])))
    for b in case["blocks"]:
        out.append("%d %d %s" % (b["dim"], b["width"], " ".join(repr(float(v)) for v in b["band"])))
    mx = case["minx"] if minx == "case" else minx
    if mx is None:
        out.append("-1")
    else:
        out.append(" ".join([str(len(mx))] + [str(i) for i in mx]))
    return "\n".join(out) + "\n"


@st.composite
def graph_problem(draw, min_n=10, max_n=40, singular_only=False, minx_mode=None, big_scale=False):
    """Larger sparse problems with the structure of real networks (DESIGN 9.1 named the small sizes as a limit):
    unknowns are nodes of a graph with 1..4 connected components, observation rows have coefficients that sum to zero
    inside one component (weighted differences e_j - e_i, second differences e_i - 2 e_j + e_k), anchored components get
    rows k e_i, every floating component contributes exactly one null vector (its indicator), an isolated node without
    any row is a zero column.  All coefficients are small binary fractions, so the rank is exact: it is decided by the
    connectivity that is built, not by a tolerance.  Node numbering is random or contiguous, the topology of a component
    is a path, a tree with a window, a star or a random tree, plus extra edges - this is what gives the envelope profiles
    of different shapes after the RCM ordering."""
    n = draw(st.integers(min_n, max_n))
    ncomp = min(draw(st.sampled_from([1, 1, 2, 2, 3, 4])), n // 3)
    cuts = sorted(draw(st.lists(st.integers(2, n - 2), min_size=ncomp - 1, max_size=ncomp - 1, unique=True))) if ncomp > 1 else []
    bounds = [0] + cuts + [n]
    sizes = [bounds[i + 1] - bounds[i] for i in range(ncomp)]
    label = list(draw(st.permutations(list(range(n))))) if draw(st.booleans()) else list(range(n))
    nfloat_max = min(3, ncomp)
    floating = set(draw(st.permutations(list(range(ncomp))))[:draw(st.integers(1 if singular_only else 0, nfloat_max))])
    rows = []
    comp_nodes = []
    zero_col = False
    d = 0
    for c in range(ncomp):
        nodes = [label[i] for i in range(bounds[c], bounds[c + 1])]
        comp_nodes.append(nodes)
        sz = len(nodes)
        if sz == 1 or (sz <= 2 and c in floating and draw(st.integers(0, 3)) == 0):
            # isolated nodes: no row at all (zero columns), each is its own null vector
            if c in floating and d + sz <= 3:
                zero_col = True
                d += sz
                continue
            floating.discard(c)
        topo = draw(st.sampled_from(["path", "window", "star", "random"]))
        for k in range(1, sz):
            if topo == "path":
                p = k - 1
            elif topo == "window":
                p = draw(st.integers(max(0, k - 3), k - 1))
            elif topo == "star":
                p = 0
            else:
                p = draw(st.integers(0, k - 1))
            w = draw(st.sampled_from([1.0, 1.0, 2.0, 4.0, 0.5]))
            rows.append({nodes[p]: -w, nodes[k]: w})
        for _ in range(draw(st.integers(0, min(sz, 12)))):
            i = draw(st.integers(0, sz - 1))
            j = draw(st.integers(0, sz - 1))
            if i == j:
                continue
            if sz >= 3 and draw(st.integers(0, 3)) == 0:
                k = draw(st.integers(0, sz - 1))
                if k != i and k != j:
                    rows.append({nodes[i]: 1.0, nodes[j]: -2.0, nodes[k]: 1.0})
                    continue
            w = draw(st.sampled_from([1.0, 2.0, 0.5]))
            rows.append({nodes[i]: -w, nodes[j]: w})
        if c in floating and d < 3:
            d += 1
        else:
            floating.discard(c)
            for _ in range(draw(st.integers(1, 3))):
                rows.append({nodes[draw(st.integers(0, sz - 1))]: float(draw(st.integers(1, 3)))})
    if not rows:
        rows.append({label[0]: 1.0})
        # (cannot happen for n >= 10: at most three isolated nodes are admitted)
    order = draw(st.permutations(list(range(len(rows)))))
    m = len(rows)
    A = np.zeros((m, n))
    for r, k in enumerate(order):
        for j, v in rows[k].items():
            A[r, j] = v
    b = [float(draw(st.integers(-20, 20))) for _ in range(m)]
    b, offset = _offset(draw, A, b)
    A, b, pow2 = _scale(draw, A, b, big_scale)
    blocks = []
    left = m
    while left > 0:
        dim = draw(st.integers(1, min(10, left)))
        blocks.append(draw(cov_block(dim, True)))
        left -= dim
    mode = minx_mode or draw(st.sampled_from(["none", "all", "subset", "subset", "hit"]))
    minx = None
    float_nodes = [comp_nodes[c] for c in sorted(floating)]
    if mode == "nonres" and float_nodes:
        # a subset that misses one floating component entirely cannot fix its null vector (exactly)
        miss = draw(st.integers(0, len(float_nodes) - 1))
        cand = [i for i in range(n) if i not in float_nodes[miss]]
        k = draw(st.integers(0, len(cand)))
        minx = sorted(i + 1 for i in draw(st.permutations(cand))[:k])
    if mode == "all":
        minx = list(range(1, n + 1))
    elif mode in ("subset", "hit"):
        sel = set()
        for nodes in float_nodes:                         # at least one node of every floating component
            k = draw(st.integers(1, len(nodes))) if mode == "subset" else 1
            sel |= set(draw(st.permutations(nodes))[:k])
        if mode == "subset":
            others = [i for i in range(n) if i not in sel]
            sel |= set(draw(st.permutations(others))[:draw(st.integers(0, len(others)))])
        if not sel:
            sel = {draw(st.integers(0, n - 1))}
        minx = sorted(i + 1 for i in sel)
        if draw(st.booleans()):
            minx = list(draw(st.permutations(minx)))
    return {"m": int(m), "n": int(n), "A": A.tolist(), "b": b, "blocks": blocks,
            "minx": minx, "d": int(d), "zero_col": zero_col, "mode": mode, "graph": True, "offset": offset, "pow2": pow2}
