"""Truth model of a local network, observation functions written from the documentation
(doc/gama-local-input.texi, gama-local-adj.texi) and a GKF writer independent of gama.

Physical frame: E (east), N (north), H (up).  A network description ('net', JSON-serialisable):

 net = {
  "axes": "ne", "angles": "left-handed"|"right-handed", "deg": False,
  "params": {"sigma-apr": 10, ...}, "description": "...",
  "points": [ {"id","E","N","H", "xy": "fix"|"adj"|"constr"|None, "z": same,
               "give_xy": bool, "give_z": bool, "dE","dN","dH": perturbation of the given approximate values} ],
  "clusters": [
     {"k":"obs","from":id,"from_dh":None|float,"orient":gon,"obs":[
         {"t":"direction","to":id,"sd":cc,"e":cc},
         {"t":"distance","to":id,"sd":mm,"e":mm, "from":optional id},
         {"t":"angle","bs":id,"fs":id,"sd":cc,"e":cc},
         {"t":"s-distance","to":id,"sd":mm,"e":mm,"from_dh":..,"to_dh":..},
         {"t":"z-angle","to":id,"sd":cc,"e":cc,"from_dh":..,"to_dh":..},
         {"t":"azimuth","to":id,"sd":cc,"e":cc}], "cov": None|{"band":w,"C":[[...]] (cc^2 / mm^2)} },
     {"k":"hdiff","obs":[{"from","to","sd":mm|None,"dist":km|None,"e":mm}],"cov":...},
     {"k":"coords","obs":[{"id","dims":"xy"|"z"|"xyz","e":[mm,...]}],"cov":{...}},   # cov mandatory
     {"k":"vectors","obs":[{"from","to","e":[mm,mm,mm]}],"cov":{...}} ] }

Errors "e" are in the unit of the standard deviation (cc or mm) and are part of the survey content:
re-expressing the network (C07) keeps them.
"""
import math

import numpy as np

G2R = math.pi / 200.0
R2G = 200.0 / math.pi
CC2R = math.pi / 200e4
DIRS = {"n": (0.0, 1.0), "s": (0.0, -1.0), "e": (1.0, 0.0), "w": (-1.0, 0.0)}
AXES = ["ne", "sw", "es", "wn", "en", "nw", "se", "ws"]
LEFT_AXES = {"ne", "sw", "es", "wn"}
ANGULAR = {"direction", "angle", "z-angle", "azimuth"}


def axes_vectors(axes):
    return np.array(DIRS[axes[0]]), np.array(DIRS[axes[1]])


def to_input(net, E, N):
    ux, uy = axes_vectors(net["axes"])
    return float(E * ux[0] + N * ux[1]), float(E * uy[0] + N * uy[1])


def from_input(net, x, y):
    ux, uy = axes_vectors(net["axes"])
    return float(x * ux[0] + y * uy[0]), float(x * ux[1] + y * uy[1])


def angle_sign(net):
    return 1.0 if net["angles"] == "left-handed" else -1.0


def consistent(net):
    return (net["axes"] in LEFT_AXES) == (net["angles"] == "left-handed")


def pmap(net):
    return {p["id"]: p for p in net["points"]}


def bearing_cw(a, b):
    """clockwise-from-north physical bearing a->b in radians [0, 2pi)"""
    t = math.atan2(b["E"] - a["E"], b["N"] - a["N"])
    return t if t >= 0 else t + 2 * math.pi


def norm2pi(a):
    a = math.fmod(a, 2 * math.pi)
    return a + 2 * math.pi if a < 0 else a


def hdist(a, b):
    return math.hypot(b["E"] - a["E"], b["N"] - a["N"])


def obs_truth(net, cl, ob, P=None):
    """Error-free value of one observation: radians for angular types, metres otherwise.
    For coords / vectors returns a list."""
    P = P or pmap(net)
    s = angle_sign(net)
    t = ob.get("t")
    k = cl["k"]
    if k == "obs":
        a = P[ob.get("from", cl["from"])]
        fdh = ob.get("from_dh")
        if fdh is None:
            fdh = cl.get("from_dh") or 0.0
        tdh = ob.get("to_dh") or 0.0
        if t == "direction":
            return norm2pi(s * bearing_cw(a, P[ob["to"]]) - cl["orient"] * G2R)
        if t == "distance":
            return hdist(a, P[ob["to"]])
        if t == "angle":
            return norm2pi(s * (bearing_cw(a, P[ob["fs"]]) - bearing_cw(a, P[ob["bs"]])))
        if t == "azimuth":
            return norm2pi(s * bearing_cw(a, P[ob["to"]]))
        b = P[ob["to"]]
        dh = b["H"] + tdh - a["H"] - fdh
        d = hdist(a, b)
        if t == "s-distance":
            return math.hypot(d, dh)
        if t == "z-angle":
            z = math.atan2(d, dh)
            return 2 * math.pi - z if ob.get("face2") else z
        raise ValueError(t)
    if k == "hdiff":
        return P[ob["to"]]["H"] - P[ob["from"]]["H"]
    if k == "coords":
        p = P[ob["id"]]
        x, y = to_input(net, p["E"], p["N"])
        out = []
        if "xy" in ob["dims"]:
            out += [x, y]
        if "z" in ob["dims"]:
            out += [p["H"]]
        return out
    if k == "vectors":
        a, b = P[ob["from"]], P[ob["to"]]
        xa, ya = to_input(net, a["E"], a["N"])
        xb, yb = to_input(net, b["E"], b["N"])
        return [xb - xa, yb - ya, b["H"] - a["H"]]
    raise ValueError(k)


def obs_gradient(net, cl, ob, comp=0, P=None):
    """Partial derivatives of the observation function with respect to the physical
    coordinates: {(point id, 'E'|'N'|'H'): d(obs)/d(coord)}; plus {('orient', station): -1}
    for directions.  Angular observations in radians per metre."""
    P = P or pmap(net)
    s = angle_sign(net)
    k = cl["k"]
    t = ob.get("t")
    g = {}

    def add(pid, c, v):
        g[(pid, c)] = g.get((pid, c), 0.0) + v

    def bearing_grad(aid, bid, f):
        a, b = P[aid], P[bid]
        dE, dN = b["E"] - a["E"], b["N"] - a["N"]
        d2 = dE * dE + dN * dN
        # beta = atan2(dE, dN): d/dE_b = dN/d2, d/dN_b = -dE/d2
        add(bid, "E", f * dN / d2); add(bid, "N", -f * dE / d2)
        add(aid, "E", -f * dN / d2); add(aid, "N", f * dE / d2)

    if k == "obs":
        aid = ob.get("from", cl["from"])
        a = P[aid]
        if t == "direction":
            bearing_grad(aid, ob["to"], s)
            g[("orient", aid)] = -1.0
            return g
        if t == "azimuth":
            bearing_grad(aid, ob["to"], s)
            return g
        if t == "angle":
            bearing_grad(aid, ob["fs"], s)
            bearing_grad(aid, ob["bs"], -s)
            return g
        bid = ob["to"]
        b = P[bid]
        dE, dN = b["E"] - a["E"], b["N"] - a["N"]
        d = math.hypot(dE, dN)
        if t == "distance":
            add(bid, "E", dE / d); add(bid, "N", dN / d)
            add(aid, "E", -dE / d); add(aid, "N", -dN / d)
            return g
        fdh = ob.get("from_dh")
        if fdh is None:
            fdh = cl.get("from_dh") or 0.0
        tdh = ob.get("to_dh") or 0.0
        dh = b["H"] + tdh - a["H"] - fdh
        sd = math.hypot(d, dh)
        if t == "s-distance":
            for pid, f in ((bid, 1.0), (aid, -1.0)):
                add(pid, "E", f * dE / sd); add(pid, "N", f * dN / sd); add(pid, "H", f * dh / sd)
            return g
        if t == "z-angle":
            # z = atan2(d, dh): dz/dd = dh/sd^2, dz/ddh = -d/sd^2 (second face: 400 gon - z)
            fz = -1.0 if ob.get("face2") else 1.0
            for pid, f in ((bid, fz), (aid, -fz)):
                add(pid, "E", f * dh / (sd * sd) * dE / d)
                add(pid, "N", f * dh / (sd * sd) * dN / d)
                add(pid, "H", -f * d / (sd * sd))
            return g
    if k == "hdiff":
        add(ob["to"], "H", 1.0); add(ob["from"], "H", -1.0)
        return g
    ux, uy = axes_vectors(net["axes"])
    if k == "coords":
        comps = []
        if "xy" in ob["dims"]:
            comps += ["x", "y"]
        if "z" in ob["dims"]:
            comps += ["z"]
        c = comps[comp]
        if c == "x":
            add(ob["id"], "E", ux[0]); add(ob["id"], "N", ux[1])
        elif c == "y":
            add(ob["id"], "E", uy[0]); add(ob["id"], "N", uy[1])
        else:
            add(ob["id"], "H", 1.0)
        return g
    if k == "vectors":
        for pid, f in ((ob["to"], 1.0), (ob["from"], -1.0)):
            if comp == 0:
                add(pid, "E", f * ux[0]); add(pid, "N", f * ux[1])
            elif comp == 1:
                add(pid, "E", f * uy[0]); add(pid, "N", f * uy[1])
            else:
                add(pid, "H", f)
        return g
    raise ValueError((k, t))


# ---------------------------------------------------------------- GKF writer

def xml_escape(s, attr=True):
    s = s.replace("&", "&amp;").replace("<", "&lt;").replace(">", "&gt;")
    if attr:
        s = s.replace('"', "&quot;")
    return s


def fnum(v):
    r = repr(float(v))
    return r


def gon_str(rad, net, prec=None):
    """angular value as the input file states it"""
    g = rad * R2G
    if not net.get("deg"):
        return fnum(g)
    return deg_str(g * 0.9)


def deg_str(deg):
    """d-m-s with 10 decimals of seconds"""
    sign = "-" if deg < 0 else ""
    deg = abs(deg)
    total = round(deg * 3600.0, 9)
    d = int(total // 3600)
    rem = total - d * 3600
    m = int(rem // 60)
    s = rem - m * 60
    if s >= 60.0:
        s -= 60.0; m += 1
    if m >= 60:
        m -= 60; d += 1
    return "%s%d-%02d-%s" % (sign, d, m, ("%.9f" % s))


def ang_sd(sd_cc, net):
    """standard deviation of an angular observation as written in the file"""
    return fnum(sd_cc * 0.324) if net.get("deg") else fnum(sd_cc)


def cov_text(cov, scale=None):
    """<cov-mat> element from {"band": w, "C": full matrix}"""
    C = np.array(cov["C"], float)
    dim = C.shape[0]
    w = cov["band"]
    rows = []
    for i in range(dim):
        rows.append(" ".join(fnum(C[i, j]) for j in range(i, min(dim, i + w + 1))))
    return '<cov-mat dim="%d" band="%d">\n%s\n</cov-mat>\n' % (dim, w, "\n".join(rows))


def observed_values(net):
    """List per cluster of lists of observed values (truth + error) in rad / m."""
    P = pmap(net)
    out = []
    for cl in net["clusters"]:
        vals = []
        for ob in cl["obs"]:
            tr = obs_truth(net, cl, ob, P)
            if isinstance(tr, list):
                e = ob.get("e") or [0.0] * len(tr)
                vals.append([t + ei * 1e-3 for t, ei in zip(tr, e)])
            else:
                e = ob.get("e") or 0.0
                if cl["k"] == "obs" and ob["t"] in ANGULAR:
                    v = tr + e * CC2R
                    if ob["t"] != "z-angle":
                        v = norm2pi(v)
                    vals.append(v)
                else:
                    vals.append(tr + e * 1e-3)
        out.append(vals)
    return out


def gkf_text(net, values=None):
    P = pmap(net)
    values = values or observed_values(net)
    o = ['<?xml version="1.0" ?>\n<gama-local xmlns="http://www.gnu.org/software/gama/gama-local">\n']
    ep = ' epoch="%s"' % net["epoch"] if net.get("epoch") is not None else ""
    o.append('<network axes-xy="%s" angles="%s"%s>\n' % (net["axes"], net["angles"], ep))
    if net.get("description") is not None:
        o.append("<description>%s</description>\n" % xml_escape(net["description"], attr=False))
    if net.get("params"):
        o.append("<parameters %s />\n" % " ".join('%s="%s"' % (k, xml_escape(str(v))) for k, v in net["params"].items()))
    imp = net.get("implicit")
    if imp:
        # implicit standard deviations; angular ones follow the unit rule of explicit ones (arc seconds for d-m-s values)
        at = []
        for t, name in (("direction", "direction-stdev"), ("angle", "angle-stdev"), ("z-angle", "zenith-angle-stdev"), ("azimuth", "azimuth-stdev")):
            if imp.get(t) is not None:
                at.append('%s="%s"' % (name, ang_sd(imp[t], net)))
        if imp.get("dist") is not None:
            at.append('distance-stdev="%s"' % " ".join(fnum(v) for v in imp["dist"]))
        o.append("<points-observations %s>\n" % " ".join(at))
    else:
        o.append("<points-observations>\n")
    for p in net["points"]:
        at = ['id="%s"' % xml_escape(p["id"])]
        if p.get("give_xy"):
            x, y = to_input(net, p["E"] + p.get("dE", 0.0), p["N"] + p.get("dN", 0.0))
            at.append('x="%s" y="%s"' % (fnum(x), fnum(y)))
        if p.get("give_z"):
            at.append('z="%s"' % fnum(p["H"] + p.get("dH", 0.0)))
        fix = ("xy" if p.get("xy") == "fix" else "") + ("z" if p.get("z") == "fix" else "")
        adj = ""
        if p.get("xy") == "adj":
            adj += "xy"
        elif p.get("xy") == "constr":
            adj += "XY"
        if p.get("z") == "adj":
            adj += "z"
        elif p.get("z") == "constr":
            adj += "Z"
        if fix:
            at.append('fix="%s"' % fix)
        if adj:
            at.append('adj="%s"' % adj)
        o.append("<point %s />\n" % " ".join(at))
    for cl, vals in zip(net["clusters"], values):
        k = cl["k"]
        if k == "obs":
            at = ['from="%s"' % xml_escape(cl["from"])] if cl.get("from") is not None else []
            if cl.get("from_dh") is not None:
                at.append('from_dh="%s"' % fnum(cl["from_dh"]))
            o.append("<obs %s>\n" % " ".join(at))
            for ob, v in zip(cl["obs"], vals):
                t = ob["t"]
                a = []
                if ob.get("from") is not None:
                    a.append('from="%s"' % xml_escape(ob["from"]))
                if t == "angle":
                    a.append('bs="%s" fs="%s"' % (xml_escape(ob["bs"]), xml_escape(ob["fs"])))
                else:
                    a.append('to="%s"' % xml_escape(ob["to"]))
                if t in ANGULAR:
                    a.append('val="%s"' % gon_str(v, net))
                    if cl.get("cov") is None and ob.get("sd") is not None and not ob.get("implicit_sd"):
                        a.append('stdev="%s"' % ang_sd(ob["sd"], net))
                else:
                    a.append('val="%s"' % fnum(v))
                    if cl.get("cov") is None and ob.get("sd") is not None and not ob.get("implicit_sd"):
                        a.append('stdev="%s"' % fnum(ob["sd"]))
                for key in ("from_dh", "to_dh", "bs_dh", "fs_dh"):
                    if ob.get(key) is not None:
                        a.append('%s="%s"' % (key, fnum(ob[key])))
                if ob.get("extern") is not None:
                    a.append('extern="%s"' % xml_escape(ob["extern"]))
                o.append("  <%s %s />\n" % (t, " ".join(a)))
            if cl.get("cov") is not None:
                cov = cl["cov"]
                if net.get("deg"):
                    # rows of values written in degrees are expected in arc seconds (1 cc = 0.324")
                    C = np.array(cov["C"], float)
                    f = np.array([0.324 if ob["t"] in ANGULAR else 1.0 for ob in cl["obs"]])
                    cov = {"band": cov["band"], "C": (C * np.outer(f, f)).tolist()}
                o.append(cov_text(cov))
            o.append("</obs>\n")
        elif k == "hdiff":
            o.append("<height-differences>\n")
            for ob, v in zip(cl["obs"], vals):
                a = ['from="%s" to="%s" val="%s"' % (xml_escape(ob["from"]), xml_escape(ob["to"]), fnum(v))]
                if cl.get("cov") is None and ob.get("sd") is not None:
                    a.append('stdev="%s"' % fnum(ob["sd"]))
                if ob.get("dist") is not None:
                    a.append('dist="%s"' % fnum(ob["dist"]))
                if ob.get("extern") is not None:
                    a.append('extern="%s"' % xml_escape(ob["extern"]))
                o.append("  <dh %s />\n" % " ".join(a))
            if cl.get("cov") is not None:
                o.append(cov_text(cl["cov"]))
            o.append("</height-differences>\n")
        elif k == "coords":
            o.append("<coordinates>\n")
            for ob, v in zip(cl["obs"], vals):
                a = ['id="%s"' % xml_escape(ob["id"])]
                i = 0
                if "xy" in ob["dims"]:
                    a.append('x="%s" y="%s"' % (fnum(v[0]), fnum(v[1])))
                    i = 2
                if "z" in ob["dims"]:
                    a.append('z="%s"' % fnum(v[i]))
                o.append("  <point %s />\n" % " ".join(a))
            o.append(cov_text(cl["cov"]))
            o.append("</coordinates>\n")
        elif k == "vectors":
            o.append("<vectors>\n")
            for ob, v in zip(cl["obs"], vals):
                o.append('  <vec from="%s" to="%s" dx="%s" dy="%s" dz="%s" />\n' %
                         (xml_escape(ob["from"]), xml_escape(ob["to"]), fnum(v[0]), fnum(v[1]), fnum(v[2])))
            o.append(cov_text(cl["cov"]))
            o.append("</vectors>\n")
    o.append("</points-observations>\n</network>\n</gama-local>\n")
    return "".join(o)


def flat_observations(net):
    """[(cluster index, obs index, component index, type string)] in file order"""
    out = []
    for ci, cl in enumerate(net["clusters"]):
        for oi, ob in enumerate(cl["obs"]):
            k = cl["k"]
            if k == "obs":
                out.append((ci, oi, 0, ob["t"]))
            elif k == "hdiff":
                out.append((ci, oi, 0, "dh"))
            elif k == "coords":
                j = 0
                if "xy" in ob["dims"]:
                    out.append((ci, oi, 0, "x")); out.append((ci, oi, 1, "y")); j = 2
                if "z" in ob["dims"]:
                    out.append((ci, oi, j, "z"))
            elif k == "vectors":
                out.append((ci, oi, 0, "dx")); out.append((ci, oi, 1, "dy")); out.append((ci, oi, 2, "dz"))
    return out
