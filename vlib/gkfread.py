"""Reader of gama-local input files (GKF), independent of gama (Python expat)."""
import re

from . import adjxml

OBS_TAGS = {"direction", "distance", "angle", "s-distance", "z-angle", "azimuth"}
_DMS = re.compile(r"^\s*([+-]?)(\d+)-(\d+)-(\d+(?:\.\d*)?)\s*$")


def angle_gon(text):
    """value of an angular attribute in gons (input may be d-m-s)"""
    m = _DMS.match(text)
    if m:
        deg = int(m.group(2)) + int(m.group(3)) / 60.0 + float(m.group(4)) / 3600.0
        if m.group(1) == "-":
            deg = -deg
        return deg / 0.9, True
    return float(text), False


def parse(text):
    root = adjxml.parse_tree(text)
    top = root.find("gama-local") or root.find("gama-xml")
    if top is None:
        raise adjxml.NotWellFormed("no gama-local element")
    net = top.find("network")
    R = {"axes": net.attrs.get("axes-xy", "ne"), "angles": net.attrs.get("angles", "left-handed"),
         "epoch": net.attrs.get("epoch"), "description": None, "params": {}, "points": [], "clusters": [],
         "po_attrs": {}}
    for ch in net.children:
        if ch.tag == "description":
            R["description"] = (R["description"] or "") + ch.text
        elif ch.tag == "parameters":
            R["params"].update(ch.attrs)
        elif ch.tag == "points-observations":
            R["po_attrs"].update(ch.attrs)
            for e in ch.children:
                if e.tag == "point":
                    R["points"].append(dict(e.attrs))
                elif e.tag == "obs":
                    cl = {"k": "obs", "attrs": dict(e.attrs), "obs": [], "cov": None}
                    for o in e.children:
                        if o.tag in OBS_TAGS:
                            cl["obs"].append({"tag": o.tag, **o.attrs})
                        elif o.tag == "cov-mat":
                            cl["cov"] = cov(o)
                    R["clusters"].append(cl)
                elif e.tag == "height-differences":
                    cl = {"k": "hdiff", "attrs": dict(e.attrs), "obs": [], "cov": None}
                    for o in e.children:
                        if o.tag == "dh":
                            cl["obs"].append({"tag": "dh", **o.attrs})
                        elif o.tag == "cov-mat":
                            cl["cov"] = cov(o)
                    R["clusters"].append(cl)
                elif e.tag == "coordinates":
                    cl = {"k": "coords", "attrs": dict(e.attrs), "obs": [], "cov": None}
                    for o in e.children:
                        if o.tag == "point":
                            cl["obs"].append({"tag": "point", **o.attrs})
                        elif o.tag == "cov-mat":
                            cl["cov"] = cov(o)
                    R["clusters"].append(cl)
                elif e.tag == "vectors":
                    cl = {"k": "vectors", "attrs": dict(e.attrs), "obs": [], "cov": None}
                    for o in e.children:
                        if o.tag == "vec":
                            cl["obs"].append({"tag": "vec", **o.attrs})
                        elif o.tag == "cov-mat":
                            cl["cov"] = cov(o)
                    R["clusters"].append(cl)
    return R


def cov(node):
    return {"dim": int(node.attrs["dim"]), "band": int(node.attrs["band"]),
            "values": [float(t) for t in node.text.split()]}


def cov_full(c):
    import numpy as np
    M = np.zeros((c["dim"], c["dim"]))
    k = 0
    for i in range(c["dim"]):
        for j in range(i, min(c["dim"], i + c["band"] + 1)):
            M[i, j] = M[j, i] = c["values"][k]
            k += 1
    return M
