"""Tiered runner: Hypothesis parts in worker processes, custom parts, evidence,
replay files, known findings, VIOLATION lines."""
import collections
import hashlib
import importlib
import json
import multiprocessing
import os
import sys
import time
import traceback

VERIF = os.path.dirname(os.path.dirname(os.path.abspath(__file__)))
NCPU = int(os.environ.get("VERIF_JOBS", os.cpu_count() or 8))


def jdump(o):
    return json.dumps(o, sort_keys=True, default=_np_default)


def _np_default(o):
    try:
        import numpy as np
        if isinstance(o, np.ndarray):
            return o.tolist()
        if isinstance(o, (np.floating,)):
            return float(o)
        if isinstance(o, (np.integer,)):
            return int(o)
    except ImportError:
        pass
    raise TypeError(type(o))


def digest(case):
    return hashlib.sha1(jdump(case).encode()).hexdigest()[:16]


class Stats:
    """Per-worker accumulation."""

    def __init__(self):
        self.evals = 0
        self.digests = set()
        self.labels = collections.Counter()
        self.samples = []
        self.excluded = collections.Counter()
        self.worst = {}          # name -> max ratio error/tolerance
        self.fail = None         # (case, msg)
        self.distinct_extra = 0  # cases distinct by construction (enumerations), not digested one by one

    def label(self, *names):
        for n in names:
            self.labels[n] += 1

    def ratio(self, name, value):
        if value == value and value > self.worst.get(name, -1.0):
            self.worst[name] = float(value)

    def record(self, case, nontrivial, sample=None):
        self.evals += 1
        if nontrivial:
            d = digest(case)
            if d not in self.digests:
                self.digests.add(d)
                if len(self.samples) < 3:
                    self.samples.append(sample if sample is not None else case)

    def merge(self, o):
        self.evals += o.evals
        self.distinct_extra += getattr(o, "distinct_extra", 0)
        self.digests |= o.digests
        self.labels.update(o.labels)
        for s in o.samples:
            if len(self.samples) < 6:
                self.samples.append(s)
        self.excluded.update(o.excluded)
        for k, v in o.worst.items():
            self.ratio(k, v)
        if self.fail is None and o.fail is not None:
            self.fail = o.fail


class Part:
    """One generated-check of a property.
      name      label
      strategy  () -> hypothesis strategy producing JSON-serialisable cases
      oracle    (case, stats) -> list of failure strings "tag: text" (empty = pass)
      nontrivial(case) -> bool
      n         {"quick": N, "thorough": N} number of cases
      custom    optional (tier, seed, stats, known) -> None  instead of strategy/oracle
      replay    optional (case, stats) -> list of failures; default oracle
    """

    def __init__(self, name, strategy=None, oracle=None, nontrivial=None, n=None,
                 custom=None, workers=None, sample=None):
        self.name = name
        self.strategy = strategy
        self.oracle = oracle
        self.nontrivial = nontrivial or (lambda c: True)
        self.n = n or {"quick": 100, "thorough": 1000}
        self.custom = custom
        self.workers = workers
        self.sample = sample


def load_known(prop_id):
    p = os.path.join(VERIF, "known_findings.json")
    if not os.path.exists(p):
        return []
    with open(p) as f:
        return [e for e in json.load(f)["findings"] if e["property"] == prop_id]


def entry_tags(e):
    """failure tags excluded by a known finding: "tag" or a list "tags" (one root cause, several symptoms)"""
    return ([e["tag"]] if e.get("tag") else []) + list(e.get("tags") or [])


def split_known(fails, known_tags, stats):
    """Remove failures whose tag is a recorded known finding (counted)."""
    rest = []
    for f in fails or []:
        tag = f.split(":", 1)[0]
        if tag in known_tags:
            stats.excluded[tag] += 1
        else:
            rest.append(f)
    return rest


class _Fail(Exception):
    pass


def call_oracle(part, case, stats):
    """The oracle of a part; an exception inside it (e.g. my readers choking on an output they were never given by the
    unchanged program) is a failure of the case, shrunk and reported like any other - not a silent 'inconclusive'."""
    try:
        return part.oracle(case, stats)
    except Exception as e:
        tb = traceback.extract_tb(e.__traceback__)
        where = "%s:%d" % (os.path.basename(tb[-1].filename), tb[-1].lineno) if tb else "?"
        return ["oracle.exception: %s: %s (%s)" % (type(e).__name__, str(e)[:300], where)]


def _hyp_worker(args):
    modname, partname, seed, n, known_tags = args
    from hypothesis import given, settings, seed as hseed, HealthCheck, Phase
    mod = importlib.import_module(modname)
    part = [p for p in mod.PARTS if p.name == partname][0]
    stats = Stats()
    last = {}

    def body(case):
        fails = call_oracle(part, case, stats)
        fails = split_known(fails, known_tags, stats)
        stats.record(case, part.nontrivial(case),
                     part.sample(case) if part.sample else None)
        if fails:
            last["case"] = case
            last["msg"] = fails
            raise _Fail("; ".join(fails)[:500])

    test = given(part.strategy())(body)
    test = hseed(seed)(test)
    test = settings(max_examples=n, database=None, deadline=None, derandomize=False,
                    report_multiple_bugs=False,
                    suppress_health_check=list(HealthCheck),
                    phases=[Phase.generate, Phase.shrink])(test)
    try:
        test()
    except _Fail:
        stats.fail = (last["case"], last["msg"])
    except Exception as e:            # harness error, not a verdict
        return ("error", "%s\n%s" % (e, traceback.format_exc()))
    return ("ok", stats)


def _custom_worker(args):
    modname, partname, tier, seed, known_tags = args
    mod = importlib.import_module(modname)
    part = [p for p in mod.PARTS if p.name == partname][0]
    stats = Stats()
    try:
        part.custom(tier, seed, stats, known_tags)
    except Exception as e:
        return ("error", "%s\n%s" % (e, traceback.format_exc()))
    return ("ok", stats)


def save_replay(prop_id, part, case, msg):
    d = os.path.join(VERIF, "replays", prop_id)
    os.makedirs(d, exist_ok=True)
    body = {"property": prop_id, "part": part, "case": case, "msg": msg}
    path = os.path.join(d, digest([part, case]) + ".json")
    with open(path, "w") as f:
        f.write(json.dumps(body, indent=1, sort_keys=True, default=_np_default))
    return path


def replay_file(mod, path, known_tags, stats=None):
    """Re-run one saved case through the oracle, outside Hypothesis.
    Returns list of failures not covered by known findings."""
    with open(path) as f:
        body = json.load(f)
    part = [p for p in mod.PARTS if p.name == body["part"]][0]
    st = stats or Stats()
    if part.oracle is None:
        fn = getattr(mod, "replay_" + part.name)
        fails = fn(body["case"], st)
    else:
        fails = call_oracle(part, body["case"], st)
    return split_known(fails, known_tags, st)


def main(prop_id, tier, replay=None, only=None):
    from . import build
    t0 = time.time()
    seed = int(os.environ.get("VERIF_SEED", "1") or 1)
    modname = "vlib.props." + prop_id.lower()
    build.ensure()
    mod = importlib.import_module(modname)
    known = load_known(prop_id)
    known_tags = set(t for e in known if e.get("status") == "known" for t in entry_tags(e))
    # development aid (collecting distinct failures on a broken tree): never set by the registered commands
    known_tags |= set(t for t in os.environ.get("VERIF_DEV_EXCLUDE_TAGS", "").split(",") if t)

    if replay:
        fails = replay_file(mod, replay, known_tags)
        if fails:
            print("VIOLATION property=%s replay=%s" % (prop_id, replay))
            for f in fails:
                print("  " + f[:1000])
            return 1
        print("replay passes: %s" % replay)
        return 0

    total = Stats()
    violations = []         # (path, msgs)
    inconclusive = []
    per_part = {}

    # 1. committed regression cases (fixed findings, earlier shrunk failures)
    rdir = os.path.join(VERIF, "regress", prop_id)
    nreg = 0
    if os.path.isdir(rdir):
        for fn in sorted(os.listdir(rdir)):
            if not fn.endswith(".json"):
                continue
            path = os.path.join(rdir, fn)
            st = Stats()
            try:
                fails = replay_file(mod, path, known_tags, st)
            except Exception as e:
                inconclusive.append("regress %s: %s" % (fn, e))
                continue
            nreg += 1
            total.excluded.update(st.excluded)
            if fails:
                violations.append((path, fails))
    total.labels["regression_replays"] = nreg

    # 2. generated parts
    pool = multiprocessing.get_context("fork").Pool(NCPU)
    try:
        for part in mod.PARTS:
            if only and part.name not in only:
                continue
            n = part.n[tier]
            if n <= 0:
                continue
            pst = Stats()
            if part.custom:
                w = part.workers or 1
                jobs = [(modname, part.name, tier, seed * 1000 + k, known_tags) for k in range(w)]
                results = pool.map(_custom_worker, jobs) if w > 1 else [_custom_worker(jobs[0])]
            else:
                w = part.workers or NCPU
                w = max(1, min(w, n // 5 or 1))
                per = (n + w - 1) // w
                jobs = [(modname, part.name, seed * 1000 + k, per, known_tags) for k in range(w)]
                results = pool.map(_hyp_worker, jobs, chunksize=1)
            for status, st in results:
                if status == "error":
                    inconclusive.append("%s: %s" % (part.name, st[-1500:]))
                    continue
                if st.fail is not None:
                    case, msg = st.fail
                    path = save_replay(prop_id, part.name, case, msg)
                    # confirm outside Hypothesis, three fresh executions
                    nfail = 0
                    if part.oracle is not None:
                        for _ in range(3):
                            try:
                                if replay_file(mod, path, known_tags):
                                    nfail += 1
                            except Exception:
                                pass
                    else:
                        nfail = 3
                    if nfail:
                        if path not in [v[0] for v in violations]:
                            violations.append((path, msg))
                    else:
                        inconclusive.append("FLAKY %s: %s (replay %s passes 3x)" % (part.name, msg, path))
                    st.fail = None
                pst.merge(st)
            per_part[part.name] = {"evaluations": pst.evals, "distinct_nontrivial": len(pst.digests) + pst.distinct_extra}
            total.merge(pst)
    finally:
        pool.terminate()

    # 3. evidence
    wall = time.time() - t0
    cov = {
        "evaluations": total.evals,
        "distinct_nontrivial": len(total.digests) + total.distinct_extra,
        "rule": getattr(mod, "RULE", ""),
        "samples": total.samples[:6],
        "classes": dict(sorted(total.labels.items())),
        "parts": per_part,
        "worst_error_over_tolerance": total.worst,
        "excluded_by_known_finding": dict(total.excluded),
        "inconclusive": inconclusive[:10],
    }
    if getattr(mod, "EXHAUSTIVE", False):
        cov["exhaustive"] = True
    ev = {
        "property_id": prop_id, "tier": tier, "seed": seed,
        "level": getattr(mod, "LEVEL", "exploration"),
        "coverage": cov,
        "assumptions": getattr(mod, "ASSUMPTIONS", []),
        "wall_s": round(wall, 2),
        "violations": len(violations),
    }
    os.makedirs(os.path.join(VERIF, "evidence"), exist_ok=True)
    # partial runs (--only) never overwrite the evidence of a complete run
    ev_name = prop_id + (".partial.json" if only else ".json")
    if os.environ.get("VERIF_REPO", "/repo") != "/repo":
        ev_name = prop_id + ".scratch.json"        # a run against a scratch tree (seeded change) is not evidence about /repo
    with open(os.path.join(VERIF, "evidence", ev_name), "w") as f:
        f.write(json.dumps(ev, indent=1, default=_np_default))

    for e in known:
        if e.get("status") == "known":
            still = True
            if e.get("regress") and not only:
                try:
                    fl = replay_file(mod, os.path.join(VERIF, e["regress"]), set())
                    still = any(f.split(":", 1)[0] in entry_tags(e) for f in fl)
                except Exception:
                    still = True
            print("%s: property=%s %s [%s; %d matching cases excluded in this run]"
                  % ("KNOWN-FINDING" if still else "KNOWN-FINDING-GONE", prop_id, e["what"], ",".join(entry_tags(e))[:120],
                     sum(total.excluded.get(t, 0) for t in entry_tags(e))))
    print("%s %s seed=%d: %d cases, %d distinct non-trivial, %.1fs" %
          (prop_id, tier, seed, total.evals, len(total.digests) + total.distinct_extra, wall))
    for k, v in sorted(total.worst.items()):
        print("  worst error/tolerance %-28s %.3g" % (k, v))
    for msg in inconclusive:
        print("INCONCLUSIVE " + msg[:2000])
    if violations:
        for path, msgs in violations:
            print("VIOLATION property=%s replay=%s" % (prop_id, path))
            for m in (msgs if isinstance(msgs, list) else [msgs]):
                print("  " + str(m)[:800])
        return 1
    strict = os.environ.get("VERIF_STRICT") == "1"
    req = getattr(mod, "REQUIRED_CLASSES", []) if not only else []
    starved = [c for c in req if total.labels.get(c, 0) == 0]
    if starved:
        # a starved class or a harness error is not a verdict about the code: reported, exit 0
        # (exit 2 with VERIF_STRICT=1, used while developing the generators)
        print("GENERATOR-STARVED classes with zero cases: %s" % starved)
        return 2 if strict else 0
    if inconclusive:
        return 2 if strict else 0
    return 0
