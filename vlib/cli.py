import sys
from . import runner


def main(argv):
    if len(argv) < 2:
        print("usage: check <ID> quick|thorough [--replay FILE] [--only a,b]")
        return 2
    prop = argv[0].upper()
    tier = argv[1]
    replay = None
    only = None
    i = 2
    if tier == "--replay":
        tier, i = "quick", 1
    while i < len(argv):
        if argv[i] == "--replay":
            replay = argv[i + 1]; i += 2
        elif argv[i] == "--only":
            only = argv[i + 1].split(","); i += 2
        else:
            i += 1
    rc = runner.main(prop, tier, replay=replay, only=only)
    return rc


if __name__ == "__main__":
    sys.exit(main(sys.argv[1:]))
