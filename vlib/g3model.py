"""C19 reference model of a gama-g3 network: own geodesy (numpy), observation
functions, numerical Jacobian, covariance assembly, XML writer.

Nothing here is taken from gama's code paths: the ellipsoid formulas are the
textbook closed forms, the Jacobian is a Richardson-extrapolated central
difference of the observation functions.  What *is* taken from the code (there
is no user documentation of gama-g3) are conventions only:
  * unknowns are corrections dn, de, du [mm] in the local frame of the GIVEN
    (approximate) position, X = X0 + R(B0,L0) (dn,de,du);
  * linear quantities mm, angular quantities cc (1 gon = 1e4 cc) in the
    project equations, covariances given in mm^2 / cc^2;
  * instrument / target heights of vectors and distances are applied along the
    ellipsoidal normal, those of zenith angles and angles along the vertical
    (normal at B+db, L+dl);
  * observed height = ellipsoidal height - geoid undulation of the point.
"""
import math
import os

import numpy as np

# sensitivity switch (development only, never set by the registered commands): a deliberate fault in the HARNESS,
# to confirm that the oracles notice it.  east_sign | cov_row_swap | truth_shift | minx_free | obs_bias
MUTATE = os.environ.get("VERIF_C19_MUTATE", "")

RHO_CC = 200.0e4 / math.pi          # cc per radian
ARCSEC = math.pi / 180.0 / 3600.0

# a, and b or 1/f : independent knowledge of the named ellipsoids
ELLIPSOIDS = {
    "wgs84": (6378137.0, None, 298.257223563),
    "grs80": (6378137.0, None, 298.257222101),
    "krassovski": (6378245.0, None, 298.3),
    "hayford": (6378388.0, None, 297.0),
    "bessel": (6377397.15508, 6356078.96290, None),
}


def ellipsoid_ab(ell):
    """ell: case["ell"] -> (a, b)"""
    k = ell.get("kind", "default")
    if k == "default":
        a, b, f1 = ELLIPSOIDS["wgs84"]
    elif k == "id":
        a, b, f1 = ELLIPSOIDS[ell["id"]]
    elif k == "ab":
        a, b, f1 = ell["a"], ell["b"], None
    else:
        a, b, f1 = ell["a"], None, ell["invf"]
    if b is None:
        b = a * (1.0 - 1.0 / f1)
    return float(a), float(b)


def blh2xyz(ab, B, L, H):
    a, b = ab
    e2 = (a * a - b * b) / (a * a)
    sB, cB = math.sin(B), math.cos(B)
    N = a / math.sqrt(1.0 - e2 * sB * sB)
    return np.array([(N + H) * cB * math.cos(L), (N + H) * cB * math.sin(L), (N * (1.0 - e2) + H) * sB])


def xyz2blh(ab, P):
    """fixed-point iteration on the latitude; H from a formula stable at the poles"""
    a, b = ab
    e2 = (a * a - b * b) / (a * a)
    X, Y, Z = float(P[0]), float(P[1]), float(P[2])
    p = math.hypot(X, Y)
    L = math.atan2(Y, X)
    B = math.atan2(Z, p * (1.0 - e2))
    for _ in range(30):
        sB = math.sin(B)
        N = a / math.sqrt(1.0 - e2 * sB * sB)
        Bn = math.atan2(Z + e2 * N * sB, p)
        if abs(Bn - B) < 1e-16:
            B = Bn
            break
        B = Bn
    sB, cB = math.sin(B), math.cos(B)
    H = p * cB + Z * sB - a * math.sqrt(1.0 - e2 * sB * sB)
    return B, L, H


def frame(B, L):
    """3x3, columns = unit vectors north, east, up at (B, L) in XYZ"""
    sB, cB, sL, cL = math.sin(B), math.cos(B), math.sin(L), math.cos(L)
    R = np.array([[-sB * cL, -sL, cB * cL],
                  [-sB * sL, cL, cB * sL],
                  [cB, 0.0, sB]])
    if MUTATE == "east_sign":
        R[:, 1] = -R[:, 1]
    return R


def up(B, L):
    return np.array([math.cos(B) * math.cos(L), math.cos(B) * math.sin(L), math.sin(B)])


def units_to_rad(u):
    """u: integer number of 1e-5 arc seconds"""
    return u * 1e-5 * ARCSEC


def dms_text(u):
    """exact decimal d-m-s text of an integer number of 1e-5 arc seconds"""
    neg = u < 0
    u = abs(int(u))
    frac = u % 100000
    s = u // 100000
    d, m, s = s // 3600, (s // 60) % 60, s % 60
    return "%s%d-%02d-%02d.%05d" % ("-" if neg else "", d, m, s, frac)


def gon_dms_text(gon, dec=10):
    """d-m-s text of an angle given in gon (positive), seconds with `dec` decimals; returns (text, value_in_gon_of_text)"""
    deg = gon * 0.9
    d = int(math.floor(deg))
    rem = (deg - d) * 60.0
    m = int(math.floor(rem))
    s = (rem - m) * 60.0
    st = "%.*f" % (dec, s)
    if float(st) >= 60.0:
        st = "%.*f" % (dec, 0.0)
        m += 1
        if m == 60:
            m, d = 0, d + 1
    val = (d / 360.0 + m / 21600.0 + float(st) / 1296000.0) * 400.0
    return "%d-%02d-%s" % (d, m, st), val


# ---------------------------------------------------------------------------------------------
#  network state
# ---------------------------------------------------------------------------------------------

class Net:
    """Numeric view of a case: truth and given positions, local frames, parameters."""

    def __init__(self, case):
        self.case = case
        self.ab = ellipsoid_ab(case["ell"])
        self.pts = case["pts"]
        self.n = len(self.pts)
        self.truth = []
        self.given = []          # None when no coordinates are given
        self.defl = []           # (db, dl) rad
        self.geoid = []
        for p in self.pts:
            B, L, H = units_to_rad(p["b"]), units_to_rad(p["l"]), p["h"] * 1e-3
            self.truth.append(blh2xyz(self.ab, B, L, H))
            d = p.get("d") or [0, 0, 0]
            if p["given"] == "none":
                self.given.append(None)
            elif p["given"] == "blh":
                # perturbation in the units of the text: 1e-5", 1e-5", mm
                self.given.append(blh2xyz(self.ab, units_to_rad(p["b"] + d[0]), units_to_rad(p["l"] + d[1]),
                                          (p["h"] + d[2]) * 1e-3))
            else:
                # perturbation n, e, u in units of 0.01 mm in the frame of the truth
                R = frame(B, L)
                self.given.append(self.truth[-1] + R @ (np.array(d, float) * 1e-5))
            df = p.get("defl") or [0, 0]
            self.defl.append((df[0] * 0.01 * ARCSEC, df[1] * 0.01 * ARCSEC))
            self.geoid.append((p["geoid"] * 1e-3) if p.get("geoid") is not None else None)

    # position dependent geometry ------------------------------------------------------------
    def normal(self, P):
        B, L, _ = xyz2blh(self.ab, P)
        return up(B, L)

    def vertical(self, i, P):
        B, L, _ = xyz2blh(self.ab, P)
        return up(B + self.defl[i][0], L + self.defl[i][1])

    def height(self, i, P):
        return xyz2blh(self.ab, P)[2] - (self.geoid[i] or 0.0)

    # observation functions: pos is a list of XYZ arrays (index = point) ------------------------
    def f(self, o, pos, ref=None):
        """value(s) of observation o at positions pos: np.array in metres / radians.
        ref: positions at which the directions of the normal / vertical are taken (default: pos itself, the exact
        model; the linearisation holds them fixed at the given positions)"""
        if ref is None:
            ref = pos
        t = o["t"]
        if t == "xyz":
            return np.array(pos[o["id"]], float)
        if t == "height":
            return np.array([self.height(o["id"], pos[o["id"]])])
        if t == "hdiff":
            return np.array([self.height(o["to"], pos[o["to"]]) - self.height(o["from"], pos[o["from"]])])
        if t in ("vector", "distance"):
            i, j = o["from"], o["to"]
            a = pos[i] + (o.get("fdh", 0) * 1e-3) * self.normal(ref[i]) if o.get("fdh") else pos[i]
            b = pos[j] + (o.get("tdh", 0) * 1e-3) * self.normal(ref[j]) if o.get("tdh") else pos[j]
            v = b - a
            return v if t == "vector" else np.array([math.sqrt(float(v @ v))])
        if t == "zenith":
            i, j = o["from"], o["to"]
            vi = self.vertical(i, ref[i])
            a = pos[i] + (o.get("fdh", 0) * 1e-3) * vi
            b = pos[j] + ((o.get("tdh", 0) * 1e-3) * self.vertical(j, ref[j]) if o.get("tdh") else 0.0)
            s = b - a
            c = float(vi @ s) / math.sqrt(float(s @ s))
            hz = np.cross(vi, s)
            return np.array([math.atan2(math.sqrt(float(hz @ hz)) / math.sqrt(float(s @ s)), c)])
        if t == "angle":
            i, l, r = o["from"], o["left"], o["right"]
            vi = self.vertical(i, ref[i])
            a = pos[i] + (o.get("fdh", 0) * 1e-3) * vi
            pl = pos[l] + ((o.get("ldh", 0) * 1e-3) * self.vertical(l, ref[l]) if o.get("ldh") else 0.0)
            pr = pos[r] + ((o.get("rdh", 0) * 1e-3) * self.vertical(r, ref[r]) if o.get("rdh") else 0.0)
            # horizontal frame perpendicular to the vertical of the station
            Bv, Lv, _ = xyz2blh(self.ab, ref[i])
            Rv = frame(Bv + self.defl[i][0], Lv + self.defl[i][1])
            dl = Rv.T @ (pl - a)
            dr = Rv.T @ (pr - a)
            al = math.atan2(dl[1], dl[0])
            ar = math.atan2(dr[1], dr[0])
            return np.array([(ar - al) % (2.0 * math.pi)])       # clockwise from left to right
        if t == "azimuth":
            i, j = o["from"], o["to"]
            Bv, Lv, _ = xyz2blh(self.ab, ref[i])
            Rv = frame(Bv + self.defl[i][0], Lv + self.defl[i][1])
            d = Rv.T @ (pos[j] - pos[i])
            return np.array([math.atan2(d[1], d[0]) % (2.0 * math.pi)])
        raise ValueError(t)


OBS_DIM = {"vector": 3, "xyz": 3, "distance": 1, "height": 1, "hdiff": 1, "zenith": 1, "angle": 1, "azimuth": 1}
ANGULAR = ("zenith", "angle", "azimuth")


def obs_points(o):
    return [o[k] for k in ("id", "from", "to", "left", "right") if k in o]


def obs_scale(o):
    """project-equation units per metre / radian"""
    return RHO_CC if o["t"] in ANGULAR else 1e3


def wrap(o, d):
    """difference of two observation values (radians wrapped for horizontal angles)"""
    if o["t"] in ("angle", "azimuth"):
        return (d + math.pi) % (2.0 * math.pi) - math.pi
    return d


# ---------------------------------------------------------------------------------------------
#  covariance of a cluster
# ---------------------------------------------------------------------------------------------

def cluster_cov(cl):
    """Full covariance matrix of a cluster in mm^2 / cc^2 (project-equation units) from the drawn
    integers: the first cov["own"] (scalar) observations carry their own standard deviation, the rest
    C = D (L L') D with a banded integer factor L and D = diag(sigma_i).  Returns (C, band of the rest)."""
    cov = cl["cov"]
    m = sum(OBS_DIM[o["t"]] for o in cl["obs"])
    own = cov["own"]
    rest = m - own
    band = min(cov["band"], max(rest - 1, 0))
    Lf = np.zeros((m, m))
    for i in range(m):
        Lf[i, i] = cov["diag"][i % len(cov["diag"])]
        if i >= own:
            for j in range(max(own, i - band), i):
                k = (i * 7 + j * 3) % len(cov["off"])
                Lf[i, j] = cov["off"][k] * 0.5
    sig = np.array([cov["sig"][i % len(cov["sig"])] * 0.1 for i in range(m)]) * cov.get("sigscale", 1)
    C = (Lf @ Lf.T) * np.outer(sig, sig)
    return C, band


def bandwidth(C):
    m = C.shape[0]
    b = 0
    for i in range(m):
        for j in range(i + 1, m):
            if C[i, j] != 0.0:
                b = max(b, j - i)
    return b


# ---------------------------------------------------------------------------------------------
#  XML writer
# ---------------------------------------------------------------------------------------------

def r17(x):
    return repr(float(x))


def status_xml(ne, u, indent=""):
    """status elements for a point or the global state; always names all three components"""
    groups = {}
    groups.setdefault(ne, []).extend(["n", "e"])
    groups.setdefault(u, []).append("u")
    out = []
    for st, comps in groups.items():
        out.append("%s<%s> %s </%s>" % (indent, st, " ".join("<%s/>" % c for c in comps), st))
    return out


SS2CC = 3.0864          # the constant gama uses for arc seconds -> cc (exact value 3.08641975...)


def observed(case, net):
    """Observed values of all clusters from the truth and the drawn noise.
    -> list (per cluster) of dict(C=cov in mm^2/cc^2, band, vals=[np.array in m / rad], texts=[[str]])"""
    out = []
    for cl in case["clusters"]:
        C, band = cluster_cov(cl)
        z = np.array([zz for o in cl["obs"] for zz in o["z"]], float) / 100.0
        e = np.linalg.cholesky(C) @ z if np.any(z) else np.zeros(len(z))
        vals, texts = [], []
        k = 0
        for o in cl["obs"]:
            dim = OBS_DIM[o["t"]]
            v = net.f(o, net.truth) + e[k:k + dim] / obs_scale(o)
            if MUTATE == "obs_bias" and o["t"] == "vector" and not out and not vals:
                v = v + np.array([2e-5, 0.0, 0.0])                # one inconsistent observation
            k += dim
            if o["t"] in ANGULAR:
                if o["t"] in ("angle", "azimuth"):
                    v = v % (2.0 * math.pi)
                gon = float(v[0]) * 200.0 / math.pi
                if o.get("dms"):
                    txt, gon = gon_dms_text(gon)
                else:
                    txt = r17(gon)
                    gon = float(txt)
                v = np.array([gon * math.pi / 200.0])
                texts.append([txt])
            else:
                texts.append([r17(x) for x in v])
                v = np.array([float(t) for t in texts[-1]])
            vals.append(v)
        out.append({"C": C, "band": band, "vals": vals, "texts": texts})
    return out


def given_text(case, net, i):
    """coordinate elements of point i as written to the input"""
    p = case["pts"][i]
    if p["given"] == "none":
        return ""
    if p["given"] == "blh":
        d = p.get("d") or [0, 0, 0]
        return "<b>%s</b> <l>%s</l> <h>%s</h>" % (dms_text(p["b"] + d[0]), dms_text(p["l"] + d[1]), r17((p["h"] + d[2]) * 1e-3))
    g = net.given[i]
    return "<x>%s</x> <y>%s</y> <z>%s</z>" % (r17(g[0]), r17(g[1]), r17(g[2]))


def write_xml(case, net, obsval, order=None):
    pts = case["pts"]
    ids = [p["id"] for p in pts]
    L = ['<?xml version="1.0" ?>', '<gnu-gama-data xmlns="http://www.gnu.org/software/gama/gnu-gama-data">', "<g3-model>"]
    c = case["const"]
    ell = case["ell"]
    cc = []
    if c.get("apriori_sd") is not None:
        cc.append("<apriori-standard-deviation>%s</apriori-standard-deviation>" % r17(c["apriori_sd"]))
    if c.get("conf") is not None:
        cc.append("<confidence-level>%s</confidence-level>" % r17(c["conf"]))
    if c.get("tolabs") is not None:
        cc.append("<tol-abs>%s</tol-abs>" % r17(c["tolabs"]))
    if c.get("ref") == "apriori":
        cc.append("<reference-variance-apriory/>")
    if c.get("ref") == "aposteriori":
        cc.append("<reference-variance-aposteriori/>")
    if c.get("units"):
        cc.append("<angular-units-%s/>" % c["units"])
    if ell["kind"] == "id":
        cc.append("<ellipsoid> <id>%s</id> </ellipsoid>" % ell["id"])
    elif ell["kind"] == "ab":
        cc.append("<ellipsoid> <a>%s</a> <b>%s</b> </ellipsoid>" % (r17(ell["a"]), r17(ell["b"])))
    elif ell["kind"] == "af":
        cc.append("<ellipsoid> <a>%s</a> <inv-f>%s</inv-f> </ellipsoid>" % (r17(ell["a"]), r17(ell["invf"])))
    if cc:
        L.append("<constants>\n   " + "\n   ".join(cc) + "\n</constants>")

    flip = bool(order and order.get("flip_style"))
    prec, crec = [], []
    for i in (order["pts"] if order else range(len(pts))):
        p = pts[i]
        style = p["style"]
        if flip:
            style = "local" if style == "global" else "global"
        body = ["<id>%s</id>" % p["id"]]
        g = given_text(case, net, i)
        if g:
            body.append(g)
        if p.get("geoid") is not None:
            body.append("<geoid>%s</geoid>" % r17(p["geoid"] * 1e-3))
        rec = []
        if style == "global":
            rec += status_xml(p["ne"], p["u"])
        else:
            body += status_xml(p["ne"], p["u"])
        if p.get("defl"):
            body.append("<db>%s</db> <dl>%s</dl>" % (r17(p["defl"][0] * 0.01), r17(p["defl"][1] * 0.01)))
        rec.append("<point> " + "\n       ".join(body) + " </point>")
        prec.append("\n".join(rec))

    for ci in (order["cl"] if order else range(len(case["clusters"]))):
        cl = case["clusters"][ci]
        ov = obsval[ci]
        C = ov["C"]
        own = cl["cov"]["own"]
        inner = order["in"][ci] if order else list(range(len(cl["obs"])))
        # component offsets of the observations in the cluster
        offs, k = [], 0
        for o in cl["obs"]:
            offs.append(k)
            k += OBS_DIM[o["t"]]
        rows = []          # component indices in the written order
        scale = []         # unit of the written covariance row relative to cc / mm
        out = ["<obs>"]
        for oi in inner:
            o = cl["obs"][oi]
            t = o["t"]
            tx = ov["texts"][oi]
            sc = SS2CC if (t in ANGULAR and o.get("dms")) else 1.0
            opt = ""
            if oi < own:
                cii = C[offs[oi], offs[oi]]
                if cl["cov"]["sdmode"][oi % 3] == "stdev":
                    opt += " <stdev>%s</stdev>" % r17(math.sqrt(cii) / sc)
                else:
                    opt += " <variance>%s</variance>" % r17(cii / (sc * sc))
            else:
                for d in range(OBS_DIM[t]):
                    rows.append(offs[oi] + d)
                    scale.append(sc)
            if t in ("vector", "distance", "zenith"):
                if o.get("fdh"):
                    opt += " <from-dh>%s</from-dh>" % r17(o["fdh"] * 1e-3)
                if o.get("tdh"):
                    opt += " <to-dh>%s</to-dh>" % r17(o["tdh"] * 1e-3)
            if t == "angle":
                if o.get("fdh"):
                    opt += " <from-dh>%s</from-dh>" % r17(o["fdh"] * 1e-3)
                if o.get("ldh"):
                    opt += " <left-dh>%s</left-dh>" % r17(o["ldh"] * 1e-3)
                if o.get("rdh"):
                    opt += " <right-dh>%s</right-dh>" % r17(o["rdh"] * 1e-3)
            if t == "vector":
                out.append("<vector> <from>%s</from> <to>%s</to> <dx>%s</dx> <dy>%s</dy> <dz>%s</dz>%s </vector>"
                           % (ids[o["from"]], ids[o["to"]], tx[0], tx[1], tx[2], opt))
            elif t == "xyz":
                out.append("<xyz> <id>%s</id> <x>%s</x> <y>%s</y> <z>%s</z> </xyz>" % (ids[o["id"]], tx[0], tx[1], tx[2]))
            elif t in ("distance", "zenith", "azimuth", "hdiff"):
                out.append("<%s> <from>%s</from> <to>%s</to> <val>%s</val>%s </%s>" % (t, ids[o["from"]], ids[o["to"]], tx[0], opt, t))
            elif t == "height":
                out.append("<height> <id>%s</id> <val>%s</val>%s </height>" % (ids[o["id"]], tx[0], opt))
            elif t == "angle":
                out.append("<angle> <from>%s</from> <left>%s</left> <right>%s</right> <val>%s</val>%s </angle>"
                           % (ids[o["from"]], ids[o["left"]], ids[o["right"]], tx[0], opt))
        if rows:
            Cw = C[np.ix_(rows, rows)] / np.outer(scale, scale)
            if MUTATE == "cov_row_swap" and order and len(rows) >= 2:
                pm = [1, 0] + list(range(2, len(rows)))        # a covariance row travels without its observation
                Cw = Cw[np.ix_(pm, pm)]
            b = bandwidth(Cw)
            if not order:
                b = max(b, min(ov["band"], len(rows) - 1))      # the drawn band (zeros inside it are written)
            fl = []
            for i in range(len(rows)):
                fl.append(" ".join("<flt>%s</flt>" % r17(Cw[i, j]) for j in range(i, min(i + b, len(rows) - 1) + 1)))
            out.append("<cov-mat> <dim>%d</dim> <band>%d</band>\n   %s\n</cov-mat>" % (len(rows), b, "\n   ".join(fl)))
        out.append("</obs>")
        crec.append("\n".join(out))

    if order and order.get("interleave"):
        k = 0
        while k < max(len(prec), len(crec)):
            if k < len(prec):
                L.append(prec[k])
            if k < len(crec):
                L.append(crec[k])
            k += 1
    else:
        L += prec + crec
    L += ["</g3-model>", "</gnu-gama-data>", ""]
    return "\n".join(L)
