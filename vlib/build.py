"""Mirror /repo's working tree and (re)build the sanitized harness from it.

ensure() is called at the start of every check.  /repo is never written.
"""
import fcntl
import os
import subprocess
import sys

VERIF = os.path.dirname(os.path.dirname(os.path.abspath(__file__)))
REPO = os.environ.get("VERIF_REPO", "/repo")
BUILD = os.environ.get("VERIF_BUILD") or os.path.join(VERIF, "build")
MIRROR = os.path.join(BUILD, "mirror")
OBJ = os.path.join(BUILD, "obj")
BIN = OBJ


def _run(cmd, **kw):
    return subprocess.run(cmd, stdout=subprocess.PIPE, stderr=subprocess.STDOUT,
                          text=True, **kw)


def ensure(targets=None, quiet=True):
    """Synchronise the mirror with /repo and run ninja.  Returns BIN dir.
    Exits 2 with BUILD-FAILED when the tree does not compile."""
    os.makedirs(MIRROR, exist_ok=True)
    os.makedirs(OBJ, exist_ok=True)
    lock = open(os.path.join(BUILD, ".lock"), "w")
    fcntl.flock(lock, fcntl.LOCK_EX)
    try:
        for sub in ("lib", "src", "xml", "tests"):
            src = os.path.join(REPO, sub) + "/"
            dst = os.path.join(MIRROR, sub) + "/"
            os.makedirs(dst, exist_ok=True)
            extra = []
            if sub == "lib":
                extra = ["--exclude", "expat/", "--exclude", "yaml-cpp/"]
            if sub == "tests":
                extra = ["--include", "*/", "--include", "*.gkf", "--include", "*.xml",
                         "--include", "*.html", "--include", "*.xsd",
                         "--exclude", "*"]
            r = _run(["rsync", "-rc", "--delete", "--prune-empty-dirs"] + extra + [src, dst])
            if r.returncode != 0:
                print("BUILD-FAILED rsync:", r.stdout)
                sys.exit(2)
        if not os.path.exists(os.path.join(OBJ, "build.ninja")):
            r = _run(["cmake", "-G", "Ninja", "-S", os.path.join(VERIF, "harness"),
                      "-B", OBJ, "-DMIRROR=" + MIRROR,
                      "-DCMAKE_CXX_COMPILER=clang++", "-DCMAKE_BUILD_TYPE=None"])
            if r.returncode != 0:
                print("BUILD-FAILED cmake:\n" + r.stdout)
                sys.exit(2)
        cmd = ["ninja", "-C", OBJ, "-j", str(os.cpu_count() or 8)]
        if targets:
            cmd += list(targets)
        r = _run(cmd)
        if r.returncode != 0:
            print("BUILD-FAILED ninja:\n" + r.stdout[-6000:])
            sys.exit(2)
        if not quiet:
            print(r.stdout[-400:])
    finally:
        fcntl.flock(lock, fcntl.LOCK_UN)
        lock.close()
    return BIN


def exe(name):
    return os.path.join(BIN, name)


if __name__ == "__main__":
    ensure(sys.argv[1:] or None, quiet=False)
