"""Reader of gama-local adjustment XML, independent of gama (Python expat)."""
import xml.parsers.expat


class Node:
    __slots__ = ("tag", "attrs", "children", "text")

    def __init__(self, tag, attrs):
        self.tag = tag
        self.attrs = attrs
        self.children = []
        self.text = ""

    def find(self, tag):
        for c in self.children:
            if c.tag == tag:
                return c
        return None

    def findall(self, tag):
        return [c for c in self.children if c.tag == tag]

    def get(self, tag, default=None):
        c = self.find(tag)
        return c.text.strip() if c is not None else default

    def getf(self, tag, default=None):
        t = self.get(tag)
        return float(t) if t is not None else default


class NotWellFormed(Exception):
    pass


def parse_tree(text):
    if isinstance(text, str):
        text = text.encode("utf-8")
    p = xml.parsers.expat.ParserCreate()
    root = Node("#root", {})
    stack = [root]

    def start(tag, attrs):
        n = Node(tag, attrs)
        stack[-1].children.append(n)
        stack.append(n)

    def end(tag):
        stack.pop()

    def chars(data):
        stack[-1].text += data

    p.StartElementHandler = start
    p.EndElementHandler = end
    p.CharacterDataHandler = chars
    try:
        p.Parse(text, True)
    except xml.parsers.expat.ExpatError as e:
        raise NotWellFormed(str(e))
    return root


OBS_TAGS = {"direction", "distance", "angle", "height-diff", "slope-distance", "zenith-angle",
            "coordinate-x", "coordinate-y", "coordinate-z", "dx", "dy", "dz", "azimuth"}


def parse_adjustment(text):
    """-> dict; raises NotWellFormed.  {'error': {...}} for error documents."""
    root = parse_tree(text)
    top = root.find("gama-local-adjustment")
    if top is None:
        raise NotWellFormed("no gama-local-adjustment root")
    R = {}
    err = top.find("error")
    if err is not None:
        R["error"] = {"category": err.attrs.get("category"),
                      "descriptions": [d.text for d in err.findall("description")],
                      "line": int(err.get("lineNumber")) if err.get("lineNumber") is not None else None}
        return R
    R["description"] = top.find("description").text if top.find("description") is not None else None
    gp = top.find("network-general-parameters")
    R["general"] = dict(gp.attrs) if gp is not None else {}
    summ = top.find("network-processing-summary")
    S = {}
    if summ is not None:
        cs = summ.find("coordinates-summary")
        for kind in ("adjusted", "constrained", "fixed"):
            n = cs.find("coordinates-summary-" + kind)
            S["coords_" + kind] = {k: int(n.get("count-" + k)) for k in ("xyz", "xy", "z")}
        osum = summ.find("observations-summary")
        S["obs"] = {c.tag: int(c.text) for c in osum.children}
        pe = summ.find("project-equations")
        S["equations"] = int(pe.get("equations"))
        S["unknowns"] = int(pe.get("unknowns"))
        S["dof"] = int(pe.get("degrees-of-freedom"))
        S["defect"] = int(pe.get("defect"))
        S["sum_of_squares"] = float(pe.get("sum-of-squares"))
        S["connected"] = pe.find("connected-network") is not None
        it = pe.find("linearization-iterations")
        S["iterations"] = int(it.text) if it is not None else 0
        sd = summ.find("standard-deviation")
        S["apriori"] = sd.getf("apriori")
        S["aposteriori"] = sd.getf("aposteriori")
        S["used"] = sd.get("used")
        S["probability"] = sd.getf("probability")
        S["ratio"] = sd.getf("ratio")
        S["lower"] = sd.getf("lower")
        S["upper"] = sd.getf("upper")
        S["passed"] = sd.find("passed") is not None
        S["failed"] = sd.find("failed") is not None
        S["confidence_scale"] = sd.getf("confidence-scale")
    R["summary"] = S
    co = top.find("coordinates")
    C = {"fixed": [], "approximate": [], "adjusted": []}
    if co is not None:
        for kind in C:
            n = co.find(kind)
            if n is None:
                continue
            for p in n.findall("point"):
                d = {"id": p.get("id")}
                for c in p.children:
                    if c.tag in ("x", "y", "z", "X", "Y", "Z"):
                        d[c.tag.lower()] = float(c.text)
                        d["text_" + c.tag.lower()] = c.text.strip()
                        if c.tag.isupper():
                            d.setdefault("constrained", set()).add(c.tag.lower())
                d["constrained"] = sorted(d.get("constrained", []))
                C[kind].append(d)
        R["ellipses"] = [{"id": e.get("id"), "major": e.getf("major"), "minor": e.getf("minor"), "alpha": e.getf("alpha")}
                         for e in (co.find("std-error-ellipses").findall("ellipse") if co.find("std-error-ellipses") is not None else [])]
        R["orientations"] = [{"id": o.get("id"), "approx": o.getf("approx"), "adj": o.getf("adj")}
                             for o in (co.find("orientation-shifts").findall("orientation") if co.find("orientation-shifts") is not None else [])]
        cm = co.find("cov-mat")
        if cm is not None:
            R["cov"] = {"dim": int(cm.get("dim")), "band": int(cm.get("band")),
                        "flt": [float(f.text) for f in cm.findall("flt")]}
        oi = co.find("original-index")
        if oi is not None:
            R["original_index"] = [int(i.text) for i in oi.findall("ind")]
    R["coordinates"] = C
    ob = top.find("observations")
    O = []
    if ob is not None:
        for o in ob.children:
            if o.tag not in OBS_TAGS:
                continue
            d = {"tag": o.tag, "extern": o.attrs.get("extern")}
            for k in ("from", "to", "left", "right", "id"):
                if o.find(k) is not None:
                    d[k] = o.get(k)
            for k in ("obs", "adj", "stdev", "qrr", "f", "std-residual", "err-obs", "err-adj"):
                if o.find(k) is not None:
                    d[k] = float(o.get(k))
            O.append(d)
    R["observations"] = O
    return R


def cov_band_matrix(cov):
    """dense symmetric matrix from the printed band (zeros outside the band)"""
    import numpy as np
    dim, band = cov["dim"], cov["band"]
    M = np.zeros((dim, dim))
    k = 0
    for i in range(dim):
        for j in range(i, min(dim, i + band + 1)):
            M[i, j] = M[j, i] = cov["flt"][k]
            k += 1
    return M, k
