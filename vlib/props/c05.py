"""C05 - linearised observation equations equal the true Jacobian and misclosure."""
import copy
import math

import numpy as np

from .. import gen_net, netmodel as nm, netrun
from ..runner import Part

RULE = ("Hypothesis generates small networks (2-5 points, all 8 axes-xy x 2 angle senses, gons/degrees input, every "
        "fixed/free/constrained mix, every observation type incl. coordinates and vectors with banded covariances, "
        "observed value = truth + offset from {0, small, +-100 gon, near +-200 gon}) with given approximate coordinates; "
        "the driver runs the real parser + LocalLinearization and every row is compared with analytic partial derivatives "
        "and misclosures computed from my own observation model written from the documentation (mm / cc units). "
        "Non-trivial = every row compared (class table type x quadrant x status mix x frame is reported); "
        "distinct by sha1 of the network.")
ASSUMPTIONS = ["observation model of vlib/netmodel.py (from doc/gama-local-input.texi): clockwise bearings for left-handed angles, "
               "azimuth follows the angle sense, zenith angle from the vertical incl. instrument/target heights",
               "internal y coordinate = y_sign * input y (reported by the library); orientation unknown compared only through differences within a direction set",
               "sights >= 5 m, zenith angles away from the vertical (generator keeps height differences moderate)"]
REQUIRED_CLASSES = ["t=direction", "t=distance", "t=angle", "t=s-distance", "t=z-angle", "t=azimuth", "t=dh",
                    "t=x", "t=y", "t=z", "t=dx", "t=dy", "t=dz", "inconsistent_frame", "deg_input"]

CCPERRAD = 200e4 / math.pi


def wrap_cc(a):
    """reduce to (-200e4, 200e4]"""
    a = math.fmod(a, 400e4)
    if a > 200e4:
        a -= 400e4
    if a <= -200e4:
        a += 400e4
    return a


def approx_pmap(net):
    """coordinates the linearisation starts from: the given approximate values; a <coordinates>
    cluster defines them by its observed values only for points without given coordinates
    (before the fix 901010d in /repo the observed values replaced the given ones)"""
    P = {}
    for p in net["points"]:
        q = dict(p)
        q["E"] = p["E"] + p.get("dE", 0.0)
        q["N"] = p["N"] + p.get("dN", 0.0)
        q["H"] = p["H"] + p.get("dH", 0.0)
        P[p["id"]] = q
    vals = nm.observed_values(net)
    for cl, vv in zip(net["clusters"], vals):
        if cl["k"] != "coords":
            continue
        for ob, v in zip(cl["obs"], vv):
            q = P[ob["id"]]
            i = 0
            if "xy" in ob["dims"]:
                if not q.get("give_xy", True):
                    q["E"], q["N"] = nm.from_input(net, v[0], v[1])
                i = 2
            if "z" in ob["dims"]:
                if not q.get("give_z", True):
                    q["H"] = v[i]
    return P


def strip_dh(cl, ob):
    """gama reduces slope distances / zenith angles with instrument and target heights to the
    marks (value + reduction computed from the approximate coordinates) and linearises the
    mark-to-mark function: coefficients are those of the observation without heights"""
    if cl["k"] != "obs" or ob.get("t") not in ("s-distance", "z-angle"):
        return cl, ob
    ob2 = dict(ob); ob2["from_dh"] = 0.0; ob2["to_dh"] = 0.0
    cl2 = dict(cl); cl2["from_dh"] = None
    return cl2, ob2


def expected_rows(net, ysign, removed=()):
    """[(type, from, to, fs, {('X'|'Y'|'Z'|'R', pid): coef}, rhs (mm|cc, None for directions), value)] in file order"""
    Pa = approx_pmap(net)
    P = nm.pmap(net)
    ux, uy = nm.axes_vectors(net["axes"])
    vals = nm.observed_values(net)
    rows = []
    for ci, oi, comp, t in nm.flat_observations(net):
        cl = net["clusters"][ci]
        ob = cl["obs"][oi]
        cl0, ob0 = strip_dh(cl, ob)
        g = nm.obs_gradient(net, cl0, ob0, comp, Pa)
        ang = cl["k"] == "obs" and t in nm.ANGULAR
        unit = CCPERRAD / 1000.0 if ang else 1.0
        flip = ysign if t in ("y", "dy") else 1.0
        coefs = {}
        for (pid, c), v in g.items():
            if pid == "orient":
                coefs[("R", c)] = coefs.get(("R", c), 0.0) + v
                continue
            st = P[pid]["xy"] if c in ("E", "N") else P[pid]["z"]
            if st not in ("adj", "constr"):
                continue
            if (pid, "z" if c == "H" else "xy") in removed:
                continue
            if c == "H":
                coefs[("Z", pid)] = coefs.get(("Z", pid), 0.0) + v * unit * flip
            else:
                e = 0 if c == "E" else 1
                coefs[("X", pid)] = coefs.get(("X", pid), 0.0) + v * ux[e] * unit * flip
                coefs[("Y", pid)] = coefs.get(("Y", pid), 0.0) + v * uy[e] * ysign * unit * flip
        tr = nm.obs_truth(net, cl, ob, Pa)
        v = vals[ci][oi]
        if isinstance(tr, list):
            tr, v = tr[comp], v[comp]
        if ang:
            rhs = wrap_cc((v - tr) * CCPERRAD)
        else:
            rhs = (v - tr) * 1e3 * flip
        if cl["k"] == "obs":
            fr = ob.get("from", cl["from"])
            to = ob["bs"] if t == "angle" else ob["to"]
            fs = ob.get("fs")
        elif cl["k"] == "hdiff" or cl["k"] == "vectors":
            fr, to, fs = ob["from"], ob["to"], None
        else:
            fr, to, fs = ob["id"], "", None
        rows.append({"t": t, "from": fr, "to": to, "fs": fs, "coefs": coefs, "rhs": rhs, "ci": ci,
                     "dist": None})
    return rows


def quadrant(net, fr, to):
    P = nm.pmap(net)
    if to not in P or fr not in P:
        return "-"
    dE, dN = P[to]["E"] - P[fr]["E"], P[to]["N"] - P[fr]["N"]
    return ("N" if dN >= 0 else "S") + ("E" if dE >= 0 else "W")


def oracle(net, stats):
    gkf = nm.gkf_text(net)
    dump, crash = netrun.net_driver(gkf, "-", "lin")
    if crash is not None:
        return ["lin.crash: %s %s" % (crash["kind"], crash["frame"])]
    if dump.get("stage") == "exception" and "No network points defined" in dump.get("text", ""):
        stats.label("no_unknowns_left")
        return []
    if dump.get("stage") == "exception" and "No observations available" in dump.get("text", "") and not net["clusters"]:
        stats.label("no_observations")
        return []
    if dump.get("stage") != "linearized":
        return ["lin.rejected: a valid generated network was not linearised: %s" % str(dump)[:300]]
    ysign = float(dump["y_sign"])
    if (ysign > 0) != nm.consistent(net):
        return ["lin.y_sign: library reports y_sign %s for axes %s angles %s" % (ysign, net["axes"], net["angles"])]
    stats.label("inconsistent_frame" if ysign < 0 else "consistent_frame")
    stats.label("deg_input" if net.get("deg") else "gon_input")
    # points the library reports as removed (e.g. xy determined by a single element) have no unknowns
    removed = set()
    for pid, code in dump["removed_points"]:
        removed.add((pid, "z" if code in (2, 4, 7) else "xy"))
        if code in (0, 5):
            removed.add((pid, "z"))
        stats.label("removed_point")
    exp = expected_rows(net, ysign, removed)
    unknowns = [tuple(u) for u in dump["unknowns"]]
    got = dump["obs"]
    fails = []
    # match dumped observations (active ones, file order) with expected rows
    j = 0
    matched = 0
    dirsets = {}
    for o in got:
        while j < len(exp) and not (exp[j]["t"] == o["t"] and exp[j]["from"] == o["from"] and
                                    (exp[j]["to"] == o["to"] or exp[j]["t"] in ("x", "y", "z"))
                                    and (exp[j]["fs"] or None) == (o.get("fs") or None)):
            j += 1
        if j >= len(exp):
            fails.append("lin.unmatched: dumped observation %s %s->%s not in the input order" % (o["t"], o["from"], o["to"]))
            break
        e = exp[j]
        j += 1
        matched += 1
        t = o["t"]
        P = nm.pmap(net)
        mix = "".join(sorted(set((P[p]["xy"] or "-")[0] for p in (o["from"], o["to"]) if p in P)))
        stats.label("t=" + t, "t=%s.q=%s" % (t, quadrant(net, o["from"], o["to"])), "t=%s.mix=%s" % (t, mix))
        gotc = {}
        if len(set(o["idx"])) != len(o["idx"]):
            # every consumer of the row (sparse design matrix, Envelope::set, A(r, i) = c of the full-matrix solvers)
            # takes an unknown to occur at most once in a linearised equation
            fails.append("lin.%s.duplicate_unknown: the row names an unknown twice: indexes %s (%s->%s)" % (t, o["idx"], o["from"], o["to"]))
        for i, c in zip(o["idx"], o["coef"]):
            if i < 1 or i > len(unknowns):
                fails.append("lin.index: %s row refers to unknown %d of %d" % (t, i, len(unknowns)))
                continue
            gotc[unknowns[i - 1]] = gotc.get(unknowns[i - 1], 0.0) + c
        expc = {k: v for k, v in e["coefs"].items()}
        keys = set(gotc) | set(expc)
        for k in sorted(keys):
            g, x = gotc.get(k), expc.get(k)
            if g is None:
                if abs(x) > 1e-12:
                    fails.append("lin.%s.missing_coef: no coefficient on %s (expected %.9g) for %s->%s" % (t, k, x, o["from"], o["to"]))
                continue
            if x is None:
                fails.append("lin.%s.extra_coef: coefficient %.9g on %s which is not a free coordinate of a participating point" % (t, g, k))
                continue
            tol = 1e-9 * max(1.0, abs(x)) + 1e-12
            stats.ratio("coef." + t, abs(g - x) / tol)
            if abs(g - x) > tol:
                fails.append("lin.%s.coef: d/d%s gama %.12g analytic %.12g (%s->%s%s, axes %s %s)" %
                             (t, k, g, x, o["from"], o["to"], "/" + o["fs"] if o.get("fs") else "", net["axes"], net["angles"]))
        # right-hand side
        if t == "direction":
            dirsets.setdefault((e["ci"]), []).append((o["rhs"], e["rhs"], o))
            if abs(o["rhs"]) > 200e4 + 1e-6:
                fails.append("lin.direction.rhs_range: %.6f cc" % o["rhs"])
        else:
            ang = t in nm.ANGULAR
            if ang:
                d = wrap_cc(o["rhs"] - e["rhs"])
                tol = 1e-5          # cc; 17 significant digits of a value < 400 gon
                near_pi = abs(abs(e["rhs"]) - 200e4) < 1e-3
                if abs(o["rhs"]) > 200e4 + 1e-6:
                    fails.append("lin.%s.rhs_range: %.6f cc" % (t, o["rhs"]))
                if not near_pi and abs(o["rhs"] - e["rhs"]) > tol:
                    fails.append("lin.%s.rhs: gama %.9f cc, observed-computed %.9f cc (%s->%s)" % (t, o["rhs"], e["rhs"], o["from"], o["to"]))
                elif abs(d) > tol:
                    fails.append("lin.%s.rhs_mod: gama %.9f cc, observed-computed %.9f cc" % (t, o["rhs"], e["rhs"]))
                stats.ratio("rhs." + t, abs(d) / tol)
            else:
                tol = 1e-6 * max(1.0, abs(e["rhs"]) * 1e-3) + 1e-9 * 5e6   # mm: coordinates up to 5e6 m with 17 digits
                stats.ratio("rhs." + t, abs(o["rhs"] - e["rhs"]) / tol)
                if abs(o["rhs"] - e["rhs"]) > tol:
                    fails.append("lin.%s.rhs: gama %.9f mm, observed-computed %.9f mm (%s->%s)" % (t, o["rhs"], e["rhs"], o["from"], o["to"]))
    # directions: rhs - (value - s*beta) must be one constant per set (the orientation), mod 400 gon
    for ci, lst in dirsets.items():
        base = wrap_cc(lst[0][0] - lst[0][1])
        for g, x, o in lst[1:]:
            d = wrap_cc(g - x - base)
            # a difference of exactly half a circle cannot be wrapped reproducibly
            if abs(d) > 1e-4 and abs(abs(d) - 400e4) > 1e-4:
                fails.append("lin.direction.rhs: misclosures within the set from %s are inconsistent by %.6f cc" % (o["from"], d))
    if matched == 0:
        stats.label("no_active_observation")
    if dump["N"] != len(unknowns):
        fails.append("lin.unknown_table: N=%d but %d unknowns listed" % (dump["N"], len(unknowns)))
    return fails


PARTS = [
    Part("jacobian", strategy=gen_net.lin_network, oracle=oracle, n={"quick": 8000, "thorough": 60000},
         sample=lambda net: nm.gkf_text(net)[:1500]),
]
