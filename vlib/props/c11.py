"""C11 - any input is either adjusted or refused with a located diagnostic, safely."""
import glob
import hashlib
import json
import os
import re
import shutil
import subprocess
import tempfile
import time

from hypothesis import strategies as st

from .. import build, drv, gen_net, netmodel as nm, netrun, adjxml
from ..runner import Part, VERIF, NCPU, split_known

LEVEL = "fault_enumeration"
RULE = ("Five generators under ASan/UBSan. (seeds) every archived input of /repo/tests and every saved regression unit through "
        "the in-process main() of gama-local with 8 option combinations (algorithm x all output formats x cov-band x language). "
        "(events) EXHAUSTIVE enumeration of all element forests with <= 3 (quick) / 4 (thorough) elements over a 23-tag alphabet "
        "inside <points-observations>; (trunc) every prefix of every seed file; (split) every two-chunk delivery of every seed "
        "file compared with one-piece delivery; (fuzz_*) coverage-guided libFuzzer campaigns on the real main() and on the "
        "gama-g3 / adjustment-input / adjustment-result readers with option bytes decoded from the unit; (accept) grammar-derived "
        "valid documents from the network generators must not be refused by the parser; (lexical) an equivalent spelling of such a "
        "document - numbers re-spelled inside the documented literal grammar (sign, leading / trailing zeros, exponent forms, blanks), attribute "
        "order, quote style, white space and line breaks inside tags, explicit end tags, comments, numeric character references, "
        "CR LF, XML declaration variants / BOM; equivalence confirmed by comparing the infosets with Python expat - must be accepted with the same results. Oracle: no sanitizer report, return "
        "from main, well-formed XML output, a refusal carries a non-empty message and a line inside the input. "
        "Non-trivial = a document that reaches the element handlers (all enumerated documents; for fuzzing the units kept "
        "in the coverage corpus); distinct by construction (enumeration) / by libFuzzer's corpus.")
ASSUMPTIONS = ["sanitizer set of DESIGN section 5 (leaks, pointer-overflow, nonnull-attribute excluded)",
               "timeouts / oom units of libFuzzer are load noise unless they reproduce in isolation (> 60 s)",
               "libFuzzer campaigns are only approximately reproducible from the seed; the saved unit is the reproducible object"]
EXHAUSTIVE = True
REQUIRED_CLASSES = ["seeds.units", "events.docs", "trunc.docs", "split.docs", "fz_gkf.execs", "fz_data.execs", "fz_adjres.execs", "seeds_data.units", "seeds_adjres.units"]

FZ_ENV = dict(drv.ENV)
FZ_ENV["ASAN_OPTIONS"] = drv.ENV["ASAN_OPTIONS"] + ":detect_leaks=0"
OPTION_PREFIXES = [bytes([0x7c | a, 0x01 | (a << 1)]) for a in range(4)] + [bytes([a, 0]) for a in range(4)]


def seed_files(max_size=8192):
    out = []
    for pat in ("tests/gama-local/input/*.gkf", "tests/gama-local/input/*/*.gkf", "tests/*/input/*.gkf"):
        out += glob.glob(os.path.join(build.MIRROR, pat))
    out += glob.glob(os.path.join(VERIF, "corpus", "gkf_regress", "*.gkf"))
    out += glob.glob(os.path.join(VERIF, "corpus", "probes", "*.gkf"))
    out = sorted(set(f for f in out if 0 < os.path.getsize(f) <= max_size))
    return out


def run_units(binary, paths, timeout=300):
    """run a libFuzzer binary on explicit unit files; returns (ok, stderr)"""
    p = subprocess.run([build.exe(binary), "-close_fd_mask=1", "-detect_leaks=0", "-timeout=60"] + paths,
                       stdout=subprocess.DEVNULL, stderr=subprocess.PIPE, env=FZ_ENV, timeout=timeout)
    err = p.stderr.decode("utf-8", "replace")
    return p.returncode == 0, err


def signature(err):
    m = re.search(r"ORACLE-VIOLATION: (.*)", err)
    if m:
        return "oracle:" + m.group(1).strip()
    c = drv.classify(err, None)
    if c:
        return "%s@%s" % (c["kind"], c["frame"])
    if "ERROR: libFuzzer: timeout" in err:
        return "timeout"
    return "unknown"


def save_unit(part, data, sig):
    d = os.path.join(VERIF, "replays", "C11")
    os.makedirs(d, exist_ok=True)
    path = os.path.join(d, "%s-%s.bin" % (part, hashlib.sha1(data).hexdigest()[:16]))
    with open(path, "wb") as f:
        f.write(data)
    return path


# ------------------------------------------------------------------ seeds

def run_seeds(tier, seed, stats, known):
    files = seed_files()
    with tempfile.TemporaryDirectory(dir=netrun.TMP) as d:
        units = []
        for i, f in enumerate(files):
            body = open(f, "rb").read()
            for j, pre in enumerate(OPTION_PREFIXES):
                p = os.path.join(d, "u%04d_%d" % (i, j))
                with open(p, "wb") as fo:
                    fo.write(pre + body)
                units.append((p, f, pre))
        # batches; on failure locate the unit
        B = 40
        for k in range(0, len(units), B):
            batch = units[k:k + B]
            ok, err = run_units("fz_gkf", [u[0] for u in batch])
            if ok:
                for u in batch:
                    stats.record({"file": os.path.relpath(u[1], build.MIRROR), "opt": u[2].hex()}, True)
                continue
            for u in batch:
                ok1, err1 = run_units("fz_gkf", [u[0]])
                stats.record({"file": os.path.relpath(u[1], build.MIRROR), "opt": u[2].hex()}, True)
                if not ok1:
                    sig = signature(err1)
                    data = open(u[0], "rb").read()
                    path = save_unit("seeds", data, sig)
                    fails = split_known(["seeds.%s: %s with options %s" % (sig, os.path.basename(u[1]), u[2].hex())], known, stats)
                    if fails and stats.fail is None:
                        stats.fail = ({"target": "fz_gkf", "unit": path}, fails)
    stats.labels["seeds.units"] += len(units)
    stats.labels["seeds.files"] += len(files)
    run_units_part("seeds_raw", "fz_gkf", [], [], "gkf_regress/*.unit", stats, known)


def replay_seeds(case, stats):
    return replay_unit(case, stats)


def replay_unit(case, stats):
    ok, err = run_units(case["target"], [case["unit"]])
    if ok:
        return []
    return ["%s.%s: saved unit still fails" % (case["target"], signature(err))]


# ------------------------------------------------------------------ enumerators

def run_en(args, artifact):
    env = dict(FZ_ENV)
    env["EN_ARTIFACT"] = artifact
    p = subprocess.run([build.exe("en_gkf")] + args, stdout=subprocess.PIPE, stderr=subprocess.PIPE, env=env, timeout=3600)
    out = p.stdout.decode("utf-8", "replace")
    err = p.stderr.decode("utf-8", "replace")
    rep = None
    for line in out.splitlines():
        if line.startswith("{"):
            try:
                rep = json.loads(line)
            except ValueError:
                pass
    return p.returncode, rep, err


def en_part(name, arglists, stats, known):
    with tempfile.TemporaryDirectory(dir=netrun.TMP) as d:
        for i, args in enumerate(arglists):
            art = os.path.join(d, "art%d" % i)
            rc, rep, err = run_en(args, art)
            if rep:
                stats.evals += rep["docs"]
                stats.labels[name + ".docs"] += rep["docs"]
                stats.labels[name + ".accepted"] += rep["accepted"]
                stats.labels[name + ".rejected"] += rep["rejected"]
                stats.labels[name + ".adjusted"] += rep["adjusted"]
                # every enumerated document is distinct by construction
                stats.distinct_extra += rep["docs"]
                stats.labels[name + ".distinct_docs"] += rep["docs"]
            if rc != 0:
                m = re.search(r"EN-VIOLATION: (.*)", err)
                sig = ("oracle:" + m.group(1).strip()[:200]) if m else signature(err)
                data = open(art, "rb").read() if os.path.exists(art) else b""
                path = save_unit(name, data, sig)
                fails = split_known(["%s.%s (args %s)" % (name, sig, " ".join(os.path.basename(a) for a in args))], known, stats)
                if fails and stats.fail is None:
                    stats.fail = ({"en_args": args, "doc": path}, fails)
        if len(stats.samples) < 2:
            stats.samples.append({"part": name, "args": [os.path.basename(a) for a in arglists[0]]})


def run_events(tier, seed, stats, known):
    n = 3 if tier == "quick" else 4
    w = seed % 1000          # worker index from the runner
    W = PARTS_BY_NAME["events"].workers
    en_part("events", [["events", str(n), str(w), str(W)]], stats, known)


def replay_events(case, stats):
    with tempfile.TemporaryDirectory(dir=netrun.TMP) as d:
        rc, rep, err = run_en(case["en_args"], os.path.join(d, "a"))
    return [] if rc == 0 else ["events: enumeration %s still fails: %s" % (case["en_args"], err[-300:])]


def files_for(tier, seed, W):
    files = seed_files(6000 if tier == "thorough" else 2500)
    w = seed % 1000
    return [f for i, f in enumerate(files) if i % W == w]


def run_trunc(tier, seed, stats, known):
    en_part("trunc", [["trunc", f] for f in files_for(tier, seed, PARTS_BY_NAME["trunc"].workers)], stats, known)


def run_split(tier, seed, stats, known):
    en_part("split", [["split", f] for f in files_for(tier, seed, PARTS_BY_NAME["split"].workers)], stats, known)


def replay_trunc(case, stats):
    return replay_events(case, stats)


def replay_split(case, stats):
    return replay_events(case, stats)


# ------------------------------------------------------------------ libFuzzer campaigns

def fuzz_campaign(target, corpus_files, prefixes, tier, seed, stats, known, dict_words=None):
    secs = {"quick": 25, "thorough": 900}[tier]
    forks = max(2, NCPU - 2)
    with tempfile.TemporaryDirectory(dir=netrun.TMP) as d:
        corp = os.path.join(d, "corpus")
        arts = os.path.join(d, "art")
        os.makedirs(corp); os.makedirs(arts)
        n = 0
        for f in corpus_files:
            body = open(f, "rb").read()
            for pre in prefixes:
                with open(os.path.join(corp, "s%05d" % n), "wb") as fo:
                    fo.write(pre + body)
                n += 1
        # variants of the first seed files with a declared single-byte encoding and bytes above 0x7f: the declaration
        # routes the document through the unknown-encoding handler and its byte tables
        for k, f in enumerate(corpus_files[:6]):
            body = open(f, "rb").read()
            enc = [b"iso-8859-2", b"cp-1250", b"cp-1251"][k % 3]
            decl = b'<?xml version="1.0" encoding="' + enc + b'"?>'
            v, cnt = re.subn(rb"<\?xml[^>]*\?>", decl, body, 1)
            if not cnt:
                v = decl + body
            v = v.replace(b"<description>", b"<description>\xa1\xb1\xe8\xff ", 1)
            with open(os.path.join(corp, "e%05d" % k), "wb") as fo:
                fo.write(prefixes[0] + v)
        cmd = [build.exe(target), "-fork=%d" % forks, "-ignore_crashes=1", "-ignore_timeouts=1", "-ignore_ooms=1",
               "-detect_leaks=0", "-close_fd_mask=3", "-max_total_time=%d" % secs, "-timeout=30", "-rss_limit_mb=3000",
               "-seed=%d" % (seed % 2 ** 31 or 1), "-max_len=8192", "-artifact_prefix=" + arts + "/", corp]
        if dict_words:
            dp = os.path.join(d, "dict")
            with open(dp, "w") as fo:
                for w in dict_words:
                    fo.write('"%s"\n' % w.replace("\\", "\\\\").replace('"', '\\"'))
            cmd.insert(1, "-dict=" + dp)
        t0 = time.time()
        p = subprocess.run(cmd, stdout=subprocess.DEVNULL, stderr=subprocess.PIPE, env=FZ_ENV, cwd=d, timeout=secs + 600)
        log = p.stderr.decode("utf-8", "replace")
        execs = cov = ncorp = 0
        for m in re.finditer(r"^#(\d+): cov: (\d+) ft: (\d+) corp: (\d+)", log, re.M):
            execs, cov, ncorp = int(m.group(1)), int(m.group(2)), int(m.group(4))
        stats.evals += execs
        stats.labels[target + ".execs"] += execs
        stats.labels[target + ".cov_edges"] = max(stats.labels[target + ".cov_edges"], cov)
        stats.labels[target + ".corpus_units"] += ncorp
        for f in sorted(os.listdir(corp))[:4000]:
            stats.digests.add(target + ":" + f)
        if len(stats.samples) < 4:
            stats.samples.append({"target": target, "execs": execs, "seconds": round(time.time() - t0), "corpus": ncorp})
        crashes = sorted(glob.glob(os.path.join(arts, "crash-*")))
        others = [f for f in os.listdir(arts) if not f.startswith("crash-")]
        stats.labels[target + ".noise_units(timeout/oom/slow)"] += len(others)
        seen = {}
        for c in crashes[:200]:
            nfail, err = 0, ""
            for _ in range(3):
                ok, e = run_units(target, [c])
                if not ok:
                    nfail += 1
                    err = e
            if nfail == 0:
                stats.labels[target + ".unreproducible_crash_units"] += 1
                continue
            sig = signature(err)
            if sig in seen:
                continue
            data = open(c, "rb").read()
            seen[sig] = save_unit(target, data, sig)
        for sig, path in seen.items():
            fails = split_known(["%s.%s" % (target, sig)], known, stats)
            if fails and stats.fail is None:
                stats.fail = ({"target": target, "unit": path}, fails)


def gkf_dict():
    words = set()
    xsd = os.path.join(build.MIRROR, "xml", "gama-local.xsd")
    if os.path.exists(xsd):
        for m in re.finditer(r'name="([^"]+)"|value="([^"]+)"', open(xsd).read()):
            words.add(m.group(1) or m.group(2))
    # declared encodings reach the unknown-encoding handler and its byte tables (shared by all three parsers)
    words.update('encoding="%s"' % e for e in ("iso-8859-2", "cp-1250", "windows-1250", "cp-1251", "windows-1251", "x-none", "utf-16"))
    return sorted(w for w in words if len(w) < 60)


def run_fuzz_gkf(tier, seed, stats, known):
    fuzz_campaign("fz_gkf", seed_files(6000), [bytes([0x7c, 0x01]), bytes([0x01, 0x00])], tier, seed, stats, known, gkf_dict())


def replay_fuzz_gkf(case, stats):
    return replay_unit(case, stats)


def data_files():
    out = glob.glob(os.path.join(build.MIRROR, "tests/gama-g3/input/*.xml"))
    out += glob.glob(os.path.join(build.MIRROR, "tests/gama-g3/input/*/*.xml"))
    return sorted(f for f in out if 0 < os.path.getsize(f) <= 14000)


def adjres_files():
    out = glob.glob(os.path.join(build.MIRROR, "tests/gama-local/input/*.xml"))
    out += glob.glob(os.path.join(build.MIRROR, "tests/gama-local/input/*/*.xml"))
    out += glob.glob(os.path.join(build.MIRROR, "tests/gama-local/input/*.html"))
    return sorted(f for f in out if 0 < os.path.getsize(f) <= 30000)


def run_units_part(name, target, files, prefixes, regress_glob, stats, known):
    """all seed files x option prefixes + saved raw regression units through a fuzz binary"""
    with tempfile.TemporaryDirectory(dir=netrun.TMP) as d:
        units = []
        for i, f in enumerate(files):
            body = open(f, "rb").read()
            for j, pre in enumerate(prefixes):
                p = os.path.join(d, "u%04d_%d" % (i, j))
                with open(p, "wb") as fo:
                    fo.write(pre + body)
                units.append(p)
        units += sorted(glob.glob(os.path.join(VERIF, "corpus", regress_glob)))
        for k in range(0, len(units), 40):
            batch = units[k:k + 40]
            ok, err = run_units(target, batch)
            for u in batch:
                stats.record({"target": target, "unit": os.path.basename(u)}, True)
            if ok:
                continue
            for u in batch:
                ok1, err1 = run_units(target, [u])
                if not ok1:
                    sig = signature(err1)
                    path = save_unit(name, open(u, "rb").read(), sig)
                    fails = split_known(["%s.%s: unit %s" % (name, sig, os.path.basename(u))], known, stats)
                    if fails and stats.fail is None:
                        stats.fail = ({"target": target, "unit": path}, fails)
        stats.labels[name + ".units"] += len(units)


def run_seeds_data(tier, seed, stats, known):
    run_units_part("seeds_data", "fz_data", data_files(), [bytes([a]) for a in range(4)], "data_regress/*", stats, known)
    run_units_part("seeds_adjres", "fz_adjres", adjres_files(), [b"\x00", b"\x01"], "adjres_regress/*", stats, known)


def replay_seeds_data(case, stats):
    return replay_unit(case, stats)


def run_fuzz_data(tier, seed, stats, known):
    fuzz_campaign("fz_data", data_files(), [b"\x00", b"\x03"], tier, seed, stats, known)


def run_fuzz_adjres(tier, seed, stats, known):
    fuzz_campaign("fz_adjres", adjres_files(), [b"\x00", b"\x01"], tier, seed, stats, known)


def replay_fuzz_data(case, stats):
    return replay_unit(case, stats)


def replay_fuzz_adjres(case, stats):
    return replay_unit(case, stats)


# ------------------------------------------------------------------ grammar-derived documents must be accepted

@st.composite
def valid_doc(draw):
    if draw(st.booleans()):
        net = draw(gen_net.lin_network())
    else:
        net = draw(gen_net.determined_network(noise=1))
    return {"net": net, "alg": draw(st.sampled_from(["envelope", "cholesky", "gso", "svd"]))}


def oracle_accept(c, stats):
    text = nm.gkf_text(c["net"])
    res = netrun.gama_local(text, ["--algorithm", c["alg"]], outputs=("xml", "text", "html", "octave"))
    if res["crash"] is not None:
        return ["accept.crash: %s %s" % (res["crash"]["kind"], res["crash"]["frame"])]
    try:
        x = adjxml.parse_adjustment(res["xml"] or "")
    except adjxml.NotWellFormed as e:
        return ["accept.xml_not_well_formed: %s" % e]
    if "error" in x and x["error"]["category"] == "gamaLocalParserError":
        return ["accept.refused: a document following the documented grammar was refused: %s line %s" %
                (x["error"]["descriptions"], x["error"]["line"])]
    stats.label("accept.error_free" if "error" not in x else "accept.other_error")
    return []



# ------------------------------------------------------------------ equivalent spellings of one valid document

NUM_ATTRS = {"x", "y", "z", "val", "stdev", "dist", "from_dh", "to_dh", "bs_dh", "fs_dh", "dx", "dy", "dz", "sigma-apr",
             "conf-pr", "tol-abs", "epoch", "latitude", "direction-stdev", "angle-stdev", "zenith-angle-stdev",
             "azimuth-stdev", "distance-stdev"}
NMTOKEN_VAL = {"direction", "angle", "z-angle", "azimuth"}      # val is xs:NMTOKEN there (sexagesimal values): no '+', no '-'
FLOAT_RE = re.compile(r"^-?\d+(\.\d+)?([eE][+-]?\d+)?$")
TAG_RE = re.compile(r'<([A-Za-z][\w:.-]*)((?:\s+[\w:.-]+="[^"]*")*)\s*(/?)>')
ATTR_RE = re.compile(r'([\w:.-]+)="([^"]*)"')
COV_RE = re.compile(r"(<cov-mat[^>]*>)([^<]*)(</cov-mat>)")


def respell(s, c, restricted):
    """another literal of the same decimal value within [+-]?digits[.digits][(e|E)[+-]?digits] (xs:double of the XSD, the
    must-accept set of C18); restricted = a value the parser may also read as d-m-s: digits, point and a positive exponent only"""
    import decimal
    if not FLOAT_RE.match(s):
        return s
    d = decimal.Decimal(s)
    neg = s.startswith("-")
    a = abs(d)
    sign = "-" if neg else ""
    plain = format(a, "f")
    k = c // 8 % 4 + 1
    form = c % 8
    if form == 0:
        return s
    if form == 1:
        return sign + (plain + "00" if "." in plain else plain + ".0")
    if form == 2:
        return sign + "00" + plain
    if form == 3:
        return sign + format(a.scaleb(-k), "f") + "e" + str(k)
    if form == 4:
        return sign + format(a.scaleb(-k), "f") + ("E" if restricted else "E+") + str(k)
    if restricted:
        return sign + plain
    if form == 5:
        return sign + format(a.scaleb(k), "f") + "e-" + str(k)
    if form == 6:
        return (sign or "+") + plain
    return " " + sign + plain + "  "


def charref(v, c):
    """one character of an attribute value written as a numeric character reference"""
    i = c % len(v)
    if v[i] in "&;<>\"'" or "&" in v:
        return v
    return v[:i] + ("&#%d;" % ord(v[i]) if c & 64 else "&#x%X;" % ord(v[i])) + v[i + 1:]


def lexical_variant(text, ch, flags):
    n = [0]

    def nxt():
        n[0] += 1
        return ch[n[0] % len(ch)] + 7 * n[0]

    def tag(m):
        name, attrs, close = m.group(1), ATTR_RE.findall(m.group(2)), m.group(3)
        out = []
        for an, av in attrs:
            c = nxt()
            if flags["numbers"] and an in NUM_ATTRS:
                av = respell(av, c, (an == "val" and name in NMTOKEN_VAL) or an == "latitude")
            if flags["charref"] and av and c % 5 == 0:
                av = charref(av, c // 5)
            q = "'" if (flags["quotes"] and c % 3 == 0 and "'" not in av) else '"'
            eq = " = " if (flags["space"] and c % 7 == 0) else "="
            out.append(an + eq + q + av + q)
        c = nxt()
        if flags["order"] and len(out) > 1:
            r = c % len(out)
            out = out[r:] + out[:r]
            if c & 16:
                out.reverse()
        sep = ["\n    ", "\t", "  "][c % 3] if flags["space"] else " "
        body = "<" + name + "".join(sep + a for a in out)
        if close:
            body += ("></%s>" % name) if (flags["endtag"] and c & 32) else (" />" if c & 1 else "/>")
        else:
            body += ">"
        if flags["comment"] and c % 11 == 0:
            body += "<!-- %s -- not a tag: <point id='c'/> -->".replace(" -- ", " - ") % name
        return body

    def cov(m):
        toks = []
        for t in m.group(2).split():
            c = nxt()
            toks.append(respell(t, c, False).strip() if flags["numbers"] else t)
            toks.append(["\n", " ", "\t", "  \n  "][c % 4] if flags["space"] else " ")
        return m.group(1) + "\n" + "".join(toks) + m.group(3)

    out = COV_RE.sub(cov, text)
    out = TAG_RE.sub(tag, out)
    decl = flags["decl"]
    if out.startswith("<?xml"):
        end = out.index("?>") + 2
        rest = out[end:]
        if decl == 1:
            out = rest.lstrip()
        elif decl == 2:
            out = '<?xml version="1.0" encoding="UTF-8" standalone="yes"?>' + rest
        elif decl == 3:
            out = "﻿" + out
    if flags["crlf"]:
        out = out.replace("\n", "\r\n")
    return out


def infoset(text):
    """what an XML processor hands to the application, numbers by value (my own check that a variant is equivalent)"""
    import decimal
    import xml.etree.ElementTree as ET
    root = ET.fromstring(text.lstrip("﻿").encode("utf-8"))

    def walk(e):
        at = {}
        for k, v in e.attrib.items():
            at[k] = str(decimal.Decimal(v.strip()).normalize()) if (k in NUM_ATTRS and FLOAT_RE.match(v.strip().lstrip("+"))) else v
        tx = (e.text or "")
        tagname = e.tag.split("}")[-1]
        if tagname == "cov-mat":
            tx = [str(decimal.Decimal(t).normalize()) for t in tx.split()]
        elif tagname != "description":
            tx = tx.strip()
        return (tagname, sorted(at.items()), tx, [walk(c) for c in e])
    return walk(root)


@st.composite
def lexical_case(draw):
    c = draw(valid_doc())
    c["ch"] = draw(st.lists(st.integers(0, 4095), min_size=24, max_size=24))
    fl = {k: draw(st.booleans()) for k in ("numbers", "quotes", "space", "order", "endtag", "comment", "charref", "crlf")}
    fl["decl"] = draw(st.integers(0, 3))
    if not any(fl.values()):
        fl["numbers"] = True
    c["flags"] = fl
    return c


def oracle_lexical(c, stats):
    from . import c10
    text = nm.gkf_text(c["net"])
    var = lexical_variant(text, c["ch"], c["flags"])
    if infoset(text) != infoset(var):
        raise AssertionError("harness: lexical variant is not equivalent to the canonical document")
    for k, v in c["flags"].items():
        if v:
            stats.label("lex.%s" % k)
    x0, e = c10.run(None, c["alg"], text)
    if e:
        return ["lexical.canonical." + e]
    x1, e = c10.run(None, c["alg"], var)
    if e:
        return ["lexical.variant." + e]
    if "error" in x1 and x1["error"]["category"] == "gamaLocalParserError" and "error" not in x0:
        return ["lexical.refused: an equivalent spelling of an accepted document is refused: %s line %s" %
                (x1["error"]["descriptions"], x1["error"]["line"])]
    if "error" not in x0:
        stats.label("lex.adjusted")
    return c10.compare("lexical", x0, x1, stats)


# ------------------------------------------------------------------ structured malformations of valid documents

MAL_KINDS = ["cov_dim", "cov_band", "cov_tokens", "cov_token", "attr_drop", "attr_value", "attr_unknown", "attr_dup", "tag_rename",
             "elem_dup", "elem_move", "elem_drop", "id_ref", "cluster_empty", "text_garbage"]
BAD_VALUES = ["", "abc", "1e999", "nan", "inf", "-1", "0", "1e-320", "1,5", "12 34", "-0", "400", "1e22", "0x10", "1.", "--1",
              "99999999999999999999", "1-2-3", "360-00-00", "-0-0-0.5"]


def malform(text, kind, picks):
    """one semantic damage to a valid document; picks: integers that select the site and the variant.
    Returns the damaged text (None when the document has no site for this kind)."""
    a, b, c = picks[0], picks[1], picks[2]
    tags = list(TAG_RE.finditer(text))
    covs = list(COV_RE.finditer(text))

    def retag(m, attrs=None, name=None, close=None):
        nm_, at = m.group(1), ATTR_RE.findall(m.group(2))
        at = attrs if attrs is not None else at
        return "<" + (name or nm_) + "".join(' %s="%s"' % kv for kv in at) + (m.group(3) if close is None else close) + ">"

    def splice(m, repl):
        return text[:m.start()] + repl + text[m.end():]

    if kind.startswith("cov_") and not covs:
        kind = ["attr_value", "attr_drop", "id_ref", "elem_dup", "tag_rename"][a % 5]
    if kind.startswith("cov_"):
        m = covs[a % len(covs)]
        head = TAG_RE.match(m.group(1))
        at = dict(ATTR_RE.findall(head.group(2)))
        dim, band = int(at["dim"]), int(at["band"])
        toks = m.group(2).split()
        if kind == "cov_dim":
            at["dim"] = str([dim + 1, dim - 1, 0, dim + 7, 1000, -dim, 2 * dim][b % 7])
        elif kind == "cov_band":
            at["band"] = str([dim, dim + 3, -1, band + 1, 1000000][b % 5])
        elif kind == "cov_tokens":
            k = c % 3 + 1
            toks = toks[:-k] if b % 2 == 0 else toks + ["1.5"] * k
        else:
            toks[c % len(toks)] = BAD_VALUES[b % len(BAD_VALUES)] or "?"
        return splice(m, '<cov-mat dim="%s" band="%s">\n%s\n</cov-mat>' % (at["dim"], at["band"], " ".join(toks)))
    sites = [m for m in tags if m.group(1) not in ("gama-local", "cov-mat")]
    if not sites:
        return None
    if kind in ("attr_drop", "attr_value", "attr_dup", "id_ref"):
        want = (lambda k: k in ("from", "to", "bs", "fs", "id")) if kind == "id_ref" else (lambda k: True)
        sites = [m for m in sites if any(want(k) for k, _ in ATTR_RE.findall(m.group(2)))]
        if not sites:
            return None
        m = sites[a % len(sites)]
        at = ATTR_RE.findall(m.group(2))
        idx = [i for i, (k, _) in enumerate(at) if want(k)]
        i = idx[b % len(idx)]
        if kind == "attr_drop":
            at = at[:i] + at[i + 1:]
        elif kind == "attr_value":
            at[i] = (at[i][0], BAD_VALUES[c % len(BAD_VALUES)])
        elif kind == "attr_dup":
            at = at + [at[i]]
        else:
            others = [v for k, v in at if k in ("from", "to", "bs", "fs") and k != at[i][0]]
            at[i] = (at[i][0], others[0] if (others and c % 2) else "No-Such-Point")
        return splice(m, retag(m, attrs=at))
    m = sites[a % len(sites)]
    if kind == "attr_unknown":
        return splice(m, retag(m, attrs=ATTR_RE.findall(m.group(2)) + [(["foo", "stdev", "val", "dim", "from_dh", "extern"][b % 6], "1")]))
    if kind == "tag_rename":
        other = sites[b % len(sites)].group(1)
        return splice(m, retag(m, name=[other, "foo", "cov-mat", "point"][c % 4]))
    lines = text.split("\n")
    body = [i for i, l in enumerate(lines) if TAG_RE.search(l) and "<gama-local" not in l and "<?xml" not in l]
    if not body:
        return None
    i = body[a % len(body)]
    if kind == "elem_dup":
        lines.insert(i, lines[i])
    elif kind == "elem_move":
        l = lines.pop(i)
        lines.insert(body[b % len(body)], l)
    elif kind == "elem_drop":
        # a whole <cov-mat> when b is even (vectors / coordinates need one), else one line
        if b % 2 == 0 and covs:
            mm = covs[c % len(covs)]
            return splice(mm, "")
        lines.pop(i)
    elif kind == "cluster_empty":
        opens = [k for k, l in enumerate(lines) if re.match(r"\s*<(obs|height-differences|coordinates|vectors)\b", l)]
        if not opens:
            return None
        k = opens[a % len(opens)]
        e = k + 1
        while e < len(lines) and not re.match(r"\s*(<cov-mat|</(obs|height-differences|coordinates|vectors)>)", lines[e]):
            e += 1
        del lines[k + 1:e]
    elif kind == "text_garbage":
        lines.insert(i, ["12.5 abc", "<![CDATA[<point/>]]>", "&amp;&#65;", "<?pi x?>", "<!-- -->1"][b % 5])
    return "\n".join(lines)


@st.composite
def malformed_doc(draw):
    c = draw(valid_doc())
    c["kind"] = draw(st.sampled_from(MAL_KINDS))
    c["picks"] = [draw(st.integers(0, 9999)) for _ in range(3)]
    c["opts"] = draw(st.sampled_from([[], ["--cov-band", "0"], ["--language", "cz"], ["--angular", "360"]]))
    return c


def oracle_malformed(c, stats):
    text = nm.gkf_text(c["net"])
    bad = malform(text, c["kind"], c["picks"])
    if bad is None or bad == text:
        stats.label("malformed.no_site")
        return []
    res = netrun.gama_local(bad, ["--algorithm", c["alg"]] + c["opts"], outputs=("xml", "text", "html", "octave"))
    if res["crash"] is not None:
        return ["malformed.crash: %s %s (%s)" % (res["crash"]["kind"], res["crash"]["frame"], c["kind"])]
    stats.label("malformed." + c["kind"])
    if not res["xml"]:
        # gama-local ends without an XML file only when it says why on the terminal
        if res["rc"] == 0 or not (res["stderr"] or res["stdout"] or "").strip():
            return ["malformed.silent: exit %s without results and without a message (%s)" % (res["rc"], c["kind"])]
        stats.label("malformed.refused_on_terminal")
        return []
    try:
        x = adjxml.parse_adjustment(res["xml"])
    except adjxml.NotWellFormed as e:
        return ["malformed.xml_not_well_formed: %s (%s)" % (e, c["kind"])]
    if "error" not in x:
        stats.label("malformed.accepted")
        return []
    E = x["error"]
    stats.label("malformed.refused", "malformed.refused.%s" % E["category"])
    if not any((d or "").strip() for d in E["descriptions"]):
        return ["malformed.empty_diagnostic: category %s (%s)" % (E["category"], c["kind"])]
    if E["category"] == "gamaLocalParserError":
        nlines = bad.count("\n") + 1
        if E["line"] is None or not (1 <= E["line"] <= nlines):
            return ["malformed.line: parser error '%s' names line %s of %d (%s)" % (E["descriptions"], E["line"], nlines, c["kind"])]
    return []


# ------------------------------------------------------------------ declared input encodings / --encoding of the text output

IN_ENC = {"utf-8": "utf-8", "iso-8859-2": "iso8859_2", "cp-1250": "cp1250", "windows-1250": "cp1250",
          "cp-1251": "cp1251", "windows-1251": "cp1251", "us-ascii": "ascii", "x-unknown-enc": "ascii"}
OUT_ENC = {"utf-8": "utf-8", "iso-8859-2": "iso8859_2", "iso-8859-2-flat": None, "cp-1250": "cp1250", "cp-1251": "cp1251"}


def repertoire(codec):
    """letters above 0x7f that the reference codec (Python) defines for a single-byte encoding"""
    out = []
    for b in range(0x80, 0x100):
        try:
            ch = bytes([b]).decode(codec)
        except UnicodeDecodeError:
            continue
        if ch.isalpha():
            out.append(ch)
    return out


REPERTOIRE = {k: repertoire(v) for k, v in IN_ENC.items() if v not in ("utf-8", "ascii")}
ENC_GKF = """<?xml version="1.0"%s?>
<gama-local xmlns="http://www.gnu.org/software/gama/gama-local">
<network><description>%s</description>
<points-observations>
<point id="%s" x="0" y="0" fix="xy"/><point id="B" x="100" y="0" fix="xy"/><point id="P" adj="xy"/>
<obs from="%s"><distance to="P" val="70.72" stdev="5"/><direction to="B" val="0" stdev="10"/><direction to="P" val="50.001" stdev="10"/></obs>
<obs from="B"><distance to="P" val="70.70" stdev="5"/><direction to="P" val="350.0" stdev="10"/><direction to="%s" val="0" stdev="10"/></obs>
</points-observations></network></gama-local>
"""


@st.composite
def enc_case(draw):
    enc = draw(st.sampled_from(sorted(IN_ENC)))
    ascii_words = st.text(alphabet="abcXYZ019", min_size=1, max_size=4)
    if enc in REPERTOIRE:
        hi = st.text(alphabet=REPERTOIRE[enc], min_size=1, max_size=6)
    elif enc == "utf-8":
        hi = st.text(alphabet=st.characters(min_codepoint=0x80, max_codepoint=0x2fff, whitelist_categories=("Lu", "Ll", "Lo")), min_size=1, max_size=6)
    else:
        hi = ascii_words
    words = draw(st.lists(st.one_of(hi, hi, ascii_words), min_size=1, max_size=4))
    pid = "A" + draw(hi)
    return {"enc": enc, "declare": draw(st.booleans()) if enc == "utf-8" else True, "words": words, "id": pid,
            "out": draw(st.sampled_from(sorted(OUT_ENC)))}


def oracle_encodings(c, stats):
    """The byte->character tables of the declared encodings and of --encoding are checked against the reference codecs:
    no sanitizer report (the tables are fixed-size arrays), the description and the point id arrive in the (UTF-8) XML
    output as written, and come out of the text output in the requested encoding when they are representable in it."""
    desc = " ".join(c["words"])
    decl = ' encoding="%s"' % c["enc"] if c["declare"] else ""
    doc = (ENC_GKF % (decl, desc, c["id"], c["id"], c["id"])).encode(IN_ENC[c["enc"]])
    stats.label("enc.in." + c["enc"], "enc.out." + c["out"])
    res = netrun.gama_local(doc, ["--encoding", c["out"]], outputs=("xml", "text"), raw=True)
    if res["crash"] is not None:
        return ["encoding.crash: %s %s (input %s, output %s)" % (res["crash"]["kind"], res["crash"]["frame"], c["enc"], c["out"])]
    fails = []
    try:
        x = adjxml.parse_adjustment((res["xml"] or b"").decode("utf-8"))
    except (adjxml.NotWellFormed, UnicodeDecodeError) as e:
        return ["encoding.xml_not_well_formed: %s (input %s)" % (e, c["enc"])]
    if "error" in x:
        return ["encoding.refused: %s" % x["error"]["descriptions"]]
    got = " ".join((x.get("description") or "").split())
    if got != desc:
        fails.append("encoding.decode: description declared %s read as %r, written %r" % (c["enc"], got, desc))
    ids = [a["id"] for k in ("fixed", "adjusted") for a in x["coordinates"][k]]
    if c["id"] not in ids:
        fails.append("encoding.decode_id: point id %r declared %s appears as %r" % (c["id"], c["enc"], ids))
    codec = OUT_ENC[c["out"]]
    if codec is not None and res["text"] is not None:
        try:
            want = desc.encode(codec)
        except UnicodeEncodeError:
            want = None
            stats.label("enc.out.not_representable")
        if want is not None:
            stats.label("enc.out.representable")
            if want not in res["text"]:
                fails.append("encoding.encode: description %r not found in the text output as %s bytes" % (desc, c["out"]))
    return fails

# ------------------------------------------------------------------ companion tools on damaged result files

def tools_case_strategy():
    from hypothesis import strategies as st

    @st.composite
    def tools_case(draw):
        return {"file": draw(st.integers(0, 10 ** 6)), "kind": draw(st.sampled_from(["truncate", "tag", "byte", "text", "dup", "intact", "bigint"])),
                "pos": draw(st.integers(0, 10 ** 6)), "val": draw(st.integers(0, 255)),
                "tool": draw(st.sampled_from(["compare-xyz", "gama-local-deformation"])), "second_intact": draw(st.booleans())}
    return tools_case()


def oracle_tools(c, stats):
    """compare-xyz and gama-local-deformation on a damaged adjustment-results file: a diagnostic and an exit status, never an
    abort (uncaught exception), a signal or a sanitizer report"""
    files = [f for f in adjres_files() if f.endswith(".xml")]
    if not files:
        return []
    f = files[c["file"] % len(files)]
    body = open(f, "rb").read()
    if b"gama-local-adjustment" not in body:
        return []
    k = c["pos"] % max(len(body), 1)
    if c["kind"] == "truncate":
        bad = body[:k]
    elif c["kind"] == "tag":
        j = body.find(b"<", k)
        bad = body if j < 0 else body[:j] + b"<bogus>1</bogus>" + body[j:]
    elif c["kind"] == "byte":
        bad = body[:k] + bytes([c["val"]]) + body[k + 1:]
    elif c["kind"] == "text":
        j = body.find(b">", k)
        bad = body if j < 0 else body[:j + 1] + b"x1e999" + body[j + 1:]
    elif c["kind"] == "dup":
        j = body.find(b"<point>", k)
        e = body.find(b"</point>", j)
        bad = body if j < 0 or e < 0 else body[:e + 8] + body[j:e + 8] + body[e + 8:]
    elif c["kind"] == "bigint":
        # an integer field beyond the range of int: the readers must refuse the file (a wrapped value is data that was not
        # supplied); 2^32 + v wraps to v exactly, so nothing else in the file looks inconsistent
        ms = list(re.finditer(rb"<(equations|unknowns|degrees-of-freedom|defect|dim|band|ind|count-xyz|count-xy|count-z)>(\d+)</\1>", body))
        if not ms:
            return []
        m = ms[c["pos"] % len(ms)]
        big = [2 ** 32, 2 ** 33, 3 * 2 ** 32, 2 ** 64, 10 ** 20][c["val"] % 5]
        bad = body[:m.start(2)] + str(int(m.group(2)) + big).encode() + body[m.end(2):]
    else:
        bad = body
    stats.label("tools." + c["kind"], "tools." + c["tool"])
    with netrun.TmpDir() as d:
        pa, pb = os.path.join(d, "a.xml"), os.path.join(d, "b.xml")
        open(pa, "wb").write(bad)
        open(pb, "wb").write(body if c["second_intact"] else bad)
        rc, out, err, crash = drv.run([build.exe(c["tool"]), pa, pb], timeout=60, cwd=d)
    if crash is not None:
        return ["tools.%s.%s: %s on a damaged results file (%s of %s at %d): %s" %
                (c["tool"], crash["kind"].split(":")[0], crash["kind"], c["kind"], os.path.basename(f), k, crash["frame"])]
    if c["kind"] == "bigint" and rc == 0:
        return ["tools.%s.bigint_accepted: exit 0 for %s with an integer field beyond int (%s)" %
                (c["tool"], os.path.basename(f), bad[m.start(1) - 1:m.start(2) + 24].decode("ascii", "replace"))]
    return []


PARTS = [
    Part("seeds", custom=run_seeds, n={"quick": 1, "thorough": 1}),
    Part("events", custom=run_events, n={"quick": 1, "thorough": 1}, workers=NCPU),
    Part("trunc", custom=run_trunc, n={"quick": 1, "thorough": 1}, workers=NCPU),
    Part("split", custom=run_split, n={"quick": 1, "thorough": 1}, workers=NCPU),
    Part("accept", strategy=valid_doc, oracle=oracle_accept, n={"quick": 300, "thorough": 6000},
         sample=lambda c: nm.gkf_text(c["net"])[:600]),
    Part("lexical", strategy=lexical_case, oracle=oracle_lexical, n={"quick": 800, "thorough": 12000},
         nontrivial=lambda c: True, sample=lambda c: lexical_variant(nm.gkf_text(c["net"]), c["ch"], c["flags"])[:700]),
    Part("malformed", strategy=malformed_doc, oracle=oracle_malformed, n={"quick": 3000, "thorough": 40000},
         nontrivial=lambda c: True,
         sample=lambda c: {"kind": c["kind"], "picks": c["picks"], "doc": (malform(nm.gkf_text(c["net"]), c["kind"], c["picks"]) or "")[:500]}),
    Part("seeds_data", custom=run_seeds_data, n={"quick": 1, "thorough": 1}),
    Part("fuzz_gkf", custom=run_fuzz_gkf, n={"quick": 1, "thorough": 1}),
    Part("fuzz_data", custom=run_fuzz_data, n={"quick": 1, "thorough": 1}),
    Part("fuzz_adjres", custom=run_fuzz_adjres, n={"quick": 1, "thorough": 1}),
    Part("encodings", strategy=enc_case, oracle=oracle_encodings, n={"quick": 1500, "thorough": 20000},
         nontrivial=lambda c: any(ord(ch) > 0x7f for ch in " ".join(c["words"]) + c["id"])),
    Part("tools", strategy=tools_case_strategy, oracle=oracle_tools, n={"quick": 1500, "thorough": 15000},
         nontrivial=lambda c: c["kind"] != "intact"),
]
PARTS_BY_NAME = {p.name: p for p in PARTS}
