"""C03 - reported cofactors are the true (generalised) inverse."""
import numpy as np

from .. import gen_linear
from ..lin_common import ALGS, reference, whitened_case, query, val, labels, nontrivial
from ..runner import Part

RULE = ("Rank-planted problems as in C01; for each algorithm ALL index pairs q_xx(i,j), q_bb(i,j) are read "
        "(GNU_gama::Adj on the original system and the AdjBase classes on the homogenised one) and checked: symmetric, "
        "eigenvalues >= -tol, N Q N = N, Q N Q = Q, Q equal to the numpy reference for the chosen regularisation subset, "
        "q_bb = A Q A' (Adj) resp. an idempotent projector with diagonal in [0,1] and trace = rank (homogenised). "
        "Part 'large' (and its relatives): graph-structured sparse problems with 10-40 unknowns and up to ~130 rows (connected components in random numbering, weighted difference / second-difference rows, anchored and floating components = exact defects 0..3, zero columns, covariance blocks up to dimension 10 with any band) through the same oracle. "
        "Network part: the <cov-mat> of the XML output equals m0^2 Q for several --cov-band values. "
        "Non-trivial = singular with subset, banded covariance, or n>=4 (elements outside the envelope exist); distinct by sha1.")
ASSUMPTIONS = ["numpy reference; tolerance 1e-8*cond^2*scale"]
REQUIRED_CLASSES = ["d>0", "band>0", "subset", "net.band<full", "net.band=full", "net.free", "net.fixed"]


def check_Q(tag, Q, R, stats):
    fails = []
    n = R.n
    kappa = R.cond / max(R.sg_ratio, 1e-3)
    sc = max(1.0, float(np.max(np.abs(R.Q))))
    tol = 1e-8 * kappa * kappa * sc
    e = float(np.max(np.abs(Q - Q.T))) if n else 0.0
    stats.ratio(tag + ".sym", e / tol)
    if e > tol:
        fails.append("%s.qxx_symmetry: %.3g" % (tag, e))
    e = float(np.max(np.abs(Q - R.Q))) if n else 0.0
    stats.ratio(tag + ".qxx", e / tol)
    if e > tol:
        i, j = np.unravel_index(np.argmax(np.abs(Q - R.Q)), Q.shape)
        fails.append("%s.qxx: |Q-Q*|=%.3g at (%d,%d) gama %.6g ref %.6g tol %.3g" %
                     (tag, e, i + 1, j + 1, Q[i, j], R.Q[i, j], tol))
    Qs = (Q + Q.T) / 2
    ev = np.linalg.eigvalsh(Qs) if n else np.array([0.0])
    if ev.min() < -tol:
        fails.append("%s.qxx_psd: min eigenvalue %.3g" % (tag, ev.min()))
    N = R.N
    sN = max(1.0, float(np.max(np.abs(N))))
    e = float(np.max(np.abs(N @ Q @ N - N)))
    t2 = 1e-8 * kappa * kappa * sN * max(1.0, sN * sc)
    stats.ratio(tag + ".NQN", e / t2)
    if e > t2:
        fails.append("%s.NQN: |NQN-N|=%.3g tol %.3g" % (tag, e, t2))
    e = float(np.max(np.abs(Q @ N @ Q - Q)))
    t3 = 1e-8 * kappa * kappa * sc * max(1.0, sN * sc)
    stats.ratio(tag + ".QNQ", e / t3)
    if e > t3:
        fails.append("%s.QNQ: |QNQ-Q|=%.3g tol %.3g" % (tag, e, t3))
    return fails


def oracle(case, stats):
    A, C, R = reference(case)
    if R is None or not R.resolving or R.sg_ratio < 0.05:
        stats.label("discarded_ambiguous")
        return []
    labels(case, R, stats)
    if case["n"] >= 4:
        stats.label("n>=4")
    fails = []
    kappa = R.cond / max(R.sg_ratio, 1e-3)
    # through Adj, original system
    res = query(case, "adj", ALGS, ["allqbb", "allqxx"] if case["m"] % 2 else ["allqxx", "allqbb"])
    for alg in ALGS:
        a = res[alg]
        tag = "adj." + alg
        if "crash" in a:
            fails.append("%s.crash: %s %s" % (tag, a["crash"]["kind"], a["crash"]["frame"]))
            continue
        Q, QB = val(a["allqxx"]), val(a["allqbb"])
        if Q is None or QB is None or not (np.all(np.isfinite(Q)) and np.all(np.isfinite(QB))):
            fails.append("%s.exception: %s" % (tag, str(a)[:300]))
            continue
        Q = Q.reshape(R.n, R.n)
        QB = QB.reshape(R.m, R.m)
        fails += check_Q(tag, Q, R, stats)
        sc = max(1.0, float(np.max(np.abs(R.AQA))))
        tol = 1e-8 * kappa * kappa * sc
        e = float(np.max(np.abs(QB - R.AQA)))
        stats.ratio(tag + ".qbb", e / tol)
        if e > tol:
            i, j = np.unravel_index(np.argmax(np.abs(QB - R.AQA)), QB.shape)
            fails.append("%s.qbb: |q_bb - A Q* A'|=%.3g at (%d,%d) gama %.6g ref %.6g" %
                         (tag, e, i + 1, j + 1, QB[i, j], R.AQA[i, j]))
    # AdjBase classes on the homogenised system: q_bb is the projector
    wc = whitened_case(case, R)
    res = query(wc, "raw", ["cholesky", "gso", "svd"], ["allqxx", "allqbb", "allqbx"])
    res.update(query(case, "raw", ["envelope"], ["allqxx", "allqbb"]))
    for alg in ALGS:
        a = res[alg]
        tag = "raw." + alg
        if "crash" in a:
            fails.append("%s.crash: %s %s" % (tag, a["crash"]["kind"], a["crash"]["frame"]))
            continue
        Q, QB = val(a["allqxx"]), val(a["allqbb"])
        if Q is None or QB is None or not (np.all(np.isfinite(Q)) and np.all(np.isfinite(QB))):
            fails.append("%s.exception: %s" % (tag, str(a)[:300]))
            continue
        Q = Q.reshape(R.n, R.n)
        QB = QB.reshape(R.m, R.m)
        fails += check_Q(tag, Q, R, stats)
        tol = 1e-8 * kappa * kappa
        e = float(np.max(np.abs(QB - R.Pproj)))
        stats.ratio(tag + ".projector", e / tol)
        if e > tol:
            fails.append("%s.qbb_projector: |q_bb - A A^+|=%.3g tol %.3g" % (tag, e, tol))
        e = float(np.max(np.abs(QB @ QB - QB)))
        if e > tol:
            fails.append("%s.qbb_idempotent: %.3g" % (tag, e))
        if "allqbx" in a:
            # mixed cofactors (adjusted observation, unknown) = A Q* on the homogenised system (AdjEnvelope documents q_bx
            # as not implemented)
            QX = val(a["allqbx"])
            if QX is None or not np.all(np.isfinite(QX)):
                fails.append("%s.qbx_exception: %s" % (tag, str(a["allqbx"])[:200]))
            else:
                QX = QX.reshape(R.m, R.n)
                Aw = np.array(wc["A"], float)
                ref = Aw @ R.Q
                tolx = 1e-8 * kappa * kappa * max(1.0, float(np.max(np.abs(ref))))
                e = float(np.max(np.abs(QX - ref)))
                stats.ratio(tag + ".qbx", e / tolx)
                if e > tolx:
                    i, j = np.unravel_index(np.argmax(np.abs(QX - ref)), QX.shape)
                    fails.append("%s.qbx: |q_bx - A Q*|=%.3g at (%d,%d) gama %.6g ref %.6g" % (tag, e, i + 1, j + 1, QX[i, j], ref[i, j]))
        dg = np.diag(QB)
        if dg.min() < -tol or dg.max() > 1 + tol:
            fails.append("%s.qbb_diag_range: [%.6g, %.6g]" % (tag, dg.min(), dg.max()))
        red = R.m - float(np.trace(QB))
        if abs(red - (R.m - R.n + R.d)) > tol * R.m:
            fails.append("%s.redundancy_sum: %.9g vs dof %d" % (tag, red, R.m - R.n + R.d))
    return fails


# ------------------------------------------------------------------ (b) network level: <cov-mat> of the XML output

def net_case_strategy():
    from hypothesis import strategies as st
    from .. import gen_net

    @st.composite
    def net_case(draw):
        free = draw(st.integers(0, 2)) == 0
        net = draw(gen_net.determined_network(noise=1, free=free))
        if not free and draw(st.booleans()):
            gen_net.add_mixed_points(draw, net)
        return {"net": net, "alg": draw(st.sampled_from(ALGS)), "band": draw(st.sampled_from([-1, 0, 1, 2, 3, 7, 1000]))}
    return net_case()


def oracle_network(c, stats):
    import math
    from .. import gen_net, netmodel as nm, netrun, netlin, adjxml
    from . import c20
    net, alg, band = c["net"], c["alg"], c["band"]
    if net.get("free"):
        if not c20.well_posed_free(net):
            stats.label("discarded_free_not_well_posed")
            return []
    elif not gen_net.is_determined(net):
        stats.label("discarded_not_determined")
        return []
    text = nm.gkf_text(net)
    args = ["--algorithm", alg] + ([] if band == -1 else ["--cov-band", str(band)])
    res = netrun.gama_local(text, args, outputs=("xml",))
    if res["crash"] is not None:
        return ["net.%s.crash: %s %s" % (alg, res["crash"]["kind"], res["crash"]["frame"])]
    try:
        x = adjxml.parse_adjustment(res["xml"] or "")
    except adjxml.NotWellFormed as e:
        return ["net.%s.xml: %s" % (alg, e)]
    if "error" in x:
        if net.get("free") and alg == "envelope":
            return ["net.envelope_free: well-posed free network refused by envelope"]
        return ["net.%s.refused: %s" % (alg, x["error"]["descriptions"])]
    dump, crash = netrun.net_driver(text, alg)
    if crash is not None or dump.get("stage") != "adjusted":
        return ["net.%s.driver: %s" % (alg, str(crash or dump)[:200])]
    A, b, C, minx, R = netlin.reference(dump)
    if R is None or not R.resolving or R.sg_ratio < 0.05:
        stats.label("discarded_ambiguous")
        return []
    if net.get("free") and alg == "envelope" and x["summary"]["defect"] != R.d:
        return ["net.envelope_free: envelope reports defect %d, numpy %d" % (x["summary"]["defect"], R.d)]
    if "cov" not in x or x["cov"]["dim"] == 0:
        stats.label("net.no_cov")
        return []
    S = x["summary"]
    m0 = S["aposteriori"] if S["used"] == "aposteriori" else S["apriori"]
    dim = x["cov"]["dim"]
    want_band = dim - 1 if band == -1 else min(band, dim - 1)
    fails = []
    stats.label("net.band=full" if want_band == dim - 1 else "net.band<full", "net.free" if net.get("free") else "net.fixed")
    if x["cov"]["band"] != want_band:
        fails.append("net.%s.band: printed band %d, requested %d with dimension %d" % (alg, x["cov"]["band"], band, dim))
        return fails
    M, used = adjxml.cov_band_matrix(x["cov"])
    if used != len(x["cov"]["flt"]):
        return ["net.%s.cov_count: %d elements printed, %d expected for dim %d band %d" % (alg, len(x["cov"]["flt"]), used, dim, want_band)]
    idx = x.get("original_index", [])
    if len(idx) != dim or sorted(set(idx)) != sorted(idx) or any(i < 1 or i > R.n for i in idx):
        return ["net.%s.original_index: %s for dimension %d, %d unknowns" % (alg, idx[:12], dim, R.n)]
    # rows: coordinates in the order of the <adjusted> list, then the orientations in the order of <orientation-shifts>
    exp_types = []
    for a in x["coordinates"]["adjusted"]:
        if "x" in a:
            exp_types += [("X", a["id"]), ("Y", a["id"])]
        if "z" in a:
            exp_types.append(("Z", a["id"]))
    exp_types += [("R", o["id"]) for o in x["orientations"]]
    got_types = [tuple(dump["unknowns"][i - 1]) for i in idx]
    if exp_types != got_types:
        return ["net.%s.original_index: rows are %s, the lists of the XML say %s" % (alg, got_types[:8], exp_types[:8])]
    ii = [i - 1 for i in idx]
    ref = m0 * m0 * R.Q[np.ix_(ii, ii)]
    kappa = R.cond / max(R.sg_ratio, 1e-3)
    worst = 0.0
    # rounding floor relative to the largest variance: an element that is zero by the datum (a constrained point on the
    # axis) next to a weakly determined coordinate (variance 3e4) carries noise of eps * scale, whatever the solver
    floor = 1e-12 + 1e-12 * float(np.max(np.abs(np.diag(ref)))) if dim else 1e-12
    for i in range(dim):
        for j in range(i, min(dim, i + want_band + 1)):
            t = (4e-7 + 1e-9 * kappa * kappa) * max(abs(ref[i, j]), math.sqrt(abs(ref[i, i] * ref[j, j]))) + floor
            worst = max(worst, abs(M[i, j] - ref[i, j]) / t)
            if abs(M[i, j] - ref[i, j]) > t:
                fails.append("net.%s.cov: element (%d,%d) printed %.9g, m0^2 Q* = %.9g (band %d)" % (alg, i + 1, j + 1, M[i, j], ref[i, j], want_band))
                return fails
    stats.ratio("net.cov", worst)
    return fails


PARTS = [
    Part("cofactors", strategy=lambda: gen_linear.linear_problem(), oracle=oracle,
         nontrivial=lambda c: nontrivial(c) or c["n"] >= 4, n={"quick": 4000, "thorough": 40000}),
    Part("large", strategy=lambda: gen_linear.graph_problem(max_n=32), oracle=oracle,
         nontrivial=lambda c: True, n={"quick": 300, "thorough": 5000},
         sample=lambda c: {"m": c["m"], "n": c["n"], "d": c["d"], "mode": c["mode"], "minx": c["minx"],
                           "bands": [b["width"] for b in c["blocks"]]}),
    Part("network", strategy=net_case_strategy, oracle=oracle_network, n={"quick": 2500, "thorough": 20000},
         nontrivial=lambda c: c["band"] != -1 or bool(c["net"].get("free")),
         sample=lambda c: {"alg": c["alg"], "band": c["band"], "free": bool(c["net"].get("free"))}),
]
