"""C03 - reported cofactors are the true (generalised) inverse."""
import numpy as np

from .. import gen_linear
from ..lin_common import ALGS, reference, whitened_case, query, val, labels, nontrivial
from ..runner import Part

RULE = ("Rank-planted problems as in C01; for each algorithm ALL index pairs q_xx(i,j), q_bb(i,j) are read "
        "(GNU_gama::Adj on the original system and the AdjBase classes on the homogenised one) and checked: symmetric, "
        "eigenvalues >= -tol, N Q N = N, Q N Q = Q, Q equal to the numpy reference for the chosen regularisation subset, "
        "q_bb = A Q A' (Adj) resp. an idempotent projector with diagonal in [0,1] and trace = rank (homogenised). "
        "Network part: the <cov-mat> of the XML output equals m0^2 Q for several --cov-band values. "
        "Non-trivial = singular with subset, banded covariance, or n>=4 (elements outside the envelope exist); distinct by sha1.")
ASSUMPTIONS = ["numpy reference; tolerance 1e-8*cond^2*scale"]
REQUIRED_CLASSES = ["d>0", "band>0", "subset"]


def check_Q(tag, Q, R, stats):
    fails = []
    n = R.n
    kappa = R.cond / max(R.sg_ratio, 1e-3)
    sc = max(1.0, float(np.max(np.abs(R.Q))))
    tol = 1e-8 * kappa * kappa * sc
    e = float(np.max(np.abs(Q - Q.T))) if n else 0.0
    stats.ratio(tag + ".sym", e / tol)
    if e > tol:
        fails.append("%s.qxx_symmetry: %.3g" % (tag, e))
    e = float(np.max(np.abs(Q - R.Q))) if n else 0.0
    stats.ratio(tag + ".qxx", e / tol)
    if e > tol:
        i, j = np.unravel_index(np.argmax(np.abs(Q - R.Q)), Q.shape)
        fails.append("%s.qxx: |Q-Q*|=%.3g at (%d,%d) gama %.6g ref %.6g tol %.3g" %
                     (tag, e, i + 1, j + 1, Q[i, j], R.Q[i, j], tol))
    Qs = (Q + Q.T) / 2
    ev = np.linalg.eigvalsh(Qs) if n else np.array([0.0])
    if ev.min() < -tol:
        fails.append("%s.qxx_psd: min eigenvalue %.3g" % (tag, ev.min()))
    N = R.N
    sN = max(1.0, float(np.max(np.abs(N))))
    e = float(np.max(np.abs(N @ Q @ N - N)))
    t2 = 1e-8 * kappa * kappa * sN * max(1.0, sN * sc)
    stats.ratio(tag + ".NQN", e / t2)
    if e > t2:
        fails.append("%s.NQN: |NQN-N|=%.3g tol %.3g" % (tag, e, t2))
    e = float(np.max(np.abs(Q @ N @ Q - Q)))
    t3 = 1e-8 * kappa * kappa * sc * max(1.0, sN * sc)
    stats.ratio(tag + ".QNQ", e / t3)
    if e > t3:
        fails.append("%s.QNQ: |QNQ-Q|=%.3g tol %.3g" % (tag, e, t3))
    return fails


def oracle(case, stats):
    A, C, R = reference(case)
    if R is None or not R.resolving or R.sg_ratio < 0.05:
        stats.label("discarded_ambiguous")
        return []
    labels(case, R, stats)
    if case["n"] >= 4:
        stats.label("n>=4")
    fails = []
    kappa = R.cond / max(R.sg_ratio, 1e-3)
    # through Adj, original system
    res = query(case, "adj", ALGS, ["allqbb", "allqxx"] if case["m"] % 2 else ["allqxx", "allqbb"])
    for alg in ALGS:
        a = res[alg]
        tag = "adj." + alg
        if "crash" in a:
            fails.append("%s.crash: %s %s" % (tag, a["crash"]["kind"], a["crash"]["frame"]))
            continue
        Q, QB = val(a["allqxx"]), val(a["allqbb"])
        if Q is None or QB is None or not (np.all(np.isfinite(Q)) and np.all(np.isfinite(QB))):
            fails.append("%s.exception: %s" % (tag, str(a)[:300]))
            continue
        Q = Q.reshape(R.n, R.n)
        QB = QB.reshape(R.m, R.m)
        fails += check_Q(tag, Q, R, stats)
        sc = max(1.0, float(np.max(np.abs(R.AQA))))
        tol = 1e-8 * kappa * kappa * sc
        e = float(np.max(np.abs(QB - R.AQA)))
        stats.ratio(tag + ".qbb", e / tol)
        if e > tol:
            i, j = np.unravel_index(np.argmax(np.abs(QB - R.AQA)), QB.shape)
            fails.append("%s.qbb: |q_bb - A Q* A'|=%.3g at (%d,%d) gama %.6g ref %.6g" %
                         (tag, e, i + 1, j + 1, QB[i, j], R.AQA[i, j]))
    # AdjBase classes on the homogenised system: q_bb is the projector
    wc = whitened_case(case, R)
    res = query(wc, "raw", ["cholesky", "gso", "svd"], ["allqxx", "allqbb"])
    res.update(query(case, "raw", ["envelope"], ["allqxx", "allqbb"]))
    for alg in ALGS:
        a = res[alg]
        tag = "raw." + alg
        if "crash" in a:
            fails.append("%s.crash: %s %s" % (tag, a["crash"]["kind"], a["crash"]["frame"]))
            continue
        Q, QB = val(a["allqxx"]), val(a["allqbb"])
        if Q is None or QB is None or not (np.all(np.isfinite(Q)) and np.all(np.isfinite(QB))):
            fails.append("%s.exception: %s" % (tag, str(a)[:300]))
            continue
        Q = Q.reshape(R.n, R.n)
        QB = QB.reshape(R.m, R.m)
        fails += check_Q(tag, Q, R, stats)
        tol = 1e-8 * kappa * kappa
        e = float(np.max(np.abs(QB - R.Pproj)))
        stats.ratio(tag + ".projector", e / tol)
        if e > tol:
            fails.append("%s.qbb_projector: |q_bb - A A^+|=%.3g tol %.3g" % (tag, e, tol))
        e = float(np.max(np.abs(QB @ QB - QB)))
        if e > tol:
            fails.append("%s.qbb_idempotent: %.3g" % (tag, e))
        dg = np.diag(QB)
        if dg.min() < -tol or dg.max() > 1 + tol:
            fails.append("%s.qbb_diag_range: [%.6g, %.6g]" % (tag, dg.min(), dg.max()))
        red = R.m - float(np.trace(QB))
        if abs(red - (R.m - R.n + R.d)) > tol * R.m:
            fails.append("%s.redundancy_sum: %.9g vs dof %d" % (tag, red, R.m - R.n + R.d))
    return fails


PARTS = [
    Part("cofactors", strategy=lambda: gen_linear.linear_problem(), oracle=oracle,
         nontrivial=lambda c: nontrivial(c) or c["n"] >= 4, n={"quick": 4000, "thorough": 40000}),
]
