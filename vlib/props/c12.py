"""C12 - the XML result is a faithful, well-formed serialisation of the adjustment."""
import copy
import json
import math
import os
import re

import numpy as np
from hypothesis import strategies as st

from .. import build, drv, gen_net, netmodel as nm, netrun, adjxml
from ..runner import Part

ALGS = ["envelope", "cholesky", "gso", "svd"]

RULE = ("Hypothesis generates noisy determined networks whose point identifiers, description and extern attributes contain XML "
        "special characters (& < > \" '), non-ASCII UTF-8 and long strings, with a generated --cov-band, angular output unit, "
        "language and encoding of the text output; the real gama-local writes XML, HTML, text and Octave results in one run. "
        "Checks: XML well-formed (Python expat) with identifiers read back exactly; gama's own reader "
        "(LocalNetworkAdjustmentResults::read_xml) equals my reader field by field; read_html of the HTML output agrees to HTML "
        "precision; text and Octave outputs carry the same adjusted coordinates and v'Pv; compare-xyz of a result with itself "
        "reports zero / Passed and of two epochs the plain coordinate differences; gama-local-deformation reports zero shifts "
        "for identical epochs and the coordinate differences with summed covariances for two. "
        "Non-trivial = an identifier/description with a non-alphanumeric character, or cov-band below dim-1; distinct by sha1.")
ASSUMPTIONS = ["identifiers are XML tokens (no leading/trailing/double white space); control characters are not generated",
               "HTML precision: coordinates 1e-5 m, observations 1e-5 / 1e-6, standard deviations 0.06 (one printed decimal)",
               "text / Octave layouts as written by the unchanged tree (read by small purpose-built readers)"]
REQUIRED_CLASSES = ["reader_big_integer", "special_ids", "non_ascii_ids", "cov_band_clipped", "html_checked", "octave_checked", "text_checked",
                    "comparexyz_two", "deformation_two", "deformation_cov", "epoch2_extra_point", "text_orientations", "mixed_dims"]

SPECIAL = ["A&B", "P<1", "x>y", 'q"t', "it's", "a&amp;b", "<&>", "T-1&2", "R'\"", "B&&", "1<2>3", "&lt;"]
UNI = ["Ž1", "bod č.7", "αβγ", "点A", "Ünï", "é", "ß", "Ω9", "Żółć", "Привет"]
PLAIN = ["A", "B1", "C_2", "D-3", "E.4", "101", "0007", "Pt", "s12", "N9", "K", "M5"]


@st.composite
def case(draw):
    free = draw(st.integers(0, 4)) == 0
    net = draw(gen_net.determined_network(noise=1, n_max=7, free=free))
    if free:
        gen_net.mix_constraints(draw, net)      # adj="XYz" / "xyZ": status of position and height differ
    mixed = gen_net.add_mixed_points(draw, net) if (draw(st.booleans()) and not free) else []
    if net["dims"] == "3d" and not free and draw(st.integers(0, 2)) == 0:
        # a point with fixed position and adjusted height (fix="xy" adj="z"): its rows in the tables differ from both kinds
        cand = [p for p in net["points"] if p["xy"] == "adj" and p["z"] == "adj"]
        if cand:
            q = draw(st.sampled_from(cand))
            q["xy"] = "fix"
            q["give_xy"] = True
            q["dE"] = q["dN"] = 0.0
            net["fixxy_adjz"] = True
    n = len(net["points"])
    style = draw(st.sampled_from(["special", "unicode", "mixed", "plain", "long"]))
    pool = {"special": SPECIAL, "unicode": UNI, "mixed": SPECIAL + UNI + PLAIN, "plain": PLAIN,
            "long": [("L%d_" % i) + "x" * draw(st.integers(20, 70)) + s for i, s in enumerate(SPECIAL[:6] + UNI[:6])]}[style]
    names = list(draw(st.permutations(pool)))[:n]
    while len(names) < n:
        names.append("Z%d" % len(names))
    idmap = {p["id"]: nm_ for p, nm_ in zip(net["points"], names)}
    for p in net["points"]:
        p["id"] = idmap[p["id"]]
    for cl in net["clusters"]:
        if cl.get("from") is not None:
            cl["from"] = idmap[cl["from"]]
        for o in cl["obs"]:
            for k in ("from", "to", "bs", "fs", "id"):
                if o.get(k) is not None:
                    o[k] = idmap[o[k]]
            if cl["k"] in ("obs", "hdiff") and draw(st.integers(0, 5)) == 0:
                o["extern"] = draw(st.sampled_from(["e1", "a&b", "x<y", 'say "hi"', "it's", "ž", "id 5"]))
    net["description"] = draw(st.sampled_from(["plain text", "a < b & c > d", "quotes \" and '", "čeština ěščřžýáíé",
                                               "multi\nline\ntext", "&amp; already escaped", "]]> cdata end", ""]))
    band = draw(st.sampled_from([-1, 0, 1, 2, 5, 100]))
    shift = [draw(st.integers(-50, 50)) / 1000.0, draw(st.integers(-50, 50)) / 1000.0, draw(st.integers(-50, 50)) / 1000.0]
    return {"net": net, "alg": draw(st.sampled_from(ALGS)), "band": band, "style": style,
            "angular": draw(st.sampled_from(["400", "360"])),
            "lang": draw(st.sampled_from(["en", "en", "en", "en", "cz", "fr", "ru", "zh", "hu"])),
            "enc": draw(st.sampled_from(["utf-8", "iso-8859-2", "cp-1250", "cp-1251"])),
            "shift": shift, "mixed": bool(mixed), "extra": draw(st.sampled_from([None, None, "first", "last"])),
            "reval": [draw(st.integers(0, 9999)), draw(st.integers(0, 9999))]}


INT_FIELD_RE = re.compile(r"<(count-xyz|count-xy|count-z|distances|directions|angles|xyz-coords|h-diffs|z-angles|s-dists|vectors|"
                          r"azimuths|equations|unknowns|degrees-of-freedom|defect|dim|band|ind)>(\d+)</\1>")
BIG = [2 ** 32, 2 ** 31, 2 ** 33, 3 * 2 ** 32, 2 ** 63, 2 ** 64, 10 ** 20]


def reader_big_integer(c, xml_bytes, d, stats):
    rv = c.get("reval")
    if not rv:
        return []
    text = xml_bytes.decode("utf-8", "replace")
    sites = list(INT_FIELD_RE.finditer(text))
    if not sites:
        return []
    m = sites[rv[0] % len(sites)]
    add = BIG[rv[1] % len(BIG)]
    if add == 2 ** 31 and int(m.group(2)) + add <= 2 ** 31 - 1:
        return []
    new = str(int(m.group(2)) + add)
    mod = text[:m.start(2)] + new + text[m.end(2):]
    p2 = os.path.join(d, "big.xml")
    with open(p2, "wb") as f:
        f.write(mod.encode("utf-8"))
    rc, out, err, crash = drv.run([build.exe("gdrv_res"), "xml", p2])
    if crash is not None:
        return ["reader.big_integer.crash: %s %s (<%s>%s)" % (crash["kind"], crash["frame"], m.group(1), new)]
    try:
        g = json.loads(out)
    except ValueError:
        return ["reader.big_integer.output: %s" % out[:200]]
    stats.label("reader_big_integer")
    if "exc" not in g:
        return ["reader.big_integer.accepted: <%s>%s</%s> does not fit an int and the reader accepts the file" % (m.group(1), new, m.group(1))]
    return []


def close(a, b, rel=1e-12, ab=0.0):
    return abs(a - b) <= rel * max(abs(a), abs(b)) + ab


def parse_octave(text):
    out = {}
    for m in re.finditer(r"^(\w+)\s*=\s*([-+0-9.eE]+);", text, re.M):
        out[m.group(1)] = float(m.group(2))
    m = re.search(r"^Points = \{(.*?)^\};", text, re.M | re.S)
    if m:
        out["Points"] = re.findall(r"'((?:[^']|'')*)'", m.group(1))
    m = re.search(r"^XYZ = \[(.*?)^\];", text, re.M | re.S)
    if m:
        out["XYZ"] = [[float(t) for t in line.replace(";", " ").split()] for line in m.group(1).strip().splitlines() if line.strip()]
    for name in ("Indexes", "Constrained"):
        m = re.search(r"^%s = \[(.*?)^\];" % name, text, re.M | re.S)
        if m:
            out[name] = [[int(t) for t in line.split()] for line in m.group(1).strip().splitlines() if line.strip()]
    return out


def oracle(c, stats):
    net = c["net"]
    if net.get("free"):
        from . import c20
        if not c20.well_posed_free(net):
            stats.label("discarded_free_not_well_posed")
            return []
        stats.label("free_network")
        if any(p["xy"] == "constr" and p["z"] == "adj" or p["xy"] == "adj" and p["z"] == "constr" for p in net["points"]):
            stats.label("free_network.mixed_constraints")
    elif not gen_net.is_determined(net):
        stats.label("discarded_not_determined")
        return []
    if net.get("fixxy_adjz"):
        stats.label("fixxy_adjz")
    ids = [p["id"] for p in net["points"]]
    if any(not i.isascii() for i in ids):
        stats.label("non_ascii_ids")
    if any(re.search(r"[&<>\"']", i) for i in ids):
        stats.label("special_ids")
    if c.get("mixed"):
        stats.label("mixed_dims")
    gkf = nm.gkf_text(net)
    args = ["--algorithm", c["alg"], "--angular", c["angular"], "--language", c["lang"]]
    if c["band"] != -1:
        args += ["--cov-band", str(c["band"])]
    res = netrun.gama_local(gkf, args + ["--encoding", c["enc"]], outputs=("xml", "html", "text", "octave"), raw=True)
    if res["crash"] is not None:
        return ["run.crash: %s %s" % (res["crash"]["kind"], res["crash"]["frame"])]
    fails = []
    xml_bytes = res["xml"] or b""
    try:
        x = adjxml.parse_adjustment(xml_bytes)
    except adjxml.NotWellFormed as e:
        return ["xml.not_well_formed: %s" % e]
    if "error" in x:
        stats.label("refused")
        return ["run.error: %s" % x["error"]["descriptions"]]
    # (1) identifiers read back exactly
    out_ids = set(a["id"] for k in ("fixed", "adjusted") for a in x["coordinates"][k])
    exp_ids = set(p["id"] for p in net["points"] if p["xy"] or p["z"])
    if out_ids != exp_ids:
        fails.append("xml.ids: written identifiers %s differ from the input %s" % (sorted(out_ids ^ exp_ids), ""))
    if (x["description"] or "").strip() != (net["description"] or "").strip():
        # the parser may normalise surrounding white space only
        fails.append("xml.description: %r read back as %r" % (net["description"], x["description"]))
    for o in x["observations"]:
        for k in ("from", "to", "left", "right", "id"):
            if k in o and o[k] not in exp_ids:
                fails.append("xml.obs_id: observation refers to unknown point %r" % o[k])
    # cov band clipping
    if "cov" in x:
        dim = x["cov"]["dim"]
        expb = dim - 1 if c["band"] == -1 else min(c["band"], dim - 1)
        if x["cov"]["band"] != max(expb, 0):
            fails.append("xml.cov_band: --cov-band %d, dim %d, printed band %d" % (c["band"], dim, x["cov"]["band"]))
        n_exp = sum(min(dim, i + x["cov"]["band"] + 1) - i for i in range(dim))
        if len(x["cov"]["flt"]) != n_exp:
            fails.append("xml.cov_count: %d elements for dim %d band %d" % (len(x["cov"]["flt"]), dim, x["cov"]["band"]))
        if c["band"] != -1 and c["band"] < dim - 1:
            stats.label("cov_band_clipped")
    if fails:
        return fails
    # (2) gama's own reader == my reader
    with netrun.TmpDir() as d:
        px = os.path.join(d, "r.xml")
        with open(px, "wb") as f:
            f.write(xml_bytes)
        rc, out, err, crash = drv.run([build.exe("gdrv_res"), "xml", px])
        if crash is not None:
            return ["reader.crash: %s %s" % (crash["kind"], crash["frame"])]
        try:
            g = json.loads(out)
        except ValueError:
            return ["reader.output: %s" % out[:200]]
        if "exc" in g:
            return ["reader.exception: gama's reader refuses gama's own XML: %s" % g]
        fails += compare_reader(x, g, "reader", exact=True, stats=stats)
        # (2b) an integer field that an int cannot hold: the reader must refuse the file, a wrapped value would be a number
        # that the file does not contain
        fails += reader_big_integer(c, xml_bytes, d, stats)
        # (3) HTML
        ph = os.path.join(d, "r.html")
        with open(ph, "wb") as f:
            f.write(res["html"] or b"")
        rc, out, err, crash = drv.run([build.exe("gdrv_res"), "html", ph])
        if crash is not None:
            fails.append("html.crash: %s %s" % (crash["kind"], crash["frame"]))
        else:
            try:
                h = json.loads(out)
            except ValueError:
                h = {"exc": "undecodable", "text": out[:200]}
            if "exc" in h and c["lang"] != "en" and "UNKNOWN OBSERVATION TYPE" in (str(h) + out):
                # known finding html.language_labels: the HTML reader recognises observation types by their
                # English labels only
                fails.append("html.language_labels: HTML written with --language %s is refused: %s" % (c["lang"], str(h)[:160]))
            elif "exc" in h:
                fails.append("html.exception: gama's HTML reader refuses gama's own HTML: %s" % str(h)[:300])
            else:
                special = any(re.search(r"[&<>\"']", p["id"]) for p in net["points"])
                hf = compare_reader(x, h, "html", exact=False, stats=stats, degrees=(c["angular"] == "360"))
                if special and hf:
                    # known finding html.entity_split_ids: HtmlParser handles every character-data callback as a
                    # whole table cell; expat reports entity references separately, so identifiers with XML special
                    # characters are read in pieces.  Only inputs with such identifiers are affected.
                    fails.append("html.entity_split_ids: " + hf[0])
                else:
                    stats.label("html_checked")
                    fails += hf
        # (4) tools
        fails += tools(c, x, px, d, stats)
    # text
    fails += check_text(c, x, res["text"] or b"", stats)
    # octave
    oc = parse_octave((res["octave"] or b"").decode("utf-8", "replace"))
    if "sum_of_squares" in oc:
        stats.label("octave_checked")
        if not close(oc["sum_of_squares"], x["summary"]["sum_of_squares"], 1e-5, 1e-12):   # 6 significant digits printed
            fails.append("octave.sum_of_squares: %r vs XML %r" % (oc["sum_of_squares"], x["summary"]["sum_of_squares"]))
        if oc.get("network_defect") != x["summary"]["defect"]:
            fails.append("octave.defect: %r vs %r" % (oc.get("network_defect"), x["summary"]["defect"]))
        if "Points" in oc and "XYZ" in oc and len(oc["Points"]) == len(oc["XYZ"]):
            adj = {a["id"]: a for a in x["coordinates"]["adjusted"]}
            for pid, row in zip(oc["Points"], oc["XYZ"]):
                pid = pid.replace("''", "'")
                a = adj.get(pid)
                if a is None:
                    fails.append("octave.point: %r not among the adjusted points of the XML" % pid)
                    continue
                vals = row[-3:]
                for k, v in zip(("x", "y", "z"), vals):
                    if k in a and abs(a[k] - v) > 1e-6 * max(1.0, abs(v)) * 1e-3 + 2e-6:
                        fails.append("octave.coordinates: %s %s = %r vs XML %r" % (pid, k, v, a[k]))
        # counts of coordinates by status, and the index matrices: which coordinates are unknowns, which are constrained
        for kind in ("adjusted", "constrained", "fixed"):
            for grp in ("xyz", "xy", "z"):
                key = "%s_%s" % (kind, grp)
                if key in oc and int(oc[key]) != x["summary"]["coords_" + kind][grp]:
                    fails.append("octave.count: %s = %d, XML %d" % (key, int(oc[key]), x["summary"]["coords_" + kind][grp]))
        if "Points" in oc and "Indexes" in oc and "Constrained" in oc and len(oc["Points"]) == len(oc["Indexes"]) == len(oc["Constrained"]):
            adj = {a["id"]: a for a in x["coordinates"]["adjusted"]}
            seen = []
            for pid, ind, con in zip(oc["Points"], oc["Indexes"], oc["Constrained"]):
                a = adj.get(pid.replace("''", "'"))
                if a is None or len(ind) != 3 or len(con) != 3:
                    continue
                has = [("x" in a), ("y" in a), ("z" in a)]
                if [i > 0 for i in ind] != has:
                    fails.append("octave.indexes: %s has unknowns %s, the XML lists %s" % (pid, ind, [k for k, h in zip("xyz", has) if h]))
                cons = set(a.get("constrained", []))
                want = [ind[k] if "xyz"[k] in cons else 0 for k in range(3)]
                if con != want:
                    fails.append("octave.constrained: %s Constrained row %s, expected %s (XML marks %s as constrained, Indexes %s)"
                                 % (pid, con, want, sorted(cons), ind))
                seen += [i for i in ind if i > 0]
            if len(seen) != len(set(seen)):
                fails.append("octave.indexes: an index of an unknown is used twice: %s" % sorted(seen))
    else:
        fails.append("octave.missing: no sum_of_squares in the Octave output")
    return fails


def compare_reader(x, g, tag, exact, stats, degrees=False):
    """x: my reading of the XML; g: gama's reader dump (of the XML if exact, else of the HTML)"""
    fails = []
    S, G = x["summary"], g["summary"]
    for k, gk in (("equations", "equations"), ("unknowns", "unknowns"), ("dof", "dof"), ("defect", "defect")):
        if S[k] != G[gk]:
            fails.append("%s.%s: %r vs %r" % (tag, k, S[k], G[gk]))
    for k in ("distances", "directions", "angles", "xyz-coords", "h-diffs", "z-angles", "s-dists", "vectors", "azimuths"):
        if S["obs"].get(k) != G[k.replace("-", "_")]:
            fails.append("%s.count_%s: %r vs %r" % (tag, k, S["obs"].get(k), G[k.replace("-", "_")]))
    rel = 1e-12 if exact else 2e-3
    for k in ("sum_of_squares", "apriori", "aposteriori"):
        if not close(S[k], G[k], rel if exact else 6e-3, 0 if exact else 6e-3):
            fails.append("%s.%s: %r vs %r" % (tag, k, S[k], G[k]))
    if (S["used"] == "aposteriori") != bool(G["using_aposteriori"]):
        fails.append("%s.used: %s vs %s" % (tag, S["used"], G["using_aposteriori"]))
    if exact:
        for k in ("probability", "ratio", "lower", "upper", "confidence_scale"):
            if not close(S[k.replace("-", "_")], G[k], 1e-12):
                fails.append("%s.%s: %r vs %r" % (tag, k, S[k], G[k]))
        if (x["description"] or "") != g["description"]:
            fails.append("%s.description: %r vs %r" % (tag, x["description"], g["description"]))
    # points
    for kind in ("fixed", "adjusted"):
        X = {a["id"]: a for a in x["coordinates"][kind]}
        Gp = {a["id"]: a for a in g[kind]}
        if set(X) != set(Gp):
            fails.append("%s.%s_points: %s vs %s" % (tag, kind, sorted(X), sorted(Gp)))
            continue
        for pid, a in X.items():
            b = Gp[pid]
            tolc = 0.0 if exact else 6e-6
            for k in ("x", "y", "z"):
                if k in a:
                    if not (b["hxy"] if k != "z" else b["hz"]):
                        fails.append("%s.%s_point_flags: %s lacks %s" % (tag, kind, pid, k))
                    elif abs(a[k] - b[k]) > tolc + 1e-15 * abs(a[k]):
                        fails.append("%s.%s_coordinates: %s %s %r vs %r" % (tag, kind, pid, k, a[k], b[k]))
            if kind == "adjusted" and exact:
                if sorted(a["constrained"]) != sorted((["x", "y"] if b["cxy"] else []) + (["z"] if b["cz"] else [])):
                    fails.append("%s.constrained_flags: %s %s vs cxy=%s cz=%s" % (tag, pid, a["constrained"], b["cxy"], b["cz"]))
    # observations
    if len(x["observations"]) != len(g["observations"]):
        fails.append("%s.observation_count: %d vs %d" % (tag, len(x["observations"]), len(g["observations"])))
    else:
        for o, p in zip(x["observations"], g["observations"]):
            if o["tag"] != p["tag"]:
                fails.append("%s.obs_tag: %s vs %s" % (tag, o["tag"], p["tag"]))
                break
            ids_o = (o.get("from", o.get("id", "")), o.get("to", ""), o.get("left", ""), o.get("right", ""))
            ids_p = (p["from"], p["to"], p["left"], p["right"])
            if ids_o != ids_p:
                fails.append("%s.obs_ids: %s vs %s" % (tag, ids_o, ids_p))
                break
            ang = o["tag"] in ("direction", "angle", "zenith-angle", "azimuth")
            if exact:
                for k in ("obs", "adj", "stdev", "qrr", "f"):
                    if not close(o[k], p[k], 1e-13, 1e-300):
                        fails.append("%s.obs_%s: %s %r vs %r" % (tag, k, o["tag"], o[k], p[k]))
                        break
            else:
                tv = 2e-6 if ang else 6e-6
                if degrees and ang:
                    tv = 2e-6      # seconds printed with 2 decimals = 3e-6 gon
                if abs(o["obs"] - p["obs"]) > tv * 3 or abs(o["adj"] - p["adj"]) > tv * 3:
                    fails.append("%s.obs_value: %s %r/%r vs %r/%r" % (tag, o["tag"], o["obs"], o["adj"], p["obs"], p["adj"]))
                    break
                ts = 0.06 if not (degrees and ang) else 0.06 / 0.324 + 0.01 * o["stdev"]
                stats.ratio(tag + ".stdev", abs(o["stdev"] - p["stdev"]) / ts)
                if abs(o["stdev"] - p["stdev"]) > ts:
                    fails.append("%s.obs_stdev: %s %s->%s XML %.4f, read from HTML %.4f" % (tag, o["tag"], ids_o[0], ids_o[1], o["stdev"], p["stdev"]))
                    break
    if exact and "cov" in x:
        if x["cov"]["dim"] != g["cov"]["dim"] or x["cov"]["band"] != g["cov"]["band"]:
            fails.append("%s.cov_shape: %s/%s vs %s/%s" % (tag, x["cov"]["dim"], x["cov"]["band"], g["cov"]["dim"], g["cov"]["band"]))
        elif len(x["cov"]["flt"]) != len(g["cov"]["flt"]) or any(not close(a, b, 1e-13) for a, b in zip(x["cov"]["flt"], g["cov"]["flt"])):
            fails.append("%s.cov_values: differ" % tag)
        gi = g["original_index"]
        if gi and gi[0] == -1:
            gi = gi[1:]          # the reader keeps a 1-based vector with a dummy element 0
        if x.get("original_index") != gi:
            fails.append("%s.original_index: %s vs %s" % (tag, x.get("original_index"), g["original_index"]))
        if len(x["orientations"]) != len(g["orientations"]):
            fails.append("%s.orientations: %d vs %d" % (tag, len(x["orientations"]), len(g["orientations"])))
        else:
            for a, b in zip(x["orientations"], g["orientations"]):
                if a["id"] != b["id"] or not close(a["approx"], b["approx"], 1e-13) or not close(a["adj"], b["adj"], 1e-13):
                    fails.append("%s.orientation: %s vs %s" % (tag, a, b))
    return fails


def check_text(c, x, text_bytes, stats):
    enc = {"utf-8": "utf-8", "iso-8859-2": "iso-8859-2", "cp-1250": "cp1250", "cp-1251": "cp1251"}[c["enc"]]
    text = text_bytes.decode(enc, "replace")
    fails = []
    m = re.search(r"\[pvv\]\s*:\s*([-+0-9.eE]+)", text)
    if not m:
        return ["text.pvv_missing: no [pvv] in the text output (language %s)" % c["lang"]]
    stats.label("text_checked")
    pvv = float(m.group(1))
    if not close(pvv, x["summary"]["sum_of_squares"], 2e-5, 1e-9):
        fails.append("text.pvv: %r vs XML %r" % (pvv, x["summary"]["sum_of_squares"]))
    # adjusted coordinates / heights (English layout only): rows "i  [x|y|z|point]  approximate correction adjusted sd ci"
    if c["lang"] != "en" or c["enc"] != "utf-8":
        return fails          # identifiers outside the 8-bit code page are transliterated: layout read only in utf-8
    vals = sorted(round(a[k], 5) for a in x["coordinates"]["adjusted"] for k in ("x", "y", "z") if k in a)
    found = []
    section = False
    for line in text.splitlines():
        if line.startswith("Adjusted coordinates") or line.startswith("Adjusted heights"):
            section = True
            continue
        if section and (line.startswith("Adjusted orientation") or line.startswith("Mean errors") or
                        line.startswith("Adjusted observations") or line.startswith("Residuals")):
            section = False
        if not section:
            continue
        mm = re.match(r"^\s*\d+\s+(.+?)\s+(-?\d+\.\d{5})\s+(-?\d+\.\d{5})\s+(-?\d+\.\d{5})\s+(-?\d+\.\d)\s+(-?\d+\.\d)\s*$", line)
        if mm:
            found.append(float(mm.group(4)))
    if found:
        found.sort()
        if len(found) != len(vals) or any(abs(a - b) > 1.1e-5 for a, b in zip(found, vals)):
            fails.append("text.coordinates: adjusted values of the text output %s differ from the XML %s" % (found[:6], vals[:6]))
    elif vals:
        fails.append("text.coordinates_missing: no adjusted coordinate lines recognised")
    # the table "Adjusted coordinates": every row belongs to the point whose identifier heads its block; constrained
    # coordinates carry an upper-case letter and '*'
    per = {}
    cur = None
    section = False
    for line in text.splitlines():
        if line.startswith("Adjusted coordinates"):
            section = True
            continue
        if section and (line.startswith("Adjusted orientation") or line.startswith("Mean errors") or
                        line.startswith("Adjusted observations") or line.startswith("Residuals") or line.startswith("Adjusted heights")):
            section = False
        if not section or not line.strip() or set(line.strip()) <= set("*=") or "approximate" in line or "[m]" in line:
            continue
        mm = re.match(r"^\s*\d+\s+([xyzXYZ])\s*(\*?)\s+(-?\d+\.\d{5})\s+(-?\d+\.\d{5})\s+(-?\d+\.\d{5})\s+(-?\d+\.\d)\s+(-?\d+\.\d)\s*$", line)
        if mm:
            if cur is None:
                fails.append("text.coordinate_rows: a coordinate row precedes any point identifier: %r" % line.strip()[:60])
                continue
            per.setdefault(cur, {})[mm.group(1).lower()] = (float(mm.group(5)), mm.group(1).isupper(), mm.group(2) == "*")
        else:
            cur = line.strip()
    if per:
        adjp = {a["id"]: a for a in x["coordinates"]["adjusted"]}
        for pid, a in adjp.items():
            rows = per.get(" ".join(pid.split()))
            want = {k: a[k] for k in ("x", "y", "z") if k in a}
            if rows is None:
                if any(ch in pid for ch in "\n\t") or pid != pid.strip():
                    continue
                fails.append("text.coordinate_rows: no block headed %r in the table of adjusted coordinates (blocks %s)" % (pid, sorted(per)[:6]))
                continue
            if set(rows) != set(want) or any(abs(rows[k][0] - want[k]) > 1.1e-5 for k in want):
                fails.append("text.coordinate_rows: block %r lists %s, the XML %s" % (pid, {k: v[0] for k, v in rows.items()}, want))
            cons = set(a.get("constrained", []))
            for k, (v, up, star) in rows.items():
                if (k in cons) != up or (k in cons) != star:
                    fails.append("text.constrained_mark: %r %s constrained=%s in the XML, text letter upper=%s star=%s" % (pid, k, k in cons, up, star))
    # adjusted orientation unknowns: rows "i standpoint approximate correction adjusted sd ci" [gon] (gons only)
    if c["angular"] == "400" and x["orientations"]:
        rows = []
        section = False
        for line in text.splitlines():
            if line.startswith("Adjusted orientation unknowns"):
                section = True
                continue
            if section and (line.startswith("Mean errors") or line.startswith("Adjusted observations") or line.startswith("Adjusted coordinates")
                            or line.startswith("Adjusted heights") or line.startswith("Residuals")):
                break
            if section:
                mm = re.match(r"^\s*\d+\s+(.+?)\s+(-?\d+\.\d{6})\s+(-?\d+\.\d{6})\s+(-?\d+\.\d{6})\s+(-?\d+\.\d)\s+(-?\d+\.\d)\s*$", line)
                if mm:
                    rows.append((float(mm.group(2)), float(mm.group(3)), float(mm.group(4))))
        if len(rows) != len(x["orientations"]):
            fails.append("text.orientations: %d rows in the text table, %d orientations in the XML" % (len(rows), len(x["orientations"])))
        else:
            stats.label("text_orientations")
            def dgon(a, b):
                return abs((a - b + 200.0) % 400.0 - 200.0)
            for (ap, co, ad), o in zip(rows, x["orientations"]):
                if dgon(ap, o["approx"]) > 1.1e-6 or dgon(ad, o["adj"]) > 1.1e-6:
                    fails.append("text.orientation: standpoint %s text approx/adjusted %.6f/%.6f, XML %.6f/%.6f" % (o["id"], ap, ad, o["approx"], o["adj"]))
                    break
                if dgon(ap + co, ad) > 2.1e-6:
                    fails.append("text.orientation_sum: approx %.6f + correction %.6f != adjusted %.6f" % (ap, co, ad))
                    break
    return fails


def tools(c, x, px, d, stats):
    fails = []
    # compare-xyz with itself
    rc, out, err, crash = drv.run([build.exe("compare-xyz"), px, px])
    if crash is not None:
        return ["comparexyz.crash: %s %s" % (crash["kind"], crash["frame"])]
    m = re.search(r"^max\s+([-+0-9.eE]+)\s+([-+0-9.eE]+)\s+([-+0-9.eE]+)", out, re.M)
    if rc != 0 or "Passed" not in out or not m or any(float(v) != 0.0 for v in m.groups()):
        fails.append("comparexyz.self: result compared with itself: rc %s output %r" % (rc, out[-200:]))
    # second epoch: the same network translated by a known shift
    net2 = copy.deepcopy(c["net"])
    sE, sN, sH = c["shift"]
    for p in net2["points"]:
        p["E"] += sE; p["N"] += sN; p["H"] += sH
    if c.get("extra"):
        # a point that exists only in the second epoch (its identifier sorts first or last): covariance indexes of
        # the common points differ between the epochs
        b0 = net2["points"][0]
        dims = net2["dims"]
        kind = {"2d": "xy", "3d": "xyz", "1d": "z"}[dims]
        q = {"id": "0000x" if c["extra"] == "first" else "zzzzx", "E": b0["E"] + 7.0, "N": b0["N"] + 3.0, "H": b0["H"] + 0.1,
             "xy": "adj" if "xy" in kind else None, "z": "adj" if "z" in kind else None, "give_xy": "xy" in kind, "give_z": "z" in kind}
        net2["points"].append(q)
        nn = len(kind)
        net2["clusters"].append({"k": "coords", "obs": [{"id": q["id"], "dims": kind, "e": [1.0] * nn}],
                                 "cov": {"band": 0, "C": (np.eye(nn) * 25.0).tolist()}})
        stats.label("epoch2_extra_point")
    args = ["--algorithm", c["alg"]]
    res2 = netrun.gama_local(nm.gkf_text(net2), args, raw=True)
    if res2["crash"] is not None or not res2["xml"]:
        return fails + ["tools.second_epoch_failed"]
    p2 = os.path.join(d, "r2.xml")
    with open(p2, "wb") as f:
        f.write(res2["xml"])
    try:
        x2 = adjxml.parse_adjustment(res2["xml"])
    except adjxml.NotWellFormed as e:
        return fails + ["tools.second_epoch_xml: %s" % e]
    if "error" in x2:
        return fails
    a1 = {a["id"]: a for a in x["coordinates"]["adjusted"]}
    a2 = {a["id"]: a for a in x2["coordinates"]["adjusted"]}
    dmax = [0.0, 0.0, 0.0]
    for pid in a1:
        for i, k in enumerate(("x", "y", "z")):
            if k in a1[pid] and pid in a2 and k in a2[pid]:
                dmax[i] = max(dmax[i], abs(a1[pid][k] - a2[pid][k]))
    rc, out, err, crash = drv.run([build.exe("compare-xyz"), px, p2])
    if crash is not None:
        return fails + ["comparexyz.crash: %s %s" % (crash["kind"], crash["frame"])]
    m = re.search(r"^max\s+([-+0-9.eE]+)\s+([-+0-9.eE]+)\s+([-+0-9.eE]+)", out, re.M)
    if m:
        stats.label("comparexyz_two")
        got = [abs(float(v)) for v in m.groups()]
        for i in range(3):
            if abs(got[i] - dmax[i]) > 1e-9 + 1e-12 * dmax[i]:
                fails.append("comparexyz.differences: reported max %s, plain coordinate differences %s" % (got, dmax))
                break
        passed = "Passed" in out
        if passed != (max(dmax) < 1e-5) and abs(max(dmax) - 1e-5) > 1e-8:
            fails.append("comparexyz.verdict: max difference %r, tolerance 1e-5, verdict %s" % (max(dmax), "Passed" if passed else "Failed"))
    else:
        fails.append("comparexyz.output: %r" % out[-200:])
    # deformation (needs full covariance matrices: band-limited results must be refused, not crash)
    full = ("cov" not in x) or x["cov"]["band"] >= x["cov"]["dim"] - 1
    if not full:
        rc, out, err, crash = drv.run([build.exe("gama-local-deformation"), px, px])
        if crash is not None:
            fails.append("deformation.crash: %s %s" % (crash["kind"], crash["frame"]))
        elif "####" not in err:
            fails.append("deformation.band: band-limited covariance accepted without a diagnostic")
        return fails
    for tag, pa, pb, xa, xb in (("self", px, px, x, x), ("two", px, p2, x, x2)):
        rc, out, err, crash = drv.run([build.exe("gama-local-deformation"), pa, pb])
        if crash is not None:
            fails.append("deformation.crash: %s %s" % (crash["kind"], crash["frame"]))
            continue
        rows = []
        for line in out.splitlines():
            mm = re.match(r"^(.*?)\s+(\d+)\s+(\d+)\s+(\d+)\s+(-?\d+\.\d+)\s+(-?\d+\.\d+)\s+(-?\d+\.\d+)\s+(-?\d+\.\d+)\s+(-?\d+\.\d+)\s+(-?\d+\.\d+)\s*$", line)
            if mm and not line.startswith("#"):
                rows.append((mm.group(1).strip(), [float(mm.group(i)) for i in (5, 6, 7)]))
        if not rows:
            if xa["coordinates"]["adjusted"]:
                fails.append("deformation.%s.output: no shift rows: %r" % (tag, out[:300]))
            continue
        if tag == "two":
            stats.label("deformation_two")
        A = {a["id"]: a for a in xa["coordinates"]["adjusted"]}
        Bp = {a["id"]: a for a in xb["coordinates"]["adjusted"]}
        for pid, sh in rows:
            if pid not in A or pid not in Bp:
                fails.append("deformation.%s.point: %r is not an adjusted point of both epochs" % (tag, pid))
                continue
            for i, k in enumerate(("x", "y", "z")):
                exp = (Bp[pid][k] - A[pid][k]) if (k in A[pid] and k in Bp[pid]) else 0.0
                if abs(sh[i] - exp) > 6e-6:
                    fails.append("deformation.%s.shift: %s %s reported %.5f, coordinate difference %.7f" % (tag, pid, k, sh[i], exp))
        fails += deformation_cov(tag, out, xa, xb, stats)
    return fails


def cov_positions(x):
    pos, where = 0, {}
    for a in x["coordinates"]["adjusted"]:
        if "x" in a:
            where[(a["id"], "x")] = pos; where[(a["id"], "y")] = pos + 1
            pos += 2
        if "z" in a:
            where[(a["id"], "z")] = pos
            pos += 1
    return where


def deformation_cov(tag, out, xa, xb, stats):
    """covariance matrix of the shifts = sum of the sub-matrices of the two epochs (read from their XML results)"""
    if "cov" not in xa or "cov" not in xb:
        return []
    lines = out.splitlines()
    try:
        k = next(i for i, l in enumerate(lines) if l.startswith("# deformation covariance matrix"))
    except StopIteration:
        return ["deformation.%s.cov_missing: no covariance matrix in the output" % tag]
    body = [l for l in lines[k + 1:] if l.strip()]
    if not body:
        return ["deformation.%s.cov_missing: empty" % tag]
    try:
        dim, band = [int(t) for t in body[0].split()[:2]]
        vals = [float(t) for l in body[1:] for t in l.split()]
    except ValueError:
        return ["deformation.%s.cov_syntax: %r" % (tag, body[:2])]
    S = np.zeros((dim, dim))
    kk = 0
    for i in range(dim):
        for j in range(i, min(dim, i + band + 1)):
            if kk >= len(vals):
                return ["deformation.%s.cov_count: %d values for dim %d band %d" % (tag, len(vals), dim, band)]
            S[i, j] = S[j, i] = vals[kk]
            kk += 1
    # rows of the shift table carry the indexes into this matrix
    idx = {}
    for line in lines:
        mm = re.match(r"^(.*?)\s+(\d+)\s+(\d+)\s+(\d+)\s+(-?\d+\.\d+)\s+(-?\d+\.\d+)\s+(-?\d+\.\d+)\s+(-?\d+\.\d+)\s+(-?\d+\.\d+)\s+(-?\d+\.\d+)\s*$", line)
        if mm and not line.startswith("#"):
            pid = mm.group(1).strip()
            for comp, g in zip(("x", "y", "z"), (2, 3, 4)):
                if int(mm.group(g)):
                    idx[(pid, comp)] = int(mm.group(g)) - 1
    Ma, _ = adjxml.cov_band_matrix(xa["cov"])
    Mb, _ = adjxml.cov_band_matrix(xb["cov"])
    wa, wb = cov_positions(xa), cov_positions(xb)
    keys = sorted(idx, key=lambda k_: idx[k_])
    if any(k_ not in wa or k_ not in wb for k_ in keys):
        return ["deformation.%s.cov_index: component listed that is not adjusted in both epochs" % tag]
    if sorted(idx.values()) != list(range(dim)):
        return ["deformation.%s.cov_index: indexes %s for a matrix of dimension %d" % (tag, sorted(idx.values()), dim)]
    stats.label("deformation_cov")
    for k1 in keys:
        for k2 in keys:
            exp = Ma[wa[k1], wa[k2]] + Mb[wb[k1], wb[k2]]
            got = S[idx[k1], idx[k2]]
            if abs(got - exp) > 2e-5 * max(abs(exp), math.sqrt(abs((Ma[wa[k1], wa[k1]] + Mb[wb[k1], wb[k1]]) * (Ma[wa[k2], wa[k2]] + Mb[wb[k2], wb[k2]])))) + 1e-5:
                return ["deformation.%s.cov: cov(%s %s, %s %s) reported %.6g, sum of the two epochs %.6g" % (tag, k1[0], k1[1], k2[0], k2[1], got, exp)]
    return []


def nontrivial(c):
    return c["style"] != "plain" or c["band"] in (0, 1, 2)


PARTS = [
    Part("serialisation", strategy=case, oracle=oracle, nontrivial=nontrivial, n={"quick": 4000, "thorough": 15000},
         sample=lambda c: {"alg": c["alg"], "band": c["band"], "lang": c["lang"], "enc": c["enc"],
                           "ids": [p["id"] for p in c["net"]["points"]], "description": c["net"]["description"]}),
]
