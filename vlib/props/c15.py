"""C15 - the dense matrix library (lib/matvec) obeys the algebra it implements."""
import itertools

import numpy as np
from hypothesis import strategies as st

from .. import drv
from ..runner import Part

RULE = ("Part 'machine': Hypothesis draws a sequence of 6..22 macro operations over ten registers holding Mat, TransMat, "
        "SymMat, CovMat, BandMat, Vec, TransVec (dimensions 0..5, band widths 0..dim-1, values small integers / tenths, "
        "planted positive-definite, singular, rank-deficient and near-singular matrices); every macro expands to driver "
        "commands (construct, copy, assign, move, reset, reset(r,c), set_*, element get/set, + - * in every overload the "
        "headers define, scalar * *= /=, trans, inv/invert, cholDec/solve of SymMat/CovMat/BandMat, invBand, triDiag, "
        "eigenVal, SVD (+reset), SVD::solve, q_xx, pinv, GSO, dot/norms, stream write->read); about one binary operation "
        "in four gets operands that do not conform.  The whole list runs in ONE driver process; after EVERY command all "
        "live registers are dumped and compared with a numpy model (exact for copies/assignments/element-wise operations, "
        "condition-number based tolerances for products and decompositions, whose results are verified against their "
        "definition and then adopted by the model).  Non-trivial = the sequence contains an assignment/move/read between "
        "objects of different sizes or a non-conforming operation (as executed, judged by the model); distinct by sha1 of "
        "the command list.  Part 'exhaustive': ALL matrices over {-1,0,1} of every shape up to 3x3 (21297) and all 2x2 "
        "matrices over {-2..2} (625) through inv, SVD and pinv (complete enumeration; the 'exhaustive' flag refers to "
        "this part); non-trivial = non-zero matrix.")
ASSUMPTIONS = ["numpy/LAPACK (float64) is the reference for condition numbers, inverses, eigenvalues and pseudo-inverses",
               "contents after a constructor with dimensions only, after reset(r,c) and of a moved-from object are "
               "unspecified: only dimensions and storage size are compared until the object is written again",
               "band widths are 0..dim-1 (CovMat's storage formula is undefined beyond); element indices are inside the object",
               "SymMat::invert and the Cholesky factorisations are only required to succeed for positive definite input "
               "with cond <= 1e6; Mat::invert for cond <= 1e6; otherwise an exception or a correct result is accepted",
               "memory leaks are outside the statement (MemRep::operator= leaks the old buffer on a size change)"]
EXHAUSTIVE = True
REQUIRED_CLASSES = ["assign_diff_size", "nonconforming", "band>0", "moved", "resize", "dim0", "inv_wellcond",
                    "inv_singular", "chol_pd", "svd_rank_deficient", "svd_wide", "pinv_checked", "io", "exh_inv_singular"]

EPS = 2.220446049250313e-16
NREG = 10
MATK = ("mat", "tmat", "sym", "cov", "band")
VECK = ("vec", "tvec")


# ---------------------------------------------------------------------------------------------
# model
# ---------------------------------------------------------------------------------------------

def tofloat(x):
    if isinstance(x, str):
        return {"nan": np.nan, "inf": np.inf, "-inf": -np.inf}[x]
    return float(x)


def arr(v, shape):
    a = np.array([tofloat(x) for x in (itertools.chain.from_iterable(v) if (v and isinstance(v[0], list)) else v)],
                 dtype=float)
    return a.reshape(shape)


class Reg:
    """kind, r, c (None for vectors), w (band width or -1), val: ndarray, NaN = unspecified content"""
    __slots__ = ("kind", "r", "c", "w", "val", "moved")

    def __init__(self, kind, r, c=None, w=-1, val=None):
        self.kind, self.r, self.c, self.w = kind, int(r), (None if c is None else int(c)), int(w)
        self.moved = False
        if val is None:
            val = np.full(self.shape(), np.nan)
        self.val = np.array(val, dtype=float).reshape(self.shape())

    def shape(self):
        return (self.r,) if self.kind in VECK else (self.r, self.c)

    def copy(self):
        return Reg(self.kind, self.r, self.c, self.w, self.val.copy())

    def ismat(self):
        return self.kind in MATK

    def storage(self):
        k = self.kind
        if k in ("mat", "tmat"):
            return self.r * self.c
        if k == "sym":
            return self.r * (self.r + 1) // 2
        if k == "cov":
            return self.r * (self.w + 1) - self.w * (self.w + 1) // 2
        if k == "band":
            return self.r * (self.w + 1)
        return self.r

    def defined(self):
        """every element specified and finite (decompositions are only judged on such input)"""
        return bool(np.all(np.isfinite(self.val)))

    def specified(self):
        return not np.isnan(self.val).any()

    def desc(self):
        return "%s%s%s" % (self.kind, list(self.shape()), "" if self.w < 0 else "w%d" % self.w)


def band_mask(n, w):
    i, j = np.indices((n, n))
    return np.abs(i - j) <= w


def from_stored(kind, a, b, vals):
    """dense content from the values written by 'newv' (same order as the driver)"""
    v = [float(x) for x in vals]
    if kind in ("mat", "tmat"):
        return Reg(kind, a, b, -1, np.array(v).reshape(a, b))
    if kind in VECK:
        return Reg(kind, a, None, -1, np.array(v))
    M = np.zeros((a, a))
    k = 0
    if kind == "sym":
        for i in range(a):
            for j in range(i + 1):
                M[i, j] = M[j, i] = v[k]; k += 1
        return Reg("sym", a, a, -1, M)
    for i in range(a):
        for j in range(i, min(a, i + b + 1)):
            M[i, j] = M[j, i] = v[k]; k += 1
    return Reg(kind, a, a, b, M)


def nstored(kind, a, b):
    if kind in ("mat", "tmat"):
        return a * b
    if kind in VECK:
        return a
    if kind == "sym":
        return a * (a + 1) // 2
    return a * (b + 1) - b * (b + 1) // 2


def reg_from_dump(d):
    k = d["k"]
    if k in VECK:
        return Reg(k, d["r"], None, -1, arr(d["v"], (d["r"],)))
    return Reg(k, d["r"], d["c"], d["w"], arr(d["v"], (d["r"], d["c"])))


def same_values(model_val, actual_val):
    """exact comparison where the model is specified (NaN in the model = unspecified)"""
    m = ~np.isnan(model_val)
    if not m.any():
        return True
    return bool(np.array_equal(model_val[m], actual_val[m]))


def compare_state(model, dump):
    """every live register against the driver's dumpall; returns list of texts"""
    out = []
    regs = dump.get("regs", {})
    for i in range(NREG):
        mr = model[i]
        d = regs.get(str(i))
        if mr is None and d is None:
            continue
        if mr is None or d is None:
            out.append("r%d: model %s, driver %s" % (i, mr.desc() if mr else "empty", d["k"] if d else "empty"))
            continue
        ar = reg_from_dump(d)
        if mr.moved:
            # a moved-from object is valid but unspecified: unchanged or empty, and consistent
            ok_same = (ar.kind, ar.r, ar.c, ar.w) == (mr.kind, mr.r, mr.c, mr.w) and same_values(mr.val, ar.val)
            ok_empty = ar.kind == mr.kind and ar.r == 0 and (ar.c in (None, 0))
            if not (ok_same or ok_empty) or d["n"] != ar.storage():
                out.append("r%d: moved-from %s is now %s with %d stored values" % (i, mr.desc(), ar.desc(), d["n"]))
            model[i] = ar
            continue
        if (ar.kind, ar.r, ar.c, ar.w) != (mr.kind, mr.r, mr.c, mr.w):
            out.append("r%d: model %s, driver %s" % (i, mr.desc(), ar.desc()))
            continue
        if d["n"] != mr.storage():
            out.append("r%d: %s stores %d values, expected %d" % (i, mr.desc(), d["n"], mr.storage()))
            continue
        if "dim" in d and d["dim"] != mr.r:
            out.append("r%d: dim() %d but rows() %d" % (i, d["dim"], mr.r))
            continue
        if not same_values(mr.val, ar.val):
            m = ~np.isnan(mr.val)
            bad = np.argwhere(m & ~(mr.val == ar.val))
            idx = tuple(int(x) for x in bad[0])
            out.append("r%d: %s element %s is %r, model %r" % (i, mr.desc(), [x + 1 for x in idx],
                                                              float(ar.val[idx]), float(mr.val[idx])))
    return out


def adopt_all(model, dump):
    regs = dump.get("regs", {})
    for i in range(NREG):
        d = regs.get(str(i))
        model[i] = reg_from_dump(d) if d else None


# ---------------------------------------------------------------------------------------------
# numeric helpers
# ---------------------------------------------------------------------------------------------

def amax(a):
    a = np.asarray(a)
    return float(np.max(np.abs(a))) if a.size else 0.0


def svals(A):
    if min(A.shape) == 0:
        return np.zeros(0)
    return np.linalg.svd(A, compute_uv=False)


def cond2(A):
    s = svals(A)
    if s.size == 0:
        return 1.0
    if s[-1] == 0:
        return np.inf
    return float(s[0] / s[-1])


def rank_info(A):
    """(rank, kappa = s1/s_rank, unambiguous)"""
    s = svals(A)
    if s.size == 0 or s[0] == 0:
        return 0, 1.0, True
    rel = s / s[0]
    r = int(np.sum(rel > 1e-6))
    unamb = bool(np.all((rel > 1e-6) | (rel < 1e-13)))
    return r, float(s[0] / s[r - 1]), unamb


def pd_info(A):
    """('pd', kappa) | ('psd', kappa_of_nonzero_part) | ('indef', None) | ('amb', None) for a symmetric matrix"""
    if A.shape[0] == 0:
        return "pd", 1.0
    ev = np.linalg.eigvalsh(A)
    mx = max(abs(ev[0]), abs(ev[-1]))
    if mx == 0:
        return "psd", 1.0
    if ev[0] > 1e-6 * mx:
        return "pd", float(ev[-1] / ev[0])
    if ev[0] < -1e-6 * mx:
        return "indef", None
    rel = ev / mx
    if np.all((rel > 1e-6) | (np.abs(rel) < 1e-13)):
        nz = ev[rel > 1e-6]
        return "psd", float(nz[-1] / nz[0])
    return "amb", None


def prod_tol(A, B):
    K = A.shape[-1]
    return 32 * EPS * (K + 2) * (np.abs(A) @ np.abs(B)) + 1e-300


def ldl_parts(val):
    """content of a factorised CovMat/BandMat read as L D L' (unit lower L)"""
    n = val.shape[0]
    D = np.diag(val).copy()
    L = np.tril(val, -1) + np.eye(n)
    return L, D


# Tags of genuine defects of lib/matvec found by this check on the unchanged tree (one tag per root
# cause, whatever the symptom: wrong value, wrong dimensions, sanitizer report).  Everything else is
# tagged <operation>.<operand kinds>.<symptom>.
DEFECTS = {
    "tmat.sum_tmat":           "TransMat +/- TransMat of non-square operands (transmat.h: TransMat(r,c) swaps its arguments)",
    "tvec.mul_matbase":        "TransVec * MatBase generic overload loops to A.cols() instead of A.rows() (transvec.h)",
    "tmat.mul_tmat":           "TransMat * TransMat with a non-square right operand strides by B.cols() instead of B.rows() (transmat.h)",
    "vec.mul_tmat":            "Vec * TransMat reads outside its operands / returns A*b of the wrong dimension (transmat.h)",
    "sym.mul_sym":             "SymMat * SymMat returns a SymMat: the product of non-commuting matrices is not symmetric",
    "band.eigenval_band0":     "BandMat::eigenVal with band width 0 reads past the storage (bandmat.h)",
    "nonconf.covmat_mul_vec":  "CovMat::operator*(Vec) has no dimension check",
    "nonconf.bandmat_mul_vec": "BandMat::operator*(Vec) has no dimension check",
    "nonconf.symmat_solve":    "SymMat::solve has no dimension check",
    "nonconf.covmat_solve":    "CovMat::solve has no dimension check",
    "nonconf.bandmat_solve":   "BandMat::solve has no dimension check",
    "nonconf.svd_solve":       "SVD::solve has no dimension check of rhs",
}


def T(tag, what):
    return tag if tag in DEFECTS else tag + "." + what


def arith_tag(op, a, b):
    """tag of a binary operation; the defect tag when operands are exactly in the domain of a known defect"""
    if op in ("add", "sub") and a.kind == "tmat" and b.kind == "tmat" and a.shape() == b.shape() and a.r != a.c:
        return "tmat.sum_tmat"
    if op in ("mul", "mulb"):
        if a.kind == "tvec" and b.ismat() and (op == "mulb" or b.kind != "mat") and a.r == b.r and b.r != b.c:
            return "tvec.mul_matbase"
        if op == "mul" and a.kind == "tmat" and b.kind == "tmat" and a.c == b.r and b.r != b.c:
            return "tmat.mul_tmat"
        if op == "mul" and a.kind == "vec" and b.kind == "tmat" and a.r == b.r:
            return "vec.mul_tmat"
        if op == "mul" and a.kind == "sym" and b.kind == "sym" and a.r == b.r:
            return "sym.mul_sym"
        if op == "mul" and a.kind in ("cov", "band") and b.kind == "vec" and a.c != b.r:
            return "nonconf.%smat_mul_vec" % a.kind
    return kinds_tag(op, a, b)


class Ctx:
    def __init__(self, model, stats):
        self.model, self.stats = model, stats
        self.fails = []
        self.flags = set()

    def fail(self, tag, text):
        self.fails.append("%s: %s" % (tag, text))

    def ratio(self, name, err, tol):
        # worst ratio over PASSING comparisons (violations are reported on their own)
        if name and tol > 0 and np.isfinite(err) and err <= tol:
            self.stats.ratio(name, err / tol)


def is_exc(ans, code=None):
    if "exc" not in ans:
        return False
    return code is None or ans.get("code") == code


def need_exc(ctx, ans, tag, code=0, conf=True):
    """a non-conforming request (conf) or an operation the class does not implement:
    Exception::matvec is the only acceptable answer"""
    if conf:
        ctx.flags.add("nonconforming")
        ctx.stats.label("nonconforming", "nonconf:" + tag)
    if "exc" in ans:
        if ans.get("exc") != "matvec":
            ctx.fail(T(tag, "nonconf"), "answered %s instead of Exception::matvec" % ans)
        elif code is not None and ans.get("code") != code:
            ctx.fail(T(tag, "exc_code"), "Exception::matvec code %s, expected %d" % (ans.get("code"), code))
        return
    ctx.fail(T(tag, "nonconf"), "non-conforming operands accepted silently (%s)" % str(ans)[:80])


def no_exc(ctx, ans, tag):
    if "exc" in ans:
        ctx.fail(T(tag, "exc"), "unexpected %s" % str(ans)[:160])
        return False
    return True


def install(ctx, d, exp, post, tag, tol=None, name=None):
    """result register d: compare the driver's object with the expectation, then let the model adopt it"""
    act = post.get(d)
    if act is None or (act.kind, act.r, act.c, act.w) != (exp.kind, exp.r, exp.c, exp.w):
        ctx.fail(T(tag, "dims"), "result is %s, expected %s" % (act.desc() if act else "missing", exp.desc()))
        return False
    known = ~np.isnan(exp.val)
    if tol is None:
        if not same_values(exp.val, act.val):
            bad = np.argwhere(known & ~(exp.val == act.val))[0]
            ctx.fail(T(tag, "value"), "element %s is %r, expected exactly %r" %
                     ([int(x) + 1 for x in bad], float(act.val[tuple(bad)]), float(exp.val[tuple(bad)])))
            return False
        ctx.model[d] = exp
        return True
    t = np.broadcast_to(np.asarray(tol, dtype=float), exp.val.shape)
    okv = True
    if known.any():
        with np.errstate(invalid="ignore"):
            err = np.abs(act.val - exp.val)
        err = np.where(known, err, 0.0)
        # an infinite expectation (overflow, division by zero) must be met exactly
        err = np.where(known & ~np.isfinite(exp.val), np.where(act.val == exp.val, 0.0, np.inf), err)
        err = np.where(np.isnan(err), np.inf, err)
        with np.errstate(all="ignore"):
            rat = np.where(known, err / t, 0.0)
        rat = np.where(np.isnan(rat), 0.0, rat)
        worst = float(np.max(rat))
        if name and worst <= 1.0:
            ctx.stats.ratio(name, worst)
        if worst > 1.0:
            idx = np.unravel_index(int(np.argmax(rat)), rat.shape)
            ctx.fail(T(tag, "value"), "element %s is %.17g, expected %.17g (error %.3g, tolerance %.3g)" %
                     ([int(x) + 1 for x in idx], float(act.val[idx]), float(exp.val[idx]), float(err[idx]), float(t[idx])))
            okv = False
    new = act.copy()
    new.val = np.where(known, act.val, np.nan)
    ctx.model[d] = new
    return okv


def adopt(ctx, d, post, like=None, unspecified=False):
    """take the driver's object as the new model state (after it was verified by other means, or when nothing is claimed)"""
    act = post.get(d)
    if act is None:
        ctx.model[d] = None
        return None
    new = act.copy()
    if unspecified:
        new.val = np.full(new.shape(), np.nan)
    ctx.model[d] = new
    return new


# ---------------------------------------------------------------------------------------------
# one command: expectation, verdict, model update
# ---------------------------------------------------------------------------------------------

def kinds_tag(op, *regs):
    return ".".join([op] + [r.kind for r in regs])


def step_basic(ctx, cmd, ans, post):
    """construction, copies, resets, fills, elements, scalar scaling; returns True when handled"""
    M, op = ctx.model, cmd[0]
    if op == "new":
        kind, d, a, b = cmd[1], cmd[2], cmd[3], cmd[4]
        no_exc(ctx, ans, "new." + kind)
        M[d] = Reg(kind, a, None if kind in VECK else (a if kind in ("sym", "cov", "band") else b),
                   b if kind in ("cov", "band") else -1)
        if a == 0 or (kind in ("mat", "tmat") and b == 0):
            ctx.stats.label("dim0")
        return True
    if op == "newv":
        kind, d, a, b, vals = cmd[1], cmd[2], cmd[3], cmd[4], cmd[5]
        no_exc(ctx, ans, "newv." + kind)
        M[d] = from_stored(kind, a, b, vals)
        if M[d].val.size == 0:
            ctx.stats.label("dim0")
        if kind in ("cov", "band") and b > 0:
            ctx.stats.label("band>0")
        return True
    if op == "del":
        M[cmd[1]] = None
        return True
    if op in ("copy", "movec"):
        d, s = cmd[1], cmd[2]
        if no_exc(ctx, ans, kinds_tag(op, M[s])):
            M[d] = M[s].copy()
            if op == "movec":
                M[s].moved = True
                ctx.stats.label("moved")
        return True
    if op in ("assign", "move"):
        d, s = cmd[1], cmd[2]
        tag = kinds_tag(op, M[s])
        if no_exc(ctx, ans, tag):
            if d != s:
                if M[d].shape() != M[s].shape() or M[d].w != M[s].w:
                    ctx.flags.add("assign_diff_size")
                    ctx.stats.label("assign_diff_size")
                if M[d].val.size < M[s].val.size:
                    ctx.stats.label("assign_grow")
                M[d] = M[s].copy()
                if op == "move":
                    M[s].moved = True
                    ctx.stats.label("moved")
            else:
                ctx.stats.label("self_assign")
        return True
    if op == "reset":
        r = M[cmd[1]]
        if no_exc(ctx, ans, "reset." + r.kind):
            M[cmd[1]] = Reg(r.kind, 0, None if r.kind in VECK else 0, 0 if r.kind in ("cov", "band") else -1)
            ctx.stats.label("reset")
        return True
    if op == "resize":
        i, p, q = cmd[1], cmd[2], cmd[3]
        r = M[i]
        tag = "resize." + r.kind
        ctx.stats.label("resize")
        if r.kind == "sym" and p != q:
            need_exc(ctx, ans, tag, 0)
            return True
        if no_exc(ctx, ans, tag):
            if r.kind in VECK:
                M[i] = Reg(r.kind, p)
            elif r.kind in ("mat", "tmat"):
                M[i] = Reg(r.kind, p, q)
            elif r.kind == "sym":
                M[i] = Reg("sym", p, p)
            else:
                M[i] = Reg(r.kind, p, p, q)
        return True
    if op in ("set_zero", "set_all", "set_identity", "set_diagonal"):
        i = cmd[1]
        r = M[i]
        if no_exc(ctx, ans, op + "." + r.kind):
            f = 0.0 if op == "set_zero" else (1.0 if op == "set_identity" else float(cmd[2]))
            new = r.copy()
            if op in ("set_zero", "set_all"):
                new.val = np.full(r.shape(), f)
                if r.kind in ("cov", "band"):
                    new.val = np.where(band_mask(r.r, r.w), f, 0.0)
            else:
                new.val = np.zeros(r.shape())
                for k in range(min(r.r, r.c)):
                    new.val[k, k] = f
            M[i] = new
        return True
    if op == "get":
        r = M[cmd[1]]
        if no_exc(ctx, ans, "get." + r.kind):
            idx = (cmd[2] - 1,) if r.kind in VECK else (cmd[2] - 1, cmd[3] - 1)
            want = r.val[idx]
            if not np.isnan(want) and tofloat(ans.get("v")) != want:
                ctx.fail("get.%s.value" % r.kind, "element %s reads %r, model %r" % (list(cmd[2:]), ans.get("v"), float(want)))
        return True
    if op == "set":
        i = cmd[1]
        r = M[i]
        tag = "set." + r.kind
        if r.kind in VECK:
            if no_exc(ctx, ans, tag):
                r.val[cmd[2] - 1] = float(cmd[3])
            return True
        a, b, f = cmd[2] - 1, cmd[3] - 1, float(cmd[4])
        if r.kind in ("cov", "band") and abs(a - b) > r.w:
            need_exc(ctx, ans, tag + ".outside_band", 1)
            return True
        if no_exc(ctx, ans, tag):
            r.val[a, b] = f
            if r.kind in ("sym", "cov", "band"):
                r.val[b, a] = f
        return True
    if op in ("scale", "divide"):
        i, f = cmd[1], np.float64(cmd[2])
        r = M[i]
        if no_exc(ctx, ans, op + "." + r.kind):
            with np.errstate(all="ignore"):
                g = f if op == "scale" else np.float64(1.0) / f
                new = r.copy()
                new.val = r.val * g
            if r.kind in ("cov", "band"):
                new.val = np.where(band_mask(r.r, r.w), new.val, 0.0)
            exp_ok = install(ctx, i, new, post, op + "." + r.kind)
        return True
    return False


SUM_RESULT = {("mat", "mat"): "mat", ("mat", "tmat"): "mat", ("tmat", "mat"): "mat", ("tmat", "tmat"): "tmat",
              ("sym", "sym"): "sym"}


def step_arith(ctx, cmd, ans, post):
    M, op = ctx.model, cmd[0]
    if op in ("add", "sub", "addb", "subb"):
        d, a, b = cmd[1], M[cmd[2]], M[cmd[3]]
        tag = arith_tag(op, a, b)
        ctx.stats.label("op:" + kinds_tag(op, a, b))
        if a.shape() != b.shape():
            need_exc(ctx, ans, tag, 0)
            return True
        if not no_exc(ctx, ans, tag):
            return True
        generic = op in ("addb", "subb")
        if a.ismat():
            kind = "mat" if generic else SUM_RESULT.get((a.kind, b.kind), "mat")
        else:
            kind = a.kind
        with np.errstate(all="ignore"):
            val = a.val - b.val if op.startswith("sub") else a.val + b.val
        install(ctx, d, Reg(kind, a.r, a.c, -1, val), post, tag)
        return True
    if op in ("mul", "mulb"):
        d, a, b = cmd[1], M[cmd[2]], M[cmd[3]]
        tag = arith_tag(op, a, b)
        ctx.stats.label("op:" + kinds_tag(op, a, b))
        A, B = a.val, b.val
        if a.ismat() and b.ismat():
            conf, kind = a.c == b.r, ("sym" if (op == "mul" and a.kind == "sym" and b.kind == "sym") else "mat")
            shape = (a.r, b.c)
        elif a.ismat() and b.kind == "vec":
            conf, kind, shape = a.c == b.r, "vec", (a.r,)
        elif a.kind == "tvec" and b.ismat():
            conf, kind, shape = a.r == b.r, "tvec", (b.c,)
        else:   # vec * tmat: the operator's own check is b.rows == a.dim; read as a' * B
            conf, kind, shape = a.r == b.r, "tvec", (b.c,)
        if not conf:
            need_exc(ctx, ans, tag, 0)
            return True
        if not no_exc(ctx, ans, tag):
            return True
        with np.errstate(all="ignore"):
            val = A @ B
            tol = prod_tol(A if A.ndim == 2 else A[None, :], B if B.ndim == 2 else B[:, None]).reshape(shape)
        exp = Reg(kind, shape[0], None if kind in VECK else shape[1], -1, val)
        install(ctx, d, exp, post, tag, tol=tol, name="product")
        return True
    if op in ("muls", "smul"):
        d = cmd[1]
        f, a = (np.float64(cmd[3]), M[cmd[2]]) if op == "muls" else (np.float64(cmd[2]), M[cmd[3]])
        tag = kinds_tag(op, a)
        if no_exc(ctx, ans, tag):
            with np.errstate(all="ignore"):
                new = a.copy()
                new.val = a.val * f
            install(ctx, d, new, post, tag)
        return True
    if op in ("iadd", "isub"):
        a, b = M[cmd[1]], M[cmd[2]]
        tag = kinds_tag(op, a, b)
        if a.shape() != b.shape():
            need_exc(ctx, ans, tag, 0)
            return True
        if no_exc(ctx, ans, tag):
            with np.errstate(all="ignore"):
                new = a.copy()
                new.val = a.val + b.val if op == "iadd" else a.val - b.val
            install(ctx, cmd[1], new, post, tag)
        return True
    if op == "trans":
        d, a = cmd[1], M[cmd[2]]
        tag = kinds_tag(op, a)
        if no_exc(ctx, ans, tag):
            k = {"mat": "tmat", "tmat": "mat", "sym": "sym", "vec": "tvec", "tvec": "vec"}[a.kind]
            exp = Reg(k, a.r, None, -1, a.val) if a.kind in VECK else Reg(k, a.c, a.r, -1, a.val.T)
            install(ctx, d, exp, post, tag)
        return True
    if op == "transpose":
        a = M[cmd[1]]
        tag = kinds_tag(op, a)
        if a.kind != "mat":
            need_exc(ctx, ans, tag, 7, conf=False)
            return True
        if no_exc(ctx, ans, tag):
            install(ctx, cmd[1], Reg("mat", a.c, a.r, -1, a.val.T), post, tag)
        return True
    if op == "tomat":
        d, a = cmd[1], M[cmd[2]]
        if no_exc(ctx, ans, "tomat"):
            install(ctx, d, Reg("mat", a.r, a.c, -1, a.val), post, "tomat")
        return True
    if op in ("square", "lower", "upper"):
        d, a = cmd[1], M[cmd[2]]
        if no_exc(ctx, ans, op):
            v = a.val if op == "square" else (np.tril(a.val) if op == "lower" else np.triu(a.val))
            install(ctx, d, Reg("mat", a.r, a.r, -1, v), post, op)
        return True
    if op in ("symlower", "symupper"):
        d, a = cmd[1], M[cmd[2]]
        if a.r != a.c:
            need_exc(ctx, ans, op, 0)
            return True
        if no_exc(ctx, ans, op):
            t = np.tril(a.val) if op == "symlower" else np.triu(a.val)
            v = t + t.T - np.diag(np.diag(a.val))
            install(ctx, d, Reg("sym", a.r, a.r, -1, v), post, op)
        return True
    return False


def check_inverse(ctx, A, X, tag, name):
    """inv(A)*A = I to 200 n eps cond(A)"""
    n = A.shape[0]
    if n == 0:
        return True
    kappa = cond2(A)
    tol = 200 * n * EPS * kappa
    if not np.all(np.isfinite(X)):
        ctx.fail(T(tag, "value"), "inverse contains non-finite values")
        return False
    e = amax(X @ A - np.eye(n))
    ctx.ratio(name, e, tol)
    if e > tol:
        ctx.fail(T(tag, "value"), "|inv(A)*A - I| = %.3g, tolerance %.3g (cond %.3g)" % (e, tol, kappa))
        return False
    return True


def step_inverse(ctx, cmd, ans, post):
    M, op = ctx.model, cmd[0]
    if op not in ("inv", "invert"):
        return False
    d = cmd[1]
    a = M[cmd[2]] if op == "inv" else M[cmd[1]]
    tag = kinds_tag(op, a)
    inplace = op == "invert"
    if a.kind in ("tmat", "cov", "band"):
        need_exc(ctx, ans, tag, 7, conf=False)
        return True
    if a.r != a.c:
        need_exc(ctx, ans, tag, 0)
        return True
    A = a.val
    if not a.defined():
        verdict = "either"
    elif a.kind == "mat":
        kappa = cond2(A)
        verdict = "must" if kappa <= 1e6 else "either"
        ctx.stats.label("inv_wellcond" if kappa <= 1e6 else ("inv_singular" if not np.isfinite(kappa) or kappa > 1e14 else "inv_illcond"))
    else:
        kind, kappa = pd_info(A)
        verdict = "must" if (kind == "pd" and kappa <= 1e6) else "either"
        ctx.stats.label("syminv_pd" if verdict == "must" else "syminv_other")
    if "exc" in ans:
        if verdict == "must":
            ctx.fail(T(tag, "exc"), "%s for a matrix with cond %.3g" % (str(ans)[:120], kappa))
        elif a.kind == "mat" and ans.get("code") != 2:
            ctx.fail(T(tag, "exc_code"), "expected Singular(2): %s" % str(ans)[:120])
        if inplace:
            adopt(ctx, d, post, unspecified=True)
        return True
    act = post.get(d)
    if act is None or (act.kind, act.r, act.c) != (a.kind, a.r, a.c):
        ctx.fail(T(tag, "dims"), "result is %s" % (act.desc() if act else "missing"))
        return True
    if verdict == "must":
        check_inverse(ctx, A, act.val, tag, "inverse." + a.kind)
    elif a.defined() and a.kind == "mat" and np.all(np.isfinite(act.val)):
        # accepted although ill-conditioned: it must still be an inverse as far as the condition allows
        check_inverse(ctx, A, act.val, tag, None)
    adopt(ctx, d, post, unspecified=not a.defined())
    return True


def step_chol(ctx, cmd, ans, post):
    M, op = ctx.model, cmd[0]
    if op == "choldec":
        i = cmd[1]
        a = M[i]
        tag = "choldec." + a.kind
        n, A = a.r, a.val
        if a.kind in ("cov", "band") and n == 0:
            need_exc(ctx, ans, tag + ".dim0", 0, conf=False)
            return True
        if not a.defined():
            adopt(ctx, i, post, unspecified=True)
            return True
        kind, kappa = pd_info(A)
        must = kind == "pd" and kappa <= 1e6
        ctx.stats.label("chol_pd" if must else "chol_" + kind)
        if "exc" in ans:
            if must:
                ctx.fail(T(tag, "exc"), "%s for a positive definite matrix with cond %.3g" % (str(ans)[:120], kappa))
            elif a.kind != "sym" and ans.get("code") != 6:
                ctx.fail(T(tag, "exc_code"), "expected NonPositiveDefinite(6): %s" % str(ans)[:120])
            adopt(ctx, i, post, unspecified=True)
            return True
        act = post.get(i)
        if act is None or (act.kind, act.r, act.w) != (a.kind, a.r, a.w):
            ctx.fail(T(tag, "dims"), "factorised object is %s" % (act.desc() if act else "missing"))
            return True
        if kind in ("pd", "psd") and np.all(np.isfinite(act.val)):
            if a.kind == "sym":
                L = np.tril(act.val)
                R = L @ L.T
            else:
                L, D = ldl_parts(act.val)
                R = (L * D) @ L.T
            tol = 5000 * (n + 1) * EPS * max(amax(A), 1e-300) * (n + 1)
            e = amax(R - A)
            ctx.ratio("chol_reproduce." + a.kind, e, tol)
            if e > tol:
                ctx.fail(T(tag, "value"), "factors reproduce the matrix only to %.3g (tolerance %.3g)" % (e, tol))
            if a.kind == "sym" and must and ans.get("nullity") != 0:
                ctx.fail(T(tag, "nullity"), "nullity %s for a positive definite matrix" % ans.get("nullity"))
        elif kind in ("pd", "psd"):
            ctx.fail(T(tag, "value"), "non-finite factor of a positive semi-definite matrix")
        adopt(ctx, i, post)
        return True
    if op == "solve":
        a, b = M[cmd[1]], M[cmd[2]]
        tag = "solve." + a.kind if b.r == a.r else "nonconf.%smat_solve" % a.kind
        if b.r != a.r:
            need_exc(ctx, ans, tag, 0)
            return True
        if not no_exc(ctx, ans, tag):
            return True
        ok = a.defined() and b.defined() and a.r > 0
        if ok:
            if a.kind == "sym":
                L = np.tril(a.val)
                dg = np.diag(L)
                Aeff = L @ L.T
            else:
                L, dg = ldl_parts(a.val)
                Aeff = (L * dg) @ L.T
            ok = bool(np.all(dg != 0)) and np.all(np.isfinite(Aeff))
        if ok:
            kappa = cond2(Aeff)
            ok = kappa <= 1e10
        if ok:
            x = np.linalg.solve(Aeff, b.val)
            tol = 100 * a.r * EPS * kappa * max(amax(x), 1e-300)
            ctx.stats.label("solve_checked")
            install(ctx, cmd[2], Reg("vec", b.r, None, -1, x), post, tag, tol=tol, name="chol_solve." + a.kind)
        else:
            adopt(ctx, cmd[2], post, unspecified=not (a.defined() and b.defined()))
        return True
    if op == "invband":
        d, a, pbw = cmd[1], M[cmd[2]], cmd[3]
        tag = "invband"
        if not no_exc(ctx, ans, tag):
            return True
        w = max(pbw, a.w)
        act = post.get(d)
        if act is None or (act.kind, act.r, act.w) != ("band", a.r, w):
            ctx.fail(T(tag, "dims"), "result is %s, expected band[%d]w%d" % (act.desc() if act else "missing", a.r, w))
            return True
        ok = a.defined() and a.r > 0
        if ok:
            L, dg = ldl_parts(a.val)
            Aeff = (L * dg) @ L.T
            ok = bool(np.all(dg != 0)) and np.all(np.isfinite(Aeff))
        if ok:
            kappa = cond2(Aeff)
            ok = kappa <= 1e8
        if ok:
            Z = np.where(band_mask(a.r, w), np.linalg.inv(Aeff), 0.0)
            tol = 100 * a.r * EPS * kappa * amax(Z)
            if w > a.w:
                ctx.stats.label("invband_wider")
            ctx.stats.label("invband_checked")
            install(ctx, d, Reg("band", a.r, a.r, w, Z), post, tag, tol=tol, name="invband")
        else:
            adopt(ctx, d, post, unspecified=not a.defined())
        return True
    if op in ("tridiag", "eig"):
        i = cmd[1] if op == "tridiag" else cmd[2]
        a = M[i]
        tag = op
        n = a.r
        if op == "eig" and a.w == 0 and n > 0:
            ctx.stats.label("eig_band0")
            tag = "band.eigenval_band0"
        if not no_exc(ctx, ans, tag):
            adopt(ctx, i, post, unspecified=True)
            return True
        act = post.get(i)
        if act is None or (act.kind, act.r, act.w) != ("band", a.r, a.w):
            ctx.fail(T(tag, "dims"), "matrix is now %s" % (act.desc() if act else "missing"))
            return True
        if a.defined() and n > 0:
            ev = np.linalg.eigvalsh(a.val)
            tol = 100 * n * EPS * max(amax(a.val), 1e-300) * n
            T = act.val
            if not np.all(np.isfinite(T)):
                ctx.fail(T(tag, "value"), "non-finite tridiagonal form")
            else:
                off = amax(np.where(band_mask(n, 1), 0.0, T))
                e = max(off, amax(np.linalg.eigvalsh(T) - ev))
                ctx.ratio("tridiag", e, tol)
                if e > tol:
                    ctx.fail(T(tag, "tridiag"), "triDiag: outside tridiagonal %.3g, eigenvalue change %.3g, tolerance %.3g" %
                             (off, amax(np.linalg.eigvalsh(T) - ev), tol))
            if op == "eig":
                ctx.stats.label("eig_checked")
                ve = post.get(cmd[1])
                if ve is None or ve.kind != "vec" or ve.r != n:
                    ctx.fail(T(tag, "dims"), "eigenvalues in %s" % (ve.desc() if ve else "missing"))
                elif not np.all(np.isfinite(ve.val)):
                    ctx.fail(T(tag, "value"), "non-finite eigenvalues")
                else:
                    e = amax(np.sort(ve.val) - ev)
                    ctx.ratio("eigenvalues", e, tol)
                    if e > tol:
                        ctx.fail(T(tag, "value"), "eigenvalues %s, reference %s (tolerance %.3g)" %
                                 (np.sort(ve.val).tolist(), ev.tolist(), tol))
        elif op == "eig":
            ve = post.get(cmd[1])
            if ve is None or ve.kind != "vec" or ve.r != n:
                ctx.fail(T(tag, "dims"), "eigenvalues in %s" % (ve.desc() if ve else "missing"))
        adopt(ctx, i, post, unspecified=not a.defined())
        if op == "eig":
            adopt(ctx, cmd[1], post, unspecified=not a.defined())
        return True
    return False


def check_svd(A, U, W, V, tag):
    """list of (subtag, text), worst ratio; A = U diag(W) V', V'V = I, U'U = I (columns of non-zero
    singular values when rows < cols), W >= 0"""
    m, n = A.shape
    out = []
    worst = 0.0
    if U.shape != (m, n) or W.shape != (n,) or V.shape != (n, n):
        return [(tag + ".dims", "U %s W %s V %s for A %s" % (U.shape, W.shape, V.shape, A.shape))], 0.0
    if not (np.all(np.isfinite(U)) and np.all(np.isfinite(W)) and np.all(np.isfinite(V))):
        return [(tag + ".value", "non-finite factors")], 0.0
    sc = max(amax(A), 1e-300)
    tol = 100 * (m + n + 1) * EPS * sc * max(m, n, 1)
    e = amax((U * W) @ V.T - A)
    worst = max(worst, e / tol)
    if e > tol:
        out.append((tag + ".reconstruct", "|U W V' - A| = %.3g, tolerance %.3g" % (e, tol)))
    tolo = 100 * (m + n + 1) * EPS * max(m, n, 1)
    e = amax(V.T @ V - np.eye(n))
    worst = max(worst, e / tolo)
    if e > tolo:
        out.append((tag + ".V_orthonormal", "|V'V - I| = %.3g, tolerance %.3g" % (e, tolo)))
    if m >= n:
        Uc = U
    else:
        Uc = U[:, W > 1e-6 * max(amax(W), 1e-300)]
    e = amax(Uc.T @ Uc - np.eye(Uc.shape[1])) if Uc.size else 0.0
    worst = max(worst, e / tolo)
    if e > tolo:
        out.append((tag + ".U_orthonormal", "|U'U - I| = %.3g, tolerance %.3g" % (e, tolo)))
    if W.size and W.min() < 0:
        out.append((tag + ".W_negative", "singular value %.3g" % W.min()))
    return out, worst


def check_pinv(A, P, tag):
    """four Moore-Penrose conditions; tolerance 200 (m+n) eps kappa scale"""
    m, n = A.shape
    if P.shape != (n, m):
        return [(tag + ".dims", "pinv is %s for A %s" % (P.shape, A.shape))], 0.0
    if not np.all(np.isfinite(P)):
        return [(tag + ".value", "non-finite pseudo-inverse")], 0.0
    r, kappa, _ = rank_info(A)
    a, p = max(amax(A), 1e-300), max(amax(P), 1e-300)
    base = 8000 * (m + n + 1) * EPS * kappa * max(m, n, 1)
    out = []
    worst = 0.0
    for name, E, sc in (("APA=A", A @ P @ A - A, a), ("PAP=P", P @ A @ P - P, p),
                        ("(AP)'=AP", (A @ P).T - A @ P, 1.0), ("(PA)'=PA", (P @ A).T - P @ A, 1.0)):
        e = amax(E)
        worst = max(worst, e / (base * sc))
        if e > base * sc:
            out.append((tag + ".moore_penrose", "%s violated by %.3g, tolerance %.3g" % (name, e, base * sc)))
    return out, worst


def step_svd(ctx, cmd, ans, post):
    M, op = ctx.model, cmd[0]
    if op in ("svd", "svdr"):
        a = M[cmd[-1]]
        tag = op
        m, n = a.r, a.c
        if m == 0 or n == 0:
            ctx.stats.label("svd_zero_dim")
        if not no_exc(ctx, ans, tag):
            return True
        regs = [post.get(cmd[1]), post.get(cmd[2]), post.get(cmd[3])]
        if any(x is None for x in regs) or [x.kind for x in regs] != ["mat", "vec", "mat"]:
            ctx.fail(T(tag, "dims"), "factors missing")
            return True
        if a.defined():
            fails, worst = check_svd(a.val, regs[0].val, regs[1].val, regs[2].val, tag)
            ctx.stats.ratio("svd", worst)
            for t, x in fails:
                ctx.fail(t, x)
            r, kappa, unamb = rank_info(a.val)
            ctx.stats.label("svd_checked")
            if m < n:
                ctx.stats.label("svd_wide")
            if r < min(m, n):
                ctx.stats.label("svd_rank_deficient")
            if unamb and ans.get("nullity") != n - r:
                ctx.fail(T(tag, "nullity"), "nullity %s, rank %d of %d columns" % (ans.get("nullity"), r, n))
        else:
            if regs[0].shape() != (m, n) or regs[1].shape() != (n,) or regs[2].shape() != (n, n):
                ctx.fail(T(tag, "dims"), "factor dimensions")
        for k in (1, 2, 3):
            adopt(ctx, cmd[k], post, unspecified=not a.defined())
        return True
    if op == "svd_solve":
        dx, a, b = cmd[1], M[cmd[2]], M[cmd[3]]
        tag = "svd_solve"
        if b.r != a.r:
            need_exc(ctx, ans, "nonconf.svd_solve", 0)
            return True
        if not no_exc(ctx, ans, tag):
            return True
        r, kappa, unamb = rank_info(a.val) if a.defined() else (0, 1.0, False)
        if a.defined() and b.defined() and unamb and kappa <= 1e6:
            x = np.linalg.pinv(a.val, rcond=1e-10) @ b.val if a.val.size else np.zeros(a.c)
            tol = 200 * (a.r + a.c + 1) * EPS * kappa * kappa * max(amax(x), amax(b.val) / max(amax(a.val), 1e-300), 1e-300)
            ctx.stats.label("svd_solve_checked")
            install(ctx, dx, Reg("vec", a.c, None, -1, x), post, tag, tol=tol, name="svd_solve")
        else:
            act = post.get(dx)
            if act is None or act.kind != "vec" or act.r != a.c:
                ctx.fail(T(tag, "dims"), "solution in %s" % (act.desc() if act else "missing"))
            adopt(ctx, dx, post, unspecified=not (a.defined() and b.defined()))
        return True
    if op == "svd_q":
        a = M[cmd[1]]
        tag = "svd_q"
        if not no_exc(ctx, ans, tag):
            return True
        if a.defined():
            r, kappa, unamb = rank_info(a.val)
            Q = arr(ans["qxx"], (a.c, a.c))
            if unamb and kappa <= 1e5:
                ref = np.linalg.pinv(a.val.T @ a.val, rcond=1e-11, hermitian=True) if a.val.size else np.zeros((a.c, a.c))
                tol = 400 * (a.r + a.c) * EPS * kappa * kappa * max(amax(ref), 1e-300)
                e = amax(Q - ref) if np.all(np.isfinite(Q)) else np.inf
                ctx.ratio("svd_qxx", e, tol)
                ctx.stats.label("svd_q_checked")
                if e > tol:
                    ctx.fail(T(tag, "value"), "|q_xx - pinv(A'A)| = %.3g, tolerance %.3g" % (e, tol))
        return True
    if op == "pinv":
        d, a = cmd[1], M[cmd[2]]
        tag = "pinv"
        if not no_exc(ctx, ans, tag):
            return True
        act = post.get(d)
        if act is None or act.kind != "mat" or act.shape() != (a.c, a.r):
            ctx.fail(T(tag, "dims"), "pinv in %s" % (act.desc() if act else "missing"))
            return True
        if a.defined():
            r, kappa, unamb = rank_info(a.val)
            if unamb and kappa <= 1e6:
                fails, worst = check_pinv(a.val, act.val, tag)
                ctx.stats.ratio("pinv", worst)
                ctx.stats.label("pinv_checked")
                if r < min(a.r, a.c):
                    ctx.stats.label("pinv_rank_deficient")
                for t, x in fails:
                    ctx.fail(t, x)
            else:
                ctx.stats.label("pinv_ambiguous_rank")
        adopt(ctx, d, post, unspecified=not a.defined())
        return True
    if op == "gso":
        d, a, Mr, Nc = cmd[1], M[cmd[2]], cmd[3], cmd[4]
        tag = "gso"
        if not no_exc(ctx, ans, tag):
            return True
        act = post.get(d)
        if act is None or act.kind != "mat" or act.shape() != a.shape():
            ctx.fail(T(tag, "dims"), "result in %s" % (act.desc() if act else "missing"))
            return True
        if a.defined():
            A1 = a.val[:Mr, :Nc]
            # GSO scales every column of A1 to unit length first: the rank it sees is that of the scaled block
            nrm = np.sqrt(np.sum(A1 * A1, axis=0))
            r, kappa, unamb = rank_info(A1 / np.where(nrm > 0, nrm, 1.0))
            if unamb and kappa <= 1e3 and np.all(np.isfinite(act.val)):
                if ans.get("defect") != Nc - r:
                    ctx.fail(T(tag, "defect"), "defect %s, rank %d of %d columns" % (ans.get("defect"), r, Nc))
                elif r == Nc:
                    ctx.stats.label("gso_checked")
                    W = act.val
                    W1, W2, W3, W4 = W[:Mr, :Nc], W[:Mr, Nc:], W[Mr:, :Nc], W[Mr:, Nc:]
                    A2, A3, A4 = a.val[:Mr, Nc:], a.val[Mr:, :Nc], a.val[Mr:, Nc:]
                    R = W1.T @ A1                         # A1 = W1 R
                    sc = max(amax(a.val), 1.0)
                    tol = 200 * (a.r + a.c) * EPS * kappa * kappa * sc * max(amax(W), 1.0) * a.c
                    e = max(amax(W1.T @ W1 - np.eye(Nc)), amax(W1 @ R - A1),
                            amax(W2 - (A2 - W1 @ (W1.T @ A2))) if W2.size else 0.0,
                            amax(W3 @ R - A3) if W3.size else 0.0,
                            amax(W4 - (A4 - W3 @ (W1.T @ A2))) if W4.size else 0.0)
                    ctx.ratio("gso", e, tol)
                    if e > tol:
                        ctx.fail(T(tag, "value"), "block relations of gso1 violated by %.3g, tolerance %.3g" % (e, tol))
                else:
                    ctx.stats.label("gso_defect")
        adopt(ctx, d, post, unspecified=not a.defined())
        return True
    return False


def step_misc(ctx, cmd, ans, post):
    M, op = ctx.model, cmd[0]
    if op in ("dot", "tdot"):
        a, b = M[cmd[1]], M[cmd[2]]
        tag = kinds_tag(op, a, b)
        if a.r != b.r:
            need_exc(ctx, ans, tag, 0)
            return True
        if no_exc(ctx, ans, tag) and a.defined() and b.defined() and np.all(np.isfinite(a.val)) and np.all(np.isfinite(b.val)):
            ref = float(a.val @ b.val)
            tol = 32 * EPS * (a.r + 2) * float(np.abs(a.val) @ np.abs(b.val)) + 1e-300
            e = abs(tofloat(ans["v"]) - ref)
            ctx.ratio("dot", e, tol)
            if not e <= tol:
                ctx.fail(T(tag, "value"), "%r, reference %r" % (ans["v"], ref))
        return True
    if op == "norms":
        a = M[cmd[1]]
        if no_exc(ctx, ans, "norms") and a.defined() and np.all(np.isfinite(a.val)):
            ref = {"l1": float(np.sum(np.abs(a.val))), "l2": float(np.sqrt(a.val @ a.val)), "linf": amax(a.val)}
            for k, v in ref.items():
                tol = 32 * EPS * (a.r + 2) * v + 1e-300
                e = abs(tofloat(ans[k]) - v)
                ctx.ratio("norms", e, tol)
                if not e <= tol:
                    ctx.fail("norms." + k, "%r, reference %r" % (ans[k], v))
        return True
    if op == "sort":
        a = M[cmd[1]]
        if no_exc(ctx, ans, "sort"):
            if a.defined():
                install(ctx, cmd[1], Reg("vec", a.r, None, -1, np.sort(a.val)), post, "sort")
            else:
                adopt(ctx, cmd[1], post, unspecified=True)
        return True
    if op == "io":
        d, a = cmd[1], M[cmd[2]]
        tag = "io." + a.kind
        ctx.stats.label("io")
        if not (a.defined() and np.all(np.isfinite(a.val))):
            adopt(ctx, d, post, unspecified=True)
            return True
        if no_exc(ctx, ans, tag):
            t = M[d]
            if t is not None and t.kind == a.kind and d != cmd[2] and (t.shape() != a.shape() or t.w != a.w):
                ctx.flags.add("assign_diff_size")
                ctx.stats.label("assign_diff_size", "read_diff_size")
            install(ctx, d, a.copy(), post, tag)
        return True
    return False


STEPS = (step_basic, step_arith, step_inverse, step_chol, step_svd, step_misc)


def crash_tag(cmd, model):
    """tag of a sanitizer report / signal raised by one command (same tag as the semantic check of
    that command would use, so that one defect has one tag)"""
    op = cmd[0]

    def R(k):
        x = cmd[k] if k < len(cmd) else None
        return model[x] if isinstance(x, int) and 0 <= x < NREG else None
    try:
        if op in ("svd", "svdr", "svd_solve", "svd_q", "pinv"):
            a = R(len(cmd) - 1) if op in ("svd", "svdr") else (R(2) if op in ("svd_solve", "pinv") else R(1))
            if op == "svd_solve" and R(3) is not None and R(3).r != a.r:
                return "nonconf.svd_solve"
            return op + ".crash"
        if op == "eig":
            a = R(2)
            return "band.eigenval_band0" if (a is not None and a.w == 0 and a.r > 0) else "eig.crash"
        if op == "solve":
            a, b = R(1), R(2)
            return "solve.%s.crash" % a.kind if a.r == b.r else "nonconf.%smat_solve" % a.kind
        if op in ("add", "sub", "addb", "subb", "mul", "mulb"):
            a, b = R(2), R(3)
            t = arith_tag(op, a, b)
            if t in DEFECTS:
                return t
            if op.startswith("mul"):
                conf = (a.c == b.r) if a.ismat() else (a.r == b.r)
            else:
                conf = a.shape() == b.shape()
            return t + (".crash" if conf else ".nonconf")
        if op in ("iadd", "isub", "dot", "tdot"):
            a, b = R(1), R(2)
            return kinds_tag(op, a, b) + (".crash" if a.shape() == b.shape() else ".nonconf")
        if op in ("copy", "movec", "assign", "move"):
            return kinds_tag(op, R(2)) + ".crash"
    except (AttributeError, TypeError):
        pass
    return op + ".crash"


def run_machine(cmds, stats):
    """returns (fails, flags)"""
    script = []
    for c in cmds:
        toks = []
        if c[0] in ("new", "newv") and c[1] not in ("mat", "tmat", "cov", "band"):
            c = c[:4] + c[5:]           # only these four kinds take a second dimension / band width
        for x in c:
            if isinstance(x, list):
                toks += [repr(float(v)) for v in x]
            elif isinstance(x, float):
                toks.append(repr(x))
            else:
                toks.append(str(x))
        script.append(" ".join(toks))
        script.append("dumpall")
    answers, crash = drv.driver("gdrv_mv", "\n".join(script) + "\n")
    model = [None] * NREG
    ctx = Ctx(model, stats)
    for k, cmd in enumerate(cmds):
        if 2 * k + 1 >= len(answers):
            break
        ans, dump = answers[2 * k], answers[2 * k + 1]
        if "fatal" in ans or "fatal" in dump:
            ctx.fail("harness.fatal", "%s -> %s" % (cmd, ans))
            return ctx.fails, ctx.flags
        if "skip" in ans:
            stats.label("skipped")
            stats.label("skip:%s:%s" % (cmd[0], ans["skip"]))
            continue
        stats.label("cmd:" + cmd[0])
        post = {int(i): reg_from_dump(d) for i, d in dump.get("regs", {}).items()}
        nf = len(ctx.fails)
        handled = False
        for fn in STEPS:
            if fn(ctx, cmd, ans, post):
                handled = True
                break
        if not handled:
            ctx.fail("harness.unknown", "no model for %s" % cmd[0])
            return ctx.fails, ctx.flags
        if len(ctx.fails) > nf:
            adopt_all(model, dump)
            continue
        diffs = compare_state(model, dump)
        if diffs:
            ctx.fail("state." + cmd[0], "after %s: %s" % (cmd[:5], "; ".join(diffs[:3])))
            adopt_all(model, dump)
    if crash is not None:
        k = len(answers) // 2
        if k < len(cmds):
            tag = crash_tag(cmds[k], model)
            where = "in command %d %s" % (k, [x if not isinstance(x, list) else "..." for x in cmds[k]])
        else:
            tag, where = "exit.crash", "at exit (destructors)"
        # a crash on non-conforming operands is the same defect as accepting them silently: same tag
        ctx.fail(tag, "crash: %s %s %s" % (crash["kind"], crash["frame"], where))
    elif len(answers) != 2 * len(cmds):
        ctx.fail("harness.short", "%d answers for %d commands" % (len(answers), len(cmds)))
    # one message per tag
    seen, out = set(), []
    for f in ctx.fails:
        t = f.split(":", 1)[0]
        if t not in seen:
            seen.add(t)
            out.append(f)
    return out, ctx.flags


# ---------------------------------------------------------------------------------------------
# generator
# ---------------------------------------------------------------------------------------------

SQUARE = ("sym", "cov", "band")


def stored_from_dense(kind, A, w=0):
    n = A.shape[0]
    if kind == "sym":
        return [float(A[i, j]) for i in range(n) for j in range(i + 1)]
    return [float(A[i, j]) for i in range(n) for j in range(i, min(n, i + w + 1))]


@st.composite
def machine(draw):
    S = {}                      # register -> (kind, r, c, w)  shapes as the generator believes them
    cmds = []
    meta = {"diff": False, "nonconf": False}
    I = st.integers

    def ints(n, lo=-5, hi=5):
        return draw(st.lists(I(lo, hi), min_size=n, max_size=n))

    def values(n):
        v = ints(n, -9, 9)
        m = draw(I(0, 3))
        if m == 0:
            return [x / 10.0 for x in v]
        if m == 1:
            return [x / 2.0 for x in v]
        return [float(x) for x in v]

    def dim(lo=0, hi=5):
        return draw(st.sampled_from([d for d in (0, 1, 1, 2, 2, 2, 3, 3, 3, 4, 4, 5) if lo <= d <= hi]))

    busy = set()                # operands of the macro under construction: never overwritten by make()

    def fresh():
        free = [x for x in range(NREG) if x not in busy]
        return draw(st.sampled_from(free))

    def emit(*c):
        cmds.append(list(c))

    def make(kind, a, b=0, d=None, vals=None):
        d = fresh() if d is None else d
        if kind in ("cov", "band"):
            b = min(b, max(a - 1, 0))
        if vals is None:
            vals = values(nstored(kind, a, b))
        emit("newv", kind, d, a, b, vals)
        S[d] = (kind, a, (None if kind in VECK else (b if kind in ("mat", "tmat") else a)), (b if kind in ("cov", "band") else -1))
        return d

    def make_dense(kind, A, w=0, d=None):
        A = np.asarray(A, dtype=float)
        if kind in ("mat", "tmat"):
            return make(kind, A.shape[0], A.shape[1], d, [float(x) for x in A.ravel()])
        return make(kind, A.shape[0], w, d, stored_from_dense(kind, A, w))

    def have(pred):
        return sorted(r for r, s in S.items() if pred(s))

    def operand(kind, r, c=None, w=None):
        """a register holding a `kind` of that shape: an existing one (with its history) or a new one"""
        if kind in SQUARE:
            c = r
        c0 = None if kind in VECK else c
        cand = have(lambda s: s[0] == kind and s[1] == r and s[2] == c0 and (w is None or s[3] == w))
        if cand and draw(I(0, 2)) > 0:
            x = draw(st.sampled_from(cand))
        elif kind in ("cov", "band"):
            x = make(kind, r, draw(I(0, max(r - 1, 0))) if w is None else w)
        else:
            x = make(kind, r, 0 if kind in VECK or kind == "sym" else c)
        busy.add(x)
        return x

    def other(n):
        return draw(st.sampled_from([x for x in (0, 1, 2, 3, 4, 5) if x != n]))

    def pd_dense(n, w):
        L = np.zeros((n, n))
        for i in range(n):
            L[i, i] = draw(I(1, 3))
            for j in range(max(0, i - w), i):
                L[i, j] = draw(I(-2, 2))
        A = L @ L.T
        if draw(I(0, 2)) == 0:
            A = A / 4.0
        return A

    def general_mat(n, m=None):
        """('well'|'random'|'singular'|'near', matrix)"""
        m = n if m is None else m
        t = draw(st.sampled_from(["well", "random", "random", "singular", "near"]))
        A = np.array(ints(n * m, -4, 4), dtype=float).reshape(n, m)
        if t == "well" and n == m:
            A = A + np.diag([4.0 * n * (1 if draw(st.booleans()) else -1) for _ in range(n)])
        elif t in ("singular", "near") and min(n, m) >= 2:
            r = draw(I(1, min(n, m) - 1))
            for j in range(r, m):
                cf = np.array(ints(r, -2, 2), dtype=float)
                A[:, j] = A[:, :r] @ cf
            if draw(st.booleans()):
                A = A[:, draw(st.permutations(list(range(m))))]
            if t == "near":
                A[draw(I(0, n - 1)), draw(I(0, m - 1))] += draw(st.sampled_from([1e-9, 1e-7, 1e-12]))
        if draw(I(0, 3)) == 0:
            A = A / 8.0
        return A

    # ---- macros ------------------------------------------------------------------------------
    def m_make():
        kind = draw(st.sampled_from(MATK + VECK))
        a = dim()
        b = dim() if kind in ("mat", "tmat") else (draw(I(0, max(a - 1, 0))) if kind in ("cov", "band") else 0)
        if draw(I(0, 5)) == 0:
            d = fresh()
            emit("new", kind, d, a, b)
            S[d] = (kind, a, (None if kind in VECK else (b if kind in ("mat", "tmat") else a)), (b if kind in ("cov", "band") else -1))
            if draw(st.booleans()):
                emit(draw(st.sampled_from(["set_zero", "set_identity"])) if kind in MATK else "set_zero", d)
            elif draw(st.booleans()):
                emit("set_all", d, float(draw(I(-3, 3))))
        else:
            make(kind, a, b)

    def m_copy():
        if not S or draw(I(0, 4)) == 0:
            m_make()
        s = draw(st.sampled_from(sorted(S)))
        kind = S[s][0]
        op = draw(st.sampled_from(["copy", "assign", "assign", "assign", "move", "move", "movec"]))
        if op in ("copy", "movec"):
            d = draw(st.sampled_from([x for x in range(NREG) if x != s]))
            emit(op, d, s)
            S[d] = S[s]
            return
        cand = have(lambda t: t[0] == kind)
        diff = [r for r in cand if S[r] != S[s]]
        if diff and draw(I(0, 3)) > 0:
            d = draw(st.sampled_from(diff))
        elif draw(I(0, 4)) == 0 and op == "assign":
            d = s
        else:
            a = other(S[s][1])
            d = draw(st.sampled_from([x for x in range(NREG) if x != s]))
            make(kind, a, dim() if kind in ("mat", "tmat") else draw(I(0, max(a - 1, 0))), d)
        if S[d] != S[s]:
            meta["diff"] = True
        emit(op, d, s)
        S[d] = S[s]
        # the copy must stay independent: change the source (or the copy) afterwards
        t = draw(st.sampled_from([s, d]))
        if op == "assign" and S[t][1] > 0 and (S[t][2] is None or S[t][2] > 0) and draw(st.booleans()):
            k = S[t]
            if k[0] in VECK:
                emit("set", t, draw(I(1, k[1])), float(draw(I(6, 9))))
            else:
                i = draw(I(1, k[1]))
                emit("set", t, i, i if k[0] in ("cov", "band") else draw(I(1, k[2])), float(draw(I(6, 9))))
        elif op == "assign" and draw(st.booleans()):
            emit("scale", t, float(draw(st.sampled_from([2, -1, 0.5]))))

    def m_resize():
        if not S:
            m_make()
        r = draw(st.sampled_from(sorted(S)))
        kind = S[r][0]
        if draw(I(0, 3)) == 0:
            emit("reset", r)
            S[r] = (kind, 0, None if kind in VECK else 0, 0 if kind in ("cov", "band") else -1)
            return
        p = dim()
        q = dim() if kind in ("mat", "tmat") else (p if kind == "sym" else (draw(I(0, max(p - 1, 0))) if kind in ("cov", "band") else 0))
        if kind == "sym" and draw(I(0, 4)) == 0:
            q = other(p)
            meta["nonconf"] = True
        emit("resize", r, p, q)
        if not (kind == "sym" and p != q):
            S[r] = (kind, p, (None if kind in VECK else (q if kind in ("mat", "tmat") else p)), (q if kind in ("cov", "band") else -1))
        f = draw(I(0, 3))
        if f == 0:
            emit("set_zero", r)
        elif f == 1:
            emit("set_all", r, draw(I(-4, 4)) / 2.0)
        elif f == 2 and kind in MATK:
            emit(draw(st.sampled_from(["set_identity", "set_diagonal"])), r, 2.5)
            if cmds[-1][0] == "set_identity":
                cmds[-1] = cmds[-1][:2]

    def m_fill():
        if not S:
            m_make()
        r = draw(st.sampled_from(sorted(S)))
        kind = S[r][0]
        op = draw(st.sampled_from(["set_zero", "set_all", "set_identity", "set_diagonal"] if kind in MATK else ["set_zero", "set_all"]))
        if op in ("set_all", "set_diagonal"):
            emit(op, r, draw(I(-6, 6)) / 2.0)
        else:
            emit(op, r)

    def m_element():
        cand = have(lambda s: s[1] > 0 and (s[2] is None or s[2] > 0))
        if not cand:
            make(draw(st.sampled_from(MATK + VECK)), dim(1), dim(1))
            cand = have(lambda s: s[1] > 0 and (s[2] is None or s[2] > 0))
            if not cand:
                return
        r = draw(st.sampled_from(cand))
        kind, a, c, w = S[r]
        for _ in range(draw(I(1, 3))):
            wr = draw(st.booleans())
            if kind in VECK:
                i = draw(I(1, a))
                emit("set", r, i, values(1)[0]) if wr else emit("get", r, i)
                continue
            i, j = draw(I(1, a)), draw(I(1, c))
            if kind in ("cov", "band") and abs(i - j) > w:
                if draw(I(0, 2)) > 0:
                    j = min(a, i + draw(I(0, w)))
                elif wr:
                    meta["nonconf"] = True
            emit("set", r, i, j, values(1)[0]) if wr else emit("get", r, i, j)

    def m_scalar():
        if not S:
            m_make()
        r = draw(st.sampled_from(sorted(S)))
        kind = S[r][0]
        f = draw(st.sampled_from([2.0, -1.0, 0.5, 3.0, -0.25, 1.5, 0.1, 0.0]))
        ops = ["scale", "divide"] + (["muls", "smul"] if kind in ("mat", "vec", "sym", "tvec") else [])
        op = draw(st.sampled_from(ops))
        if op == "divide" and f == 0.0:
            f = 4.0
        if op in ("scale", "divide"):
            emit(op, r, f)
        else:
            d = fresh()
            emit("muls", d, r, f) if op == "muls" else emit("smul", d, f, r)
            S[d] = S[r]

    def m_binary():
        fam = draw(st.sampled_from(["sum", "sum", "mm", "mm", "mv", "vm", "vt", "compound"]))
        conf = draw(I(0, 3)) > 0
        if not conf:
            meta["nonconf"] = True
        d = fresh()
        if fam == "sum":
            ka, kb = draw(st.sampled_from([("mat", "mat"), ("mat", "tmat"), ("tmat", "mat"), ("tmat", "tmat"), ("sym", "sym"),
                                            ("vec", "vec"), ("tvec", "tvec"), ("mat", "sym"), ("sym", "mat"), ("cov", "band"),
                                            ("band", "tmat"), ("sym", "cov"), ("mat", "band"), ("cov", "cov")]))
            op = draw(st.sampled_from(["add", "sub"])) + ("b" if (ka in MATK and draw(I(0, 3)) == 0) else "")
            r = dim()
            c = r if (ka in SQUARE or kb in SQUARE) else dim()
            a = operand(ka, r, c)
            if conf:
                b = operand(kb, r, c)
            elif ka in SQUARE or kb in SQUARE or ka in VECK:
                r2 = other(r)
                if ka in VECK or kb in SQUARE:
                    b = operand(kb, r2, r2)
                else:
                    b = operand(kb, r2, draw(st.sampled_from([r, r2])))
            else:
                b = operand(kb, *draw(st.sampled_from([(other(r), c), (r, other(c)), (c, r) if r != c else (r + 1, c)])))
            emit(op, d, a, b)
            if conf:
                res = "mat" if (op in ("addb", "subb") or ka in MATK and (ka, kb) not in SUM_RESULT) else SUM_RESULT.get((ka, kb), ka)
                S[d] = (res, r, None if ka in VECK else c, -1)
            return
        if fam == "mm":
            ka, kb = draw(st.sampled_from(MATK)), draw(st.sampled_from(MATK))
            k = dim()
            ra = k if ka in SQUARE else dim()
            k2 = k if conf else other(k)
            cb = k2 if kb in SQUARE else dim()
            a, b = operand(ka, ra, k), operand(kb, k2, cb)
            op = "mulb" if draw(I(0, 4)) == 0 else "mul"
            emit(op, d, a, b)
            if conf:
                S[d] = ("sym" if (op == "mul" and ka == "sym" and kb == "sym") else "mat", ra, cb, -1)
            return
        if fam == "mv":
            ka = draw(st.sampled_from(MATK))
            k = dim()
            ra = k if ka in SQUARE else dim()
            a, b = operand(ka, ra, k), operand("vec", k if conf else other(k))
            emit("mulb" if draw(I(0, 4)) == 0 else "mul", d, a, b)
            if conf:
                S[d] = ("vec", ra, None, -1)
            return
        if fam == "vm":
            kb = draw(st.sampled_from(MATK))
            k = dim()
            cb = k if kb in SQUARE else dim()
            a, b = operand("tvec", k if conf else other(k)), operand(kb, k, cb)
            emit("mulb" if draw(I(0, 4)) == 0 else "mul", d, a, b)
            if conf:
                S[d] = ("tvec", cb, None, -1)
            return
        if fam == "vt":
            k = dim()
            cb = dim()
            a, b = operand("vec", k if conf else other(k)), operand("tmat", k, cb)
            emit("mul", d, a, b)
            if conf:
                S[d] = ("tvec", cb, None, -1)
            return
        kind = draw(st.sampled_from(["vec", "sym"]))
        r = dim()
        a, b = operand(kind, r), None
        b = operand(kind, r if conf else other(r))
        if a == b and not conf:
            return
        emit(draw(st.sampled_from(["iadd", "isub"])), a, b)

    def m_unary():
        op = draw(st.sampled_from(["trans", "trans", "transpose", "tomat", "square", "lower", "upper", "symlower", "symupper",
                                   "sort", "norms", "dot", "tdot", "io", "io", "io"]))
        d = fresh()
        if op == "trans":
            k = draw(st.sampled_from(["mat", "tmat", "sym", "vec", "tvec"]))
            a = operand(k, dim(), dim())
            emit("trans", d, a)
            s = S[a]
            S[d] = ({"mat": "tmat", "tmat": "mat", "sym": "sym", "vec": "tvec", "tvec": "vec"}[k], s[1] if k in VECK or k == "sym" else s[2],
                    None if k in VECK else s[1], -1)
        elif op == "transpose":
            k = draw(st.sampled_from(["mat", "mat", "mat", "sym", "tmat", "band"]))
            a = operand(k, dim(), dim())
            emit("transpose", a)
            if k == "mat":
                S[a] = ("mat", S[a][2], S[a][1], -1)
        elif op == "tomat":
            a = operand("tmat", dim(), dim())
            emit("tomat", d, a)
            S[d] = ("mat", S[a][1], S[a][2], -1)
        elif op in ("square", "lower", "upper"):
            a = operand("sym", dim())
            emit(op, d, a)
            S[d] = ("mat", S[a][1], S[a][1], -1)
        elif op in ("symlower", "symupper"):
            n = dim()
            sq = draw(I(0, 4)) > 0
            if not sq:
                meta["nonconf"] = True
            a = operand("mat", n, n if sq else other(n))
            emit(op, d, a)
            if sq:
                S[d] = ("sym", n, n, -1)
        elif op == "sort":
            emit("sort", operand("vec", dim()))
        elif op == "norms":
            emit("norms", operand(draw(st.sampled_from(VECK)), dim()))
        elif op in ("dot", "tdot"):
            n = dim()
            conf = draw(I(0, 3)) > 0
            if not conf:
                meta["nonconf"] = True
            a = operand("tvec" if op == "tdot" else draw(st.sampled_from(VECK)), n)
            b = operand("vec" if op == "tdot" else draw(st.sampled_from(VECK)), n if conf else other(n))
            emit(op, a, b)
        else:
            if not S or draw(I(0, 2)) == 0:
                make(draw(st.sampled_from(MATK + VECK)), dim(), dim())
            a = draw(st.sampled_from(sorted(S)))
            same = [r for r in have(lambda s: s[0] == S[a][0]) if r != a]
            if same and draw(st.booleans()):
                d = draw(st.sampled_from(same))
                if S[d] != S[a]:
                    meta["diff"] = True
            emit("io", d, a)
            S[d] = S[a]

    def m_inverse():
        n = dim(0, 5)
        d = fresh()
        if draw(I(0, 3)) == 0:
            a = make_dense("sym", pd_dense(n, max(n - 1, 0))) if draw(I(0, 3)) > 0 else operand("sym", n)
        elif draw(I(0, 5)) == 0:
            m = other(n)
            meta["nonconf"] = True
            a = operand("mat", n, m)
        elif draw(I(0, 5)) == 0:
            a = operand(draw(st.sampled_from(["mat", "tmat", "cov"])), n, n)
        else:
            a = make_dense("mat", general_mat(n))
        busy.add(a)
        if draw(st.booleans()) and S[a][0] in ("mat", "sym"):
            emit("inv", d, a)
            if S[a][1] == S[a][2] and S[a][0] in ("mat", "sym"):
                S[d] = S[a]
            if d in S and S[d][0] == "mat" and S[d][1] == S[a][2] and draw(st.booleans()):
                dd = fresh()
                emit("mul", dd, d, a)           # inv(A)*A through the library's own product
                S[dd] = ("mat", S[d][1], S[a][2], -1)
        else:
            emit("invert", a)

    def m_chol():
        kind = draw(st.sampled_from(SQUARE))
        n = dim(0, 5) if draw(I(0, 9)) == 0 else dim(1, 5)
        w = draw(I(0, max(n - 1, 0))) if kind != "sym" else max(n - 1, 0)
        t = draw(st.sampled_from(["pd", "pd", "pd", "psd", "random"]))
        if t == "pd" or n == 0:
            A = pd_dense(n, w)
        elif t == "psd" and kind == "sym" and n >= 2:
            r = draw(I(1, n - 1))
            B = np.array(ints(n * r, -3, 3), dtype=float).reshape(n, r)
            A = B @ B.T
        else:
            A = np.array(ints(n * n, -4, 4), dtype=float).reshape(n, n)
            A = np.where(band_mask(n, w), A + A.T, 0.0)
        a = make_dense(kind, A, w)
        busy.add(a)
        nxt = draw(st.sampled_from(["chol", "chol", "chol", "eig", "tridiag", "mulvec"]))
        if kind == "band" and nxt in ("eig", "tridiag"):
            if nxt == "eig":
                d = fresh()
                emit("eig", d, a)
                S[d] = ("vec", n, None, -1)
            else:
                emit("tridiag", a)
            return
        if nxt == "mulvec":
            conf = draw(I(0, 3)) > 0
            if not conf:
                meta["nonconf"] = True
            b = operand("vec", n if conf else other(n))
            d = fresh()
            emit("mul", d, a, b)
            if conf:
                S[d] = ("vec", n, None, -1)
            return
        emit("choldec", a)
        for _ in range(draw(I(0, 2))):
            nx = draw(st.sampled_from(["solve", "solve", "invband", "copy"]))
            if nx == "solve":
                conf = draw(I(0, 4)) > 0
                if not conf:
                    meta["nonconf"] = True
                b = operand("vec", n if conf else other(n))
                emit("solve", a, b)
            elif nx == "invband" and kind == "band":
                d = fresh()
                if d == a:
                    continue
                pbw = draw(I(0, max(n - 1, 0)))
                emit("invband", d, a, pbw)
                S[d] = ("band", n, n, max(pbw, w))
            elif nx == "copy":
                d = fresh()
                if d != a:
                    emit("copy", d, a)
                    S[d] = S[a]

    def m_svd():
        m, n = dim(0, 5), dim(0, 5)
        if (m == 0 or n == 0) and draw(I(0, 2)) > 0:
            m, n = max(m, 1), max(n, 1)
        A = general_mat(m, n) if m and n else np.zeros((m, n))
        if m and n and draw(I(0, 9)) == 0:
            A = np.zeros((m, n))
        a = make_dense("mat", A)
        busy.add(a)
        op = draw(st.sampled_from(["svd", "svd", "svdr", "svd_solve", "svd_solve", "svd_q", "pinv", "pinv"]))
        if op in ("svd", "svdr"):
            t = draw(st.permutations(list(range(NREG))))[:3]
            if op == "svdr":
                a0 = operand("mat", dim(1, 4), dim(1, 4))
                emit("svdr", t[0], t[1], t[2], a0, a)
            else:
                emit("svd", t[0], t[1], t[2], a)
            S[t[0]], S[t[1]], S[t[2]] = ("mat", m, n, -1), ("vec", n, None, -1), ("mat", n, n, -1)
        elif op == "svd_solve":
            conf = draw(I(0, 4)) > 0
            if not conf:
                meta["nonconf"] = True
            b = operand("vec", m if conf else other(m))
            d = fresh()
            emit("svd_solve", d, a, b)
            if conf:
                S[d] = ("vec", n, None, -1)
        elif op == "svd_q":
            emit("svd_q", a)
        else:
            d = fresh()
            emit("pinv", d, a)
            S[d] = ("mat", n, m, -1)

    def m_gso():
        Mr, Nc = dim(1, 4), dim(1, 3)
        if Mr < Nc:
            Mr, Nc = Nc, Mr
        ex_r, ex_c = draw(I(0, 3)), draw(I(0, 2))
        A1 = general_mat(Mr, Nc)
        A = np.array(ints((Mr + ex_r) * (Nc + ex_c), -4, 4), dtype=float).reshape(Mr + ex_r, Nc + ex_c)
        A[:Mr, :Nc] = A1
        if ex_r >= Nc and draw(st.booleans()):
            A[Mr:Mr + Nc, :Nc] = np.eye(Nc)
        a = make_dense("mat", A)
        d = fresh()
        emit("gso", d, a, Mr, Nc)
        S[d] = S[a]

    macros = [m_make, m_make, m_copy, m_copy, m_copy, m_resize, m_resize, m_fill, m_element, m_scalar,
              m_binary, m_binary, m_binary, m_binary, m_unary, m_unary, m_inverse, m_inverse, m_chol, m_chol, m_chol,
              m_svd, m_svd, m_gso]
    for _ in range(draw(I(6, 22))):
        busy.clear()
        draw(st.sampled_from(macros))()
    return {"cmds": cmds, "meta": meta}


def oracle(case, stats):
    fails, flags = run_machine(case["cmds"], stats)
    stats.label("len=%d" % (10 * (len(case["cmds"]) // 10)))
    return fails


def nontrivial(case):
    return bool(case["meta"]["diff"] or case["meta"]["nonconf"])


# ---------------------------------------------------------------------------------------------
# exhaustive part: every tiny integer matrix through inv, SVD, pinv
# ---------------------------------------------------------------------------------------------

def enumerate_tiny():
    """(rows, cols, values) for all matrices over {-1,0,1} up to 3x3 and over {-2..2} for 2x2"""
    for r in (1, 2, 3):
        for c in (1, 2, 3):
            for v in itertools.product((-1, 0, 1), repeat=r * c):
                yield r, c, v
    for v in itertools.product((-2, -1, 0, 1, 2), repeat=4):
        if max(v) == 2 or min(v) == -2:          # the others were enumerated above
            yield 2, 2, v


def check_tiny(r, c, v, ans, stats):
    A = np.array(v, dtype=float).reshape(r, c)
    fails = []
    if ans.get("same") != 1:
        fails.append("exh.argument_modified: inv/SVD/pinv changed their const argument")
    rank = int(np.linalg.matrix_rank(A))
    if r == c:
        x = ans["inv"]
        kappa = cond2(A)
        if isinstance(x, dict):
            stats.label("exh_inv_singular" if not np.isfinite(kappa) or kappa > 1e12 else "exh_inv_refused")
            if kappa <= 1e6:
                fails.append("exh.inv.exc: %s for cond %.3g" % (x, kappa))
            elif x.get("code") != 2:
                fails.append("exh.inv.exc_code: %s" % x)
        else:
            X = arr(x, (r, r))
            stats.label("exh_inv_regular")
            tol = 200 * r * EPS * kappa
            e = amax(X @ A - np.eye(r)) if np.all(np.isfinite(X)) else np.inf
            if kappa <= 1e6 or np.isfinite(e):
                if e <= tol:
                    stats.ratio("exh.inverse", e / tol)
                else:
                    fails.append("exh.inv.value: |inv(A)*A - I| = %.3g, tolerance %.3g" % (e, tol))
    s = ans["svd"]
    if "exc" in s:
        fails.append("exh.svd.exc: %s" % s)
    else:
        U, W, V = arr(s["U"], (r, c)), arr(s["W"], (c,)), arr(s["V"], (c, c))
        f, worst = check_svd(A, U, W, V, "exh.svd")
        fails += ["%s: %s" % t for t in f]
        if not f:
            stats.ratio("exh.svd", worst)
        if s["nullity"] != c - rank:
            fails.append("exh.svd.nullity: %d, rank %d of %d columns" % (s["nullity"], rank, c))
        if np.all(np.isfinite(W)):
            ref = np.zeros(c)
            sv = svals(A)
            ref[:sv.size] = sv
            e = amax(np.sort(np.abs(W))[::-1] - ref)
            tol = 100 * (r + c) * EPS * max(amax(A), 1.0) * max(r, c)
            if e > tol:
                fails.append("exh.svd.singular_values: %s, reference %s" % (W.tolist(), ref.tolist()))
    p = ans["pinv"]
    if isinstance(p, dict):
        fails.append("exh.pinv.exc: %s" % p)
    else:
        P = arr(p, (c, r))
        f, worst = check_pinv(A, P, "exh.pinv")
        fails += ["%s: %s" % t for t in f]
        if not f:
            stats.ratio("exh.pinv", worst)
        if rank < min(r, c):
            stats.label("exh_rank_deficient")
    stats.label("exh_%dx%d" % (r, c))
    return fails


def run_tiny(batch, stats, known_tags=()):
    """batch: list of (r, c, values).  One driver process.  Returns (case, fails) of the first violation or None"""
    script = "".join("batch %d %d %s\n" % (r, c, " ".join(str(float(x)) for x in v)) for r, c, v in batch)
    answers, crash = drv.driver("gdrv_mv", script)
    for k, (r, c, v) in enumerate(batch):
        case = {"r": r, "c": c, "v": list(v)}
        if k >= len(answers):
            return case, ["exh.crash: %s %s" % (crash["kind"], crash["frame"]) if crash else "harness.short: no answer"]
        if "fatal" in answers[k]:
            return case, ["harness.fatal: %s" % answers[k]]
        fails = [f for f in check_tiny(r, c, v, answers[k], stats) if f.split(":", 1)[0] not in known_tags]
        stats.record(case, any(v))
        if fails:
            return case, fails
    if crash is not None:
        return {"r": 0, "c": 0, "v": []}, ["exh.exit.crash: %s %s" % (crash["kind"], crash["frame"])]
    return None


def exhaustive(tier, seed, stats, known_tags):
    W = 16
    k = seed % 1000
    mine = [t for i, t in enumerate(enumerate_tiny()) if i % W == k]
    for i in range(0, len(mine), 400):
        res = run_tiny(mine[i:i + 400], stats, known_tags)
        if res is not None:
            stats.fail = res
            return


def replay_exhaustive(case, stats):
    if not case["r"]:
        return []
    res = run_tiny([(case["r"], case["c"], case["v"])], stats)
    return res[1] if res else []


PARTS = [
    Part("machine", strategy=machine, oracle=oracle, nontrivial=nontrivial,
         n={"quick": 6000, "thorough": 60000},
         sample=lambda c: {"cmds": [[x if not isinstance(x, list) else x[:12] for x in cmd] for cmd in c["cmds"][:40]]}),
    Part("exhaustive", custom=exhaustive, workers=16, n={"quick": 1, "thorough": 1}),
]
