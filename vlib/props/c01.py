"""C01 - every solver returns the weighted least-squares minimiser."""
import numpy as np
from hypothesis import strategies as st

from .. import drv, gen_linear, ref_linalg
from ..runner import Part

ALGS = ["envelope", "cholesky", "gso", "svd"]

RULE = ("Hypothesis generates (A, b, block covariance with bands, regularisation subset) with the rank planted "
        "by construction (exact integer combinations of independent columns, random column order); each case is solved by "
        "all four algorithms through GNU_gama::Adj and through the four AdjBase classes on the numpy-whitened system "
        "and compared with a numpy SVD reference (x, residual identity, normal equations, v'Pv, defect). "
        "Part 'large' (and its relatives): graph-structured sparse problems with 10-40 unknowns and up to ~130 rows (connected components in random numbering, weighted difference / second-difference rows, anchored and floating components = exact defects 0..3, zero columns, covariance blocks up to dimension 10 with any band) through the same oracle. "
        "Network part: generated gama-local networks, the linear system dumped by the driver is re-solved by numpy. "
        "Non-trivial = defect>0 or a covariance block with band>0 or a proper regularisation subset "
        "(or a network with correlated cluster / constrained points); distinct by sha1 of the case.")
ASSUMPTIONS = ["numpy/LAPACK SVD and Cholesky as reference arithmetic",
               "rank 'numerically unambiguous': sigma_r/sigma_1 > 1e-4 and sigma_{r+1}/sigma_1 < 1e-11 on the whitened matrix",
               "regularisation subset 'resolves the defect': sigma_min(G_S)/sigma_max(G_S) >= 0.05"]
REQUIRED_CLASSES = ["d=0", "d>0", "band>0", "subset", "net.fixed", "net.free", "net.correlated"]


def nontrivial(case):
    return (case["d"] > 0 or any(b["width"] > 0 for b in case["blocks"])
            or (case["minx"] is not None and len(set(case["minx"])) < case["n"]))


def reference(case):
    A = np.array(case["A"], float).reshape(case["m"], case["n"])
    C = gen_linear.cov_matrix(case)
    S = None if case["minx"] is None else [i - 1 for i in case["minx"]]
    return A, C, ref_linalg.solve(A, case["b"], C, S)


def whitened_case(case, R):
    """Same problem with the covariance folded into A and b (identity weights)."""
    w = dict(case)
    w["A"] = R.Ab.tolist()
    w["b"] = R.bb.tolist()
    w["blocks"] = [{"dim": 1, "width": 0, "band": [1.0]} for _ in range(case["m"])]
    return w


def labels(case, R, stats):
    stats.label("d=0" if R.d == 0 else "d>0", "defect=%d" % R.d)
    if any(b["width"] > 0 for b in case["blocks"]):
        stats.label("band>0")
    if case["minx"] is None:
        stats.label("minx=none")
    elif len(set(case["minx"])) == case["n"]:
        stats.label("minx=all")
    else:
        stats.label("subset")
    if case.get("zero_col"):
        stats.label("zero_column")
    if case["m"] == R.rank:
        stats.label("no_redundancy")
    if case.get("offset"):
        stats.label("large_abs_terms")
    if case.get("pow2"):
        stats.label("scaled_units", "scaled_2^%d" % case["pow2"])


def check_solution(tag, case, A, C, R, ans, stats, homogenised=False):
    """ans: dict with x, r, rtr, defect (driver answers).  Returns failures."""
    fails = []
    for k in ("x", "r", "rtr", "defect"):
        a = ans.get(k)
        if a is None or "v" not in a:
            fails.append("%s.%s.exception: %s" % (tag, k, a))
    if fails:
        return fails
    try:
        x = np.array(ans["x"]["v"], float)
        r = np.array(ans["r"]["v"], float)
        rtr = float(ans["rtr"]["v"])
    except (TypeError, ValueError):
        return ["%s.nonfinite: %s" % (tag, str(ans)[:300])]
    if x.shape != (R.n,) or r.shape != (R.m,):
        return ["%s.shape: x %s r %s" % (tag, x.shape, r.shape)]
    if not (np.all(np.isfinite(x)) and np.all(np.isfinite(r)) and np.isfinite(rtr)):
        return ["%s.nonfinite: %s" % (tag, str(ans)[:300])]
    b = np.array(case["b"], float)
    nA = max(1.0, np.linalg.norm(A, 2))
    kappa = R.cond / max(R.sg_ratio, 1e-3)
    if ans["defect"]["v"] != R.d:
        if tag.endswith(".gso") and case.get("pow2", 0) >= 14 and ans["defect"]["v"] < R.d:
            # known finding: ICGS compares the norm of an orthogonalised column with the absolute number 1e5*eps
            fails.append("gso_abs_tolerance_upscaled: gso reports defect %s, reference %d, design matrix in units of 2^%d"
                         % (ans["defect"]["v"], R.d, case["pow2"]))
        else:
            fails.append("%s.defect: gama %s, reference %d" % (tag, ans["defect"]["v"], R.d))
        return fails
    # residual identity on the original system
    tol = 1e-9 * (nA * np.linalg.norm(x) + np.linalg.norm(b) + 1.0)
    e = np.max(np.abs(r - (A @ x - b))) if R.m else 0.0
    stats.ratio(tag + ".resid_identity", e / tol)
    if e > tol:
        fails.append("%s.resid_identity: |r-(Ax-b)|=%.3g tol %.3g" % (tag, e, tol))
    # normal equations
    P = np.linalg.inv(C)
    g = A.T @ P @ r
    tol = 1e-8 * nA * nA * np.linalg.norm(P, 2) * (np.linalg.norm(x) + 1.0) * kappa
    e = np.max(np.abs(g)) if R.n else 0.0
    stats.ratio(tag + ".normal_eq", e / tol)
    if e > tol:
        fails.append("%s.normal_eq: |A'Pv|=%.3g tol %.3g" % (tag, e, tol))
    # minimal-norm minimiser
    tol = 1e-8 * kappa * R.scale_x
    e = np.max(np.abs(x - R.x))
    stats.ratio(tag + ".x", e / tol)
    if e > tol:
        fails.append("%s.x: |x-x*|=%.3g tol %.3g (d=%d, S=%s)" % (tag, e, tol, R.d, case["minx"]))
    # sum of squares
    # the reported sum is v'Pv of residuals that carry the rounding of x: d(v'Pv) = 2 sqrt(v'Pv |P|) dv + |P| dv^2 with
    # dv = 1e-11 kappa (|A||x| + |b|) - NOT relative to b'Pb (a formula like b'Pb - x'A'Pb passes such a test whatever it loses)
    vpv = float(r @ P @ r)
    nP = float(np.linalg.norm(P, 2))
    dv = 1e-11 * kappa * (nA * np.linalg.norm(x) + np.linalg.norm(b) + 1.0) * np.sqrt(max(R.m, 1))
    tol = 2 * np.sqrt(max(R.rtr, 0.0) * nP) * dv + nP * dv * dv + 1e-12 * (R.rtr + 1.0)
    e = abs(rtr - vpv)
    stats.ratio(tag + ".rtr", e / tol)
    if e > tol:
        fails.append("%s.rtr: reported %.17g, v'Pv of reported residuals %.17g" % (tag, rtr, vpv))
    e = abs(rtr - R.rtr)
    if e > tol:
        fails.append("%s.rtr_ref: reported %.17g, reference %.17g" % (tag, rtr, R.rtr))
    return fails


def run_queries(case, kind, algs=ALGS):
    script = gen_linear.script_problem(case)
    for k, alg in enumerate(algs):
        script += "new %d %s %s\n%d x\n%d r\n%d rtr\n%d defect\ndel %d\n" % (k, kind, alg, k, k, k, k, k)
    answers, crash = drv.driver("gdrv_adj", script)
    out = {}
    for k, alg in enumerate(algs):
        chunk = answers[6 * k:6 * k + 6]
        if len(chunk) < 6:
            out[alg] = {"crash": crash or {"kind": "short", "frame": "", "text": str(answers[-2:])}}
        else:
            out[alg] = {"x": chunk[1], "r": chunk[2], "rtr": chunk[3], "defect": chunk[4]}
    return out, crash


def oracle_linear(case, stats):
    A, C, R = reference(case)
    if R is None or not R.resolving or R.sg_ratio < 0.05:
        stats.label("discarded_ambiguous")
        return []
    labels(case, R, stats)
    fails = []
    # (a1) through GNU_gama::Adj, original covariance
    res, crash = run_queries(case, "adj")
    for alg in ALGS:
        a = res[alg]
        if "crash" in a:
            fails.append("adj.%s.crash: %s %s" % (alg, a["crash"]["kind"], a["crash"]["frame"]))
            break
        fails += check_solution("adj." + alg, case, A, C, R, a, stats)
    # (a2) AdjBase classes directly; full-matrix ones on the numpy-whitened system
    wc = whitened_case(case, R)
    I = np.eye(case["m"])
    res, crash = run_queries(wc, "raw", ["cholesky", "gso", "svd"])
    res_e, crash_e = run_queries(case, "raw", ["envelope"])
    res.update(res_e)
    for alg in ALGS:
        a = res[alg]
        if "crash" in a:
            fails.append("raw.%s.crash: %s %s" % (alg, a["crash"]["kind"], a["crash"]["frame"]))
            continue
        if alg == "envelope":
            # AdjEnvelope::sum_of_squares is v'Pv; residuals are those of the original system
            fails += check_solution("raw." + alg, case, A, C, R, a, stats)
        else:
            fails += check_solution("raw." + alg, wc, R.Ab, I, _whitened_ref(R), a, stats)
    return fails


def _whitened_ref(R):
    return R


# ------------------------------------------------------------------ (b) network level

@st.composite
def net_case(draw):
    from .. import gen_net
    free = draw(st.integers(0, 2)) == 0
    net = draw(gen_net.determined_network(noise=1, free=free))
    if not free and draw(st.booleans()):
        gen_net.add_mixed_points(draw, net)
    return {"net": net, "alg": draw(st.sampled_from(ALGS))}


def oracle_network(c, stats):
    """the linear system of the last linearisation, as dumped by the library driver, re-solved by numpy"""
    from .. import gen_net, netmodel as nm, netrun, netlin
    from . import c20
    net, alg = c["net"], c["alg"]
    if net.get("free"):
        if not c20.well_posed_free(net):
            stats.label("discarded_free_not_well_posed")
            return []
    elif not gen_net.is_determined(net):
        stats.label("discarded_not_determined")
        return []
    dump, crash = netrun.net_driver(nm.gkf_text(net), alg)
    if crash is not None:
        return ["net.%s.crash: %s %s" % (alg, crash["kind"], crash["frame"])]
    if dump.get("stage") != "adjusted":
        if net.get("free") and alg == "envelope":
            return ["net.envelope_free: well-posed free network not adjusted by envelope: %s" % str(dump)[:200]]
        return ["net.%s.stage: %s" % (alg, str(dump)[:300])]
    if dump.get("removed_points"):
        stats.label("net.points_removed")
        if net.get("free") and alg == "envelope":
            return ["net.envelope_free: envelope removed points %s of a well-posed free network" % dump["removed_points"]]
    A, b, C, minx, R = netlin.reference(dump)
    if R is None or not R.resolving or R.sg_ratio < 0.05:
        stats.label("discarded_ambiguous")
        return []
    stats.label("net.free" if net.get("free") else "net.fixed", "net.d=%d" % R.d)
    if any(cl["band"] > 0 for cl in dump["clusters"]):
        stats.label("net.correlated")
    if net.get("free") and alg == "envelope" and dump["defect"] != R.d:
        return ["net.envelope_free: envelope reports defect %d, numpy %d" % (dump["defect"], R.d)]
    case = {"b": b.tolist(), "minx": [i + 1 for i in minx] if minx else None, "m": A.shape[0], "n": A.shape[1]}
    ans = {"x": {"v": dump["x"]}, "r": {"v": dump["r"]}, "rtr": {"v": dump["vwv"]}, "defect": {"v": dump["defect"]}}
    fails = check_solution("net." + alg, case, A, C, R, ans, stats)
    dof = A.shape[0] - A.shape[1] + R.d
    if dump.get("dof") != dof:
        fails.append("net.%s.dof: reported %s, m - n + d = %d" % (alg, dump.get("dof"), dof))
    return fails


PARTS = [
    Part("linear", strategy=lambda: gen_linear.linear_problem(big_scale=True), oracle=oracle_linear,
         nontrivial=nontrivial, n={"quick": 4000, "thorough": 40000}),
    Part("large", strategy=lambda: gen_linear.graph_problem(big_scale=True), oracle=oracle_linear,
         nontrivial=nontrivial, n={"quick": 600, "thorough": 8000},
         sample=lambda c: {"m": c["m"], "n": c["n"], "d": c["d"], "mode": c["mode"], "minx": c["minx"],
                           "bands": [b["width"] for b in c["blocks"]]}),
    Part("network", strategy=net_case, oracle=oracle_network, n={"quick": 3000, "thorough": 25000},
         nontrivial=lambda c: bool(c["net"].get("free") or any(cl.get("cov") for cl in c["net"]["clusters"])),
         sample=lambda c: {"alg": c["alg"], "free": bool(c["net"].get("free")), "points": [p["id"] for p in c["net"]["points"]]}),
]
