"""C14 - exclusions are reported and equal to deleting the excluded items."""
import copy
import math
import re

import numpy as np
from hypothesis import strategies as st

from .. import gen_net, netmodel as nm, netrun, adjxml
from ..runner import Part
from . import c10, c13

ALGS = ["envelope", "cholesky", "gso", "svd"]

RULE = ("Hypothesis generates error-free determined networks (all cluster types, 1D/2D/3D, 8 axes orientations, both angle "
        "senses, degrees, correlated clusters) with given approximate coordinates and injects (a) blunders whose positional "
        "misclosure is f*tol-abs for generated f around 1 (0.3..4, never closer than 3 % to the threshold) on every observation "
        "type and generated tol-abs, (b) declared points without coordinates and observations, (c) declared points with a single "
        "determining distance, (d) observations to undeclared points, (e) extra stations with a single direction. Oracle: the set "
        "gama flags as outlying (driver dump and the 'Outlying absolute terms' table of the real binary's text output) equals "
        "the set predicted by my own misclosure model; removed points are listed in the text output with the right reason; the "
        "observation counts of the XML summary equal the predicted number of kept observations per type; the XML results equal "
        "those of the input with all excluded items deleted (same coordinates, adjusted observations, v'Pv, dof, covariances), "
        "for the algorithm drawn for the case. Non-trivial = at least one injected defect; distinct by sha1.")
ASSUMPTIONS = ["positional misclosure per type as in the statement's anchor: |l - l0| for lengths, heights, coordinates and their "
               "differences; |angular misclosure| * sight length for directions, angles (backsight), azimuths, zenith angles (slope length)",
               "direction blunders are injected only into sets with >= 3 directions (the orientation is then fixed by the error-free majority)"]
REQUIRED_CLASSES = ["blunder.excluded", "blunder.kept", "defect.iso", "defect.iso_given", "defect.one", "defect.ghost", "defect.single_dir", "defect.dup_dir", "defect.sdist_unused_z", "t.steep",
                    "t.distance", "t.direction", "t.angle", "t.dh", "t.z-angle", "t.s-distance", "t.azimuth", "t.coords", "t.vector"]

K_ANG = 10.0 * nm.R2G      # cc * m -> mm


@st.composite
def case(draw):
    net = draw(gen_net.determined_network(noise=0, allow_cov=True))
    tol = draw(st.sampled_from([10, 30, 100, 1000, 1000, 7000]))
    net["params"]["tol-abs"] = tol
    # (steep terrain: determined_network stretches the heights in half of the 3D cases)
    # eligible observations
    elig = []
    for ci, cl in enumerate(net["clusters"]):
        ndir = sum(1 for o in cl["obs"] if cl["k"] == "obs" and o["t"] == "direction")
        for oi, o in enumerate(cl["obs"]):
            if cl["k"] == "obs" and o["t"] == "direction" and ndir < 3:
                continue
            elig.append((ci, oi))
    nb = draw(st.integers(0, min(3, len(elig))))
    blunders = []
    used_dirsets = set()
    for _ in range(nb):
        zen = [(ci_, oi_) for (ci_, oi_) in elig if net["clusters"][ci_]["k"] == "obs" and net["clusters"][ci_]["obs"][oi_]["t"] == "z-angle"]
        ci, oi = draw(st.sampled_from(zen if (zen and draw(st.integers(0, 2)) == 0) else elig))
        cl = net["clusters"][ci]
        if any(b["ci"] == ci and b["oi"] == oi for b in blunders):
            continue
        if cl["k"] == "obs" and cl["obs"][oi]["t"] == "direction":
            if ci in used_dirsets:
                continue
            used_dirsets.add(ci)
        if draw(st.booleans()):
            f = draw(st.integers(30, 97)) / 100.0
        else:
            f = draw(st.sampled_from([1.03, 1.1, 1.5, 2.0, 4.0, 40.0]))
        comp = draw(st.integers(0, 2))
        blunders.append({"ci": ci, "oi": oi, "f": f, "sign": draw(st.sampled_from([-1, 1])), "comp": comp,
                         "all": draw(st.booleans())})
    defects = []
    nd = draw(st.integers(0, 3))
    ids = [p["id"] for p in net["points"]]
    for k in range(nd):
        kind = draw(st.sampled_from(["iso", "iso_given", "one", "ghost", "single_dir", "dup_dir", "sdist_unused_z"]))
        d = {"kind": kind, "a": draw(st.sampled_from(ids)), "b": draw(st.sampled_from(ids)),
             "t": draw(st.sampled_from(["distance", "direction", "dh"])), "pos": draw(st.integers(0, 50))}
        defects.append(d)
    if draw(st.integers(0, 2)) == 0:
        # perturbed approximate coordinates: every observation gets a misclosure
        amp = draw(st.sampled_from([2, 20, 200]))
        for p in net["points"]:
            if p["xy"] == "adj":
                p["dE"] = draw(st.integers(-amp, amp)) / 1000.0
                p["dN"] = draw(st.integers(-amp, amp)) / 1000.0
            if p["z"] == "adj":
                p["dH"] = draw(st.integers(-amp, amp)) / 1000.0
    return {"net": net, "alg": draw(st.sampled_from(ALGS)), "blunders": blunders, "defects": defects}


def sight(net, cl, ob, P):
    t = ob["t"]
    frm = P[cl["from"]]
    to = P[ob["bs"] if t == "angle" else ob["to"]]
    d0 = nm.hdist(frm, to)
    if t == "z-angle":
        return math.hypot(d0, to["H"] - frm["H"])
    return d0


def apply_blunders(c):
    """-> (net with the blunders written into the errors, types of the blundered observations)"""
    net = copy.deepcopy(c["net"])
    tol = float(net["params"]["tol-abs"])
    P = nm.pmap(net)
    info = []
    for b in c["blunders"]:
        cl = net["clusters"][b["ci"]]
        ob = cl["obs"][b["oi"]]
        mis = b["f"] * tol * b["sign"]           # positional misclosure [mm]
        if cl["k"] == "obs":
            t = ob["t"]
            if t in nm.ANGULAR:
                s = sight(net, cl, ob, P)
                if s < 1e-3:
                    continue
                # steep sights: aim between the thresholds that the horizontal and the slope length would give
                # (a formula using the wrong one of them flips the decision there)
                frm, to = P[cl["from"]], P[ob["bs"] if t == "angle" else ob["to"]]
                d0 = nm.hdist(frm, to)
                d3 = math.hypot(d0, to["H"] - frm["H"])
                if b["all"] and d0 > 1e-3 and d3 / d0 > 1.07:
                    f = 0.5 * (1.0 + d3 / d0) if t == "z-angle" else 0.5 * (1.0 + d0 / d3)
                    mis = f * tol * b["sign"]
                    info.append("steep")
                    info.append("steep." + t)
                ob["e"] = mis * K_ANG / s
            else:
                if nm.obs_truth(net, cl, ob, P) * 1e3 + mis < 1.0:
                    mis = abs(mis)          # lengths stay positive (negative ones are refused by the parser)
                ob["e"] = mis
            if t == "z-angle":
                z = nm.obs_truth(net, cl, ob, P) + ob["e"] * nm.CC2R
                if not (0.02 < z < math.pi - 0.02):
                    ob["e"] = 0.0           # outside the range of zenith angles: no blunder
                    continue
            info.append(t)
        elif cl["k"] == "hdiff":
            ob["e"] = mis
            info.append("dh")
        else:
            # coordinates / vectors: a GKF element carries 2-3 components that are tested one by one;
            # an excluded blunder goes into every component (the element is then deleted as a whole),
            # a kept one (f < 1) into one or all of them
            n = len(ob["e"])
            if b["f"] > 1 or b["all"]:
                ob["e"] = [mis] * n
            else:
                e = [0.0] * n
                e[b["comp"] % n] = mis
                ob["e"] = e
            info.append("coords" if cl["k"] == "coords" else "vector")
    return net, info


def approx_map(net):
    P = {}
    for p in net["points"]:
        q = dict(p)
        q["E"] = p["E"] + p.get("dE", 0.0)
        q["N"] = p["N"] + p.get("dN", 0.0)
        q["H"] = p["H"] + p.get("dH", 0.0)
        P[p["id"]] = q
    return P


def wrap(a):
    return (a + math.pi) % (2 * math.pi) - math.pi


def model_misclosures(net):
    """My model of the positional misclosures [mm] of all observations at the given approximate
    coordinates: [(ci, oi, [misclosure per component])]"""
    Pa = approx_map(net)
    vals = nm.observed_values(net)
    out = []
    for ci, cl in enumerate(net["clusters"]):
        if cl["k"] == "obs":
            # orientation of the set: median of the estimates (mean of the two middle ones), taken relative to the first
            dirs = [oi for oi, ob in enumerate(cl["obs"]) if ob["t"] == "direction"]
            u = [wrap(vals[ci][oi] - nm.obs_truth(net, cl, cl["obs"][oi], Pa)) for oi in dirs]
            shift = 0.0
            if u:
                rel = sorted(wrap(x - u[0]) for x in u)
                n = len(rel)
                a, b = rel[(n - 1) // 2], rel[n // 2]
                m = b if (abs(b - a) > math.pi / 2 and n < 3) else (a + b) / 2
                shift = u[0] + m
            for oi, ob in enumerate(cl["obs"]):
                t = ob["t"]
                comp = nm.obs_truth(net, cl, ob, Pa)
                if t == "direction":
                    d = wrap(vals[ci][oi] - comp - shift)
                elif t in ("angle", "azimuth"):
                    d = wrap(vals[ci][oi] - comp)
                else:
                    d = vals[ci][oi] - comp
                if t in nm.ANGULAR:
                    frm, to = Pa[cl["from"]], Pa[ob["bs"] if t == "angle" else ob["to"]]
                    s = nm.hdist(frm, to)
                    if t == "z-angle":
                        s = math.hypot(s, to["H"] - frm["H"])
                    out.append((ci, oi, [abs(d) * s * 1e3]))
                else:
                    out.append((ci, oi, [abs(d) * 1e3]))
        else:
            for oi, ob in enumerate(cl["obs"]):
                comp = nm.obs_truth(net, cl, ob, Pa)
                v = vals[ci][oi]
                if isinstance(comp, list):
                    out.append((ci, oi, [abs(a - b) * 1e3 for a, b in zip(v, comp)]))
                else:
                    out.append((ci, oi, [abs(v - comp) * 1e3]))
    return out


def homogenised_angular(net):
    """Model of the recorded defect (known finding abs-term-angular-scaled): in the removal phase gama tests angular
    observations with the homogenised absolute term L^-1 b (C/m0^2 = L L') instead of b.
    -> {(ci, oi): |homogenised term| * lever [mm]} for the angular observations"""
    Pa = approx_map(net)
    vals = nm.observed_values(net)
    m0 = float(net["params"]["sigma-apr"])
    out = {}
    for ci, cl in enumerate(net["clusters"]):
        if cl["k"] != "obs" or not any(ob["t"] in nm.ANGULAR for ob in cl["obs"]):
            continue
        dirs = [oi for oi, ob in enumerate(cl["obs"]) if ob["t"] == "direction"]
        u = [wrap(vals[ci][oi] - nm.obs_truth(net, cl, cl["obs"][oi], Pa)) for oi in dirs]
        shift = 0.0
        if u:
            rel = sorted(wrap(x - u[0]) for x in u)
            n = len(rel)
            a, b_ = rel[(n - 1) // 2], rel[n // 2]
            m = b_ if (abs(b_ - a) > math.pi / 2 and n < 3) else (a + b_) / 2
            shift = u[0] + m
        b = []
        for oi, ob in enumerate(cl["obs"]):
            comp = nm.obs_truth(net, cl, ob, Pa)
            if ob["t"] == "direction":
                b.append(wrap(vals[ci][oi] - comp - shift) * nm.R2G * 1e4)
            elif ob["t"] in nm.ANGULAR:
                d = vals[ci][oi] - comp
                b.append((wrap(d) if ob["t"] != "z-angle" else d) * nm.R2G * 1e4)
            else:
                b.append((vals[ci][oi] - comp) * 1e3)
        if cl.get("cov"):
            C = np.array(cl["cov"]["C"], float)
        else:
            C = np.diag([float(ob["sd"]) ** 2 for ob in cl["obs"]])
        try:
            L = np.linalg.cholesky(C / (m0 * m0))
            bh = np.linalg.solve(L, np.array(b))
        except np.linalg.LinAlgError:
            continue
        for oi, ob in enumerate(cl["obs"]):
            if ob["t"] in nm.ANGULAR:
                out[(ci, oi)] = abs(bh[oi]) * sight(net, cl, ob, Pa) / (10 * nm.R2G)
    return out


def expected_flat(expected, net0):
    """one entry per element of `want` (same order as the construction of want)"""
    out = []
    for ci, oi, comps in expected:
        k = net0["clusters"][ci]["k"]
        if k in ("coords", "vectors"):
            out += [(ci, oi, kk) for kk in comps]
        else:
            out.append((ci, oi, None))
    return out


def regroup(flat):
    d = {}
    for ci, oi, k in flat:
        d.setdefault((ci, oi), [])
        if k is not None:
            d[(ci, oi)].append(k)
    return [(ci, oi, sorted(comps) if comps else [0]) for (ci, oi), comps in d.items()]


def build(c, force_expected=None):
    """-> (defective net, cleaned net, expectations ...)"""
    net, info = apply_blunders(c)
    tol = float(net["params"]["tol-abs"])
    dims = net["dims"]
    has_xy, has_z = dims in ("2d", "3d"), dims in ("3d", "1d")
    expected = []          # (ci, oi, [components above tol-abs])
    ambiguous = partial = False
    for ci, oi, mis in model_misclosures(net):
        if any(abs(m - tol) <= 0.02 * tol + 1e-6 for m in mis):
            ambiguous = True
        over = [k for k, m in enumerate(mis) if m > tol]
        if over:
            expected.append((ci, oi, over))
            if len(over) != len(mis):
                partial = True      # cannot be written as a GKF input without the element
    if force_expected is not None:
        expected = force_expected
        sizes = {(ci, oi): len(mis) for ci, oi, mis in model_misclosures(net)}
        partial = any(len(comps) != sizes[(ci, oi)] for ci, oi, comps in expected)
    dirty = copy.deepcopy(net)
    clean = copy.deepcopy(net)
    # delete the excluded observations from the cleaned network (sub-matrix of the covariance)
    by_cluster = {}
    for ci, oi, comps in expected:
        by_cluster.setdefault(ci, []).append(oi)
    for ci, ois in by_cluster.items():
        cl = clean["clusters"][ci]
        keep = [i for i in range(len(cl["obs"])) if i not in ois]
        if cl.get("cov"):
            C = np.array(cl["cov"]["C"], float)
            if cl["k"] in ("coords", "vectors"):
                # rows per component
                sizes = [len(o["e"]) for o in cl["obs"]]
                starts = np.cumsum([0] + sizes)
                rows = [r for i in keep for r in range(starts[i], starts[i + 1])]
            else:
                rows = keep
            C2 = C[np.ix_(rows, rows)]
            cl["cov"] = {"band": min(cl["cov"]["band"], max(len(rows) - 1, 0)), "C": C2.tolist()}
        cl["obs"] = [cl["obs"][i] for i in keep]
    clean["clusters"] = [cl for cl in clean["clusters"] if cl["obs"]]
    # structural defects go only into the dirty network
    exp_removed = {}
    ghosts = []
    labels = []
    gid = 0
    extra_counts = 0
    for d in c["defects"]:
        gid += 1
        kind = d["kind"]
        if kind == "iso":
            name = "Iso%d" % gid
            dirty["points"].append({"id": name, "E": 0.0, "N": 0.0, "H": 0.0, "xy": "adj" if has_xy else None,
                                    "z": "adj" if has_z else None, "give_xy": False, "give_z": False})
            exp_removed[name] = {"2d": {"xy"}, "3d": {"xy", "z"}, "1d": {"z"}}[dims]
            labels.append("defect.iso")
        elif kind == "iso_given":
            # an isolated point WITH coordinates (free or constrained) and no observation at all: nothing determines it
            name = "Sng%d" % gid
            st_ = "constr" if d["pos"] % 2 else "adj"
            dirty["points"].append({"id": name, "E": 12.5 + gid, "N": -7.25, "H": 201.0 + gid, "xy": st_ if has_xy else None,
                                    "z": st_ if has_z else None, "give_xy": has_xy, "give_z": has_z})
            exp_removed[name] = {"2d": {"xy"}, "3d": {"xy", "z"}, "1d": {"z"}}[dims]
            labels.append("defect.iso_given")
        elif kind == "one":
            if not has_xy:
                continue
            name = "One%d" % gid
            dirty["points"].append({"id": name, "E": 0.0, "N": 0.0, "H": 0.0, "xy": "adj", "z": "adj" if has_z else None,
                                    "give_xy": False, "give_z": False})
            st_cl = [cl for cl in dirty["clusters"] if cl["k"] == "obs" and not cl.get("cov")]
            ob = {"t": "distance", "to": name, "sd": 5.0, "e": 0.0, "ghost": 12.345}
            if st_cl:
                cl = st_cl[d["pos"] % len(st_cl)]
                cl["obs"].insert(d["pos"] % (len(cl["obs"]) + 1), ob)
            else:
                dirty["clusters"].append({"k": "obs", "from": d["a"], "from_dh": None, "orient": 0.0, "obs": [ob], "cov": None})
            exp_removed[name] = {"2d": {"xy"}, "3d": {"xy", "z"}}[dims]
            labels.append("defect.one")
        elif kind == "ghost":
            name = "Gh%d" % gid
            t = d["t"]
            if t == "dh" and not has_z:
                t = "distance"
            if t != "dh" and not has_xy:
                t = "dh"
            if t == "dh":
                hd = [cl for cl in dirty["clusters"] if cl["k"] == "hdiff" and not cl.get("cov")]
                ob = {"from": d["a"], "to": name, "sd": 2.0, "dist": None, "e": 0.0, "ghost": 1.234}
                if hd:
                    hd[0]["obs"].insert(d["pos"] % (len(hd[0]["obs"]) + 1), ob)
                else:
                    dirty["clusters"].append({"k": "hdiff", "obs": [ob], "cov": None})
            else:
                st_cl = [cl for cl in dirty["clusters"] if cl["k"] == "obs" and not cl.get("cov")]
                ob = {"t": t, "to": name, "sd": 5.0 if t == "distance" else 10.0, "e": 0.0, "ghost": 12.345}
                if st_cl:
                    cl = st_cl[d["pos"] % len(st_cl)]
                    cl["obs"].insert(d["pos"] % (len(cl["obs"]) + 1), ob)
                else:
                    dirty["clusters"].append({"k": "obs", "from": d["a"], "from_dh": None, "orient": 0.0, "obs": [ob], "cov": None})
            labels.append("defect.ghost")
        elif kind in ("single_dir", "dup_dir"):
            if not has_xy or d["a"] == d["b"]:
                continue
            # a direction set with one target (one reading, or two readings of the same target) has no orientation
            obs_ = [{"t": "direction", "to": d["b"], "sd": 10.0, "e": 0.0} for _ in range(2 if kind == "dup_dir" else 1)]
            dirty["clusters"].insert(d["pos"] % (len(dirty["clusters"]) + 1),
                                     {"k": "obs", "from": d["a"], "from_dh": None, "orient": 123.0, "obs": obs_, "cov": None})
            labels.append("defect." + kind)
        elif kind == "sdist_unused_z":
            # 2D network: two points carry a height that is neither fixed nor adjusted; a slope distance between them
            # cannot be used (its height difference is no parameter and no constant of the adjustment)
            if dims == "3d":
                # station with an adjusted / fixed height, target with horizontal coordinates only but a height value in the file
                Pa = {p["id"]: p for p in dirty["points"]}[d["a"]]
                name = "Tz%d" % gid
                q = {"id": name, "E": Pa["E"] + 31.0, "N": Pa["N"] - 17.0, "H": Pa["H"] + 2.0, "xy": "adj", "z": None,
                     "give_xy": True, "give_z": True}
                for net_ in (dirty, clean):
                    net_["points"].append(dict(q))
                    net_["clusters"].append({"k": "coords", "obs": [{"id": name, "dims": "xy", "e": [0.0, 0.0]}],
                                             "cov": {"band": 0, "C": [[16.0, 0.0], [0.0, 16.0]]}})
                dirty["clusters"].append({"k": "obs", "from": d["a"], "from_dh": None, "orient": 0.0, "cov": None,
                                          "obs": [{"t": "s-distance", "to": name, "sd": 6.0, "e": 0.0}]})
                labels.append("defect.sdist_unused_z")
                continue
            if dims != "2d" or d["a"] == d["b"]:
                continue
            Pd = {p["id"]: p for p in dirty["points"]}
            for q in (d["a"], d["b"]):
                Pd[q]["give_z"] = True
            ob = {"t": "s-distance", "to": d["b"], "sd": 6.0, "e": 0.0}
            dirty["clusters"].append({"k": "obs", "from": d["a"], "from_dh": None, "orient": 0.0, "obs": [ob], "cov": None})
            labels.append("defect.sdist_unused_z")
    return dirty, clean, expected, exp_removed, labels, info, ambiguous, partial


def kept_counts(net):
    """expected <observations-summary> of a network in which every listed observation takes part,
    except direction sets with fewer than two directions"""
    cnt = {"distances": 0, "directions": 0, "angles": 0, "xyz-coords": 0, "h-diffs": 0, "z-angles": 0, "s-dists": 0,
           "vectors": 0, "azimuths": 0}
    key = {"distance": "distances", "direction": "directions", "angle": "angles", "z-angle": "z-angles",
           "s-distance": "s-dists", "azimuth": "azimuths"}
    for cl in net["clusters"]:
        if cl["k"] == "obs":
            nd = sum(1 for o in cl["obs"] if o["t"] == "direction")
            for o in cl["obs"]:
                if o["t"] == "direction" and nd < 2:
                    continue
                cnt[key[o["t"]]] += 1
        elif cl["k"] == "hdiff":
            cnt["h-diffs"] += len(cl["obs"])
        elif cl["k"] == "coords":
            cnt["xyz-coords"] += sum(len(o["e"]) for o in cl["obs"])
        elif cl["k"] == "vectors":
            cnt["vectors"] += len(cl["obs"])
    return cnt


OUT_HEAD = "Outlying absolute terms in project equations"
RM_HEAD = "Removed points and coordinates"
REASON = {0: "xyz", 1: "xy", 2: "z"}


LABELS = {"distance": " dist. ", "direction": " dir.  ", "angle": " angle ", "dh": " h dif ", "s-distance": " slope ",
          "z-angle": " zen.  ", "azimuth": " azim. ", "x": " x     ", "y": " y     ", "z": " z     ",
          "dx": " x dif ", "dy": " y dif ", "dz": " z dif "}


def text_sections(txt):
    """-> (rows of the outlying table, {type label: count} in it, {point: [reason text]})"""
    rows, labels = None, {}
    if OUT_HEAD in txt:
        part = txt.split(OUT_HEAD, 1)[1]
        part = part.split("\n\n\n", 1)[0]
        body = part.split("==\n", 1)[1] if "==\n" in part else part
        rows = [l for l in body.splitlines() if re.match(r"^\s*\d+\s", l)]
        for t, lab in LABELS.items():
            n = body.count(lab)
            if n:
                labels[t] = n
    removed = {}
    if RM_HEAD in txt:
        part = txt.split(RM_HEAD, 1)[1].split("\n\n\n", 1)[0]
        for l in part.splitlines()[2:]:
            m = re.match(r"^\s*(\S+)\s{3}(.*\S)\s*$", l)
            if m:
                removed.setdefault(m.group(1), []).append(m.group(2))
    return rows, labels, removed


def oracle(c, stats):
    net0 = c["net"]
    if not gen_net.is_determined(net0):
        stats.label("discarded_not_determined")
        return []
    dirty, clean, expected, exp_removed, labels, info, ambiguous, partial = build(c)
    if ambiguous:
        stats.label("discarded_near_threshold")
        return []
    if any(p.get("dE") or p.get("dN") or p.get("dH") for p in net0["points"]):
        stats.label("approx_perturbed")
    for l in labels:
        stats.label(l)
    for t in info:
        stats.label("t." + t)
    ghosts = []
    text_dirty = c10.gkf_with_ghosts(dirty, ghosts)
    text_clean = nm.gkf_text(clean)
    alg = c["alg"]
    fails = []
    # ---- what gama flags (library driver) ----
    dump, crash = netrun.net_driver(text_dirty, alg)
    if crash is not None:
        return ["driver.crash: %s %s" % (crash["kind"], crash["frame"])]
    flagged = [(o["t"], o["from"], o["to"], o.get("fs")) for o in dump.get("outlying", [])]
    want = []
    for ci, oi, comps in expected:
        ob = net0["clusters"][ci]["obs"][oi]
        clk = net0["clusters"][ci]["k"]
        if clk == "obs":
            want.append((ob["t"], net0["clusters"][ci]["from"], ob["bs"] if ob["t"] == "angle" else ob["to"], ob.get("fs")))
        elif clk == "hdiff":
            want.append(("dh", ob["from"], ob["to"], None))
        elif clk == "coords":
            names = [k for k in ("x", "y", "z") if (k in ("x", "y") and "xy" in ob["dims"]) or (k == "z" and "z" in ob["dims"])]
            for k in comps:
                want.append((names[k], ob["id"], "", None))
        else:
            for k in comps:
                want.append((("dx", "dy", "dz")[k], ob["from"], ob["to"], None))
    idents = {}
    dup = False
    for ci, cl0 in enumerate(net0["clusters"]):
        for oi, ob in enumerate(cl0["obs"]):
            if cl0["k"] == "obs":
                keys = [((ob["t"], cl0["from"], ob["bs"] if ob["t"] == "angle" else ob["to"], ob.get("fs")), None)]
            elif cl0["k"] == "hdiff":
                keys = [(("dh", ob["from"], ob["to"], None), None)]
            elif cl0["k"] == "coords":
                names = [k for k in ("x", "y", "z") if (k in ("x", "y") and "xy" in ob["dims"]) or (k == "z" and "z" in ob["dims"])]
                keys = [((n, ob["id"], "", None), k) for k, n in enumerate(names)]
            else:
                keys = [((n, ob["from"], ob["to"], None), k) for k, n in enumerate(("dx", "dy", "dz"))]
            for key, comp in keys:
                if key in idents:
                    dup = True
                idents[key] = (ci, oi, comp)
    # two observations with the same type and end points cannot be told apart in gama's listing
    allkeys = []
    for ci_, cl0_ in enumerate(net0["clusters"]):
        for ob_ in cl0_["obs"]:
            if cl0_["k"] == "obs":
                allkeys.append((ob_["t"], cl0_["from"], ob_["bs"] if ob_["t"] == "angle" else ob_["to"], ob_.get("fs")))
            elif cl0_["k"] == "hdiff":
                allkeys.append(("dh", ob_["from"], ob_["to"], None))
    if any(allkeys.count(w) > 1 for w in set(want) | set(flagged)):
        stats.label("discarded_duplicate_observation")
        return []
    if sorted(map(str, flagged)) != sorted(map(str, want)):
        missing = [w for w in want if w not in flagged]
        extra = [f for f in flagged if f not in want]
        ANG = ("direction", "angle", "azimuth", "z-angle")
        tol_s = net0["params"]["tol-abs"]
        # known finding (one root cause, two symptoms): the removal phase tests angular observations with the
        # homogenised absolute term b*m0/sigma instead of b
        # The recorded defect is modelled exactly (homogenised_angular): only a discrepancy that this model predicts is
        # reported under the known tags; any other disagreement on an angular observation is a violation of its own.
        hom = homogenised_angular(apply_blunders(c)[0])
        rev = {(v[0], v[1]): k for k, v in idents.items()}
        ang_all = [(ci_, oi_) for (ci_, oi_) in hom if (ci_, oi_) in rev]
        want_set = set(map(str, want))
        pred_removed = set(str(rev[k]) for k in ang_all if hom[k] > float(tol_s))
        pred_missing = sorted(str(rev[k]) for k in ang_all if str(rev[k]) in want_set and str(rev[k]) not in pred_removed)
        pred_extra = sorted(str(rev[k]) for k in ang_all if str(rev[k]) not in want_set and str(rev[k]) in pred_removed)
        got_missing = sorted(str(w) for w in missing if w[0] in ANG)
        got_extra = sorted(str(w) for w in extra if w[0] in ANG)
        if got_missing != pred_missing or got_extra != pred_extra:
            if any(abs(hom[k] - float(tol_s)) <= 0.02 * float(tol_s) + 1e-6 for k in ang_all):
                stats.label("discarded_near_threshold")
                return []
            fails.append("threshold.angular_unexplained: angular observations kept/excluded differently from both the stated rule and the "
                         "recorded homogenised-term defect: wrongly kept %s (defect model %s), wrongly excluded %s (defect model %s), tol-abs=%s"
                         % (got_missing[:3], pred_missing[:3], got_extra[:3], pred_extra[:3], tol_s))
        else:
            stats.label("known_angular_threshold.modelled")
        if [w for w in missing if w[0] in ANG]:
            fails.append("threshold.angular_not_excluded: positional misclosure above tol-abs=%s but not excluded: %s" % (tol_s, [w for w in missing if w[0] in ANG][:3]))
        if [w for w in extra if w[0] in ANG]:
            fails.append("threshold.angular_excluded: excluded although the positional misclosure is below tol-abs=%s: %s" % (tol_s, [w for w in extra if w[0] in ANG][:3]))
        def correlated(w):
            k = idents.get(w)
            cl0 = net0["clusters"][k[0]] if k else None
            return bool(cl0 and cl0.get("cov") and cl0["cov"]["band"] > 0)
        miss_lin = [w for w in missing if w[0] not in ANG]
        if [w for w in miss_lin if correlated(w)]:
            # same root cause: test_abs_term() returns the homogenised absolute term as truth value; inside a correlated
            # cluster it can be exactly zero although the misclosure is above tol-abs
            fails.append("threshold.correlated_not_excluded: misclosure above tol-abs=%s but not excluded (correlated cluster): %s" % (tol_s, [w for w in miss_lin if correlated(w)][:3]))
        if [w for w in miss_lin if not correlated(w)]:
            fails.append("threshold.not_excluded: misclosure above tol-abs=%s but not flagged: %s" % (tol_s, [w for w in miss_lin if not correlated(w)][:3]))
        if [w for w in extra if w[0] not in ANG]:
            fails.append("threshold.excluded: flagged as outlying although the misclosure is below tol-abs=%s: %s" % (tol_s, [w for w in extra if w[0] not in ANG][:3]))
        # the equivalence below is checked against what gama really excluded
        if dup or any(f not in idents for f in flagged):
            stats.label("flagged_not_identifiable")
            return fails
        stats.label("known_angular_threshold")
        expected2 = regroup([idents[f] for f in flagged])
        dirty, clean, _, exp_removed, labels2, info2, amb2, partial = build(c, force_expected=expected2)
        text_clean = nm.gkf_text(clean)
        want = list(flagged)
    stats.label("blunder.excluded") if expected else None
    if any(b["f"] < 1 for b in c["blunders"]):
        stats.label("blunder.kept")
    # removed points (library lists); a point may be listed once per group of coordinates
    COVER_MISSING = {0: {"xy", "z"}, 1: {"xy"}, 2: {"z"}}
    COVER_SINGULAR = {3: {"xy"}, 4: {"z"}}
    got_removed = {}
    for name, code in dump.get("removed_points", []):
        got_removed.setdefault(name, []).append(code)
    for name, need in exp_removed.items():
        if dump.get("stage") != "adjusted":
            break              # nothing to adjust at all: the run ends with an error document
        if name not in got_removed:
            fails.append("removed.not_listed: point %s (no coordinates, not determinable) is not in removed_points %s" % (name, sorted(got_removed)))
        else:
            cov = set()
            COVER = COVER_SINGULAR if name.startswith("Sng") else COVER_MISSING
            for code in got_removed[name]:
                cov |= COVER.get(code, set())
            if cov != need or any(code not in COVER for code in got_removed[name]):
                fails.append("removed.reason: point %s removed with codes %s, expected %s coordinates %s"
                             % (name, got_removed[name], "singular" if name.startswith("Sng") else "missing", sorted(need)))
    for name in got_removed:
        if name not in exp_removed:
            stats.label("other_point_removed")
    if any(not (f.startswith("threshold.angular_") or f.startswith("threshold.correlated_")) for f in fails):
        return fails
    # the approximate orientation of a direction set is the median over all its directions, also the excluded
    # ones: when deleting them moves the median so that another observation changes sides, the reduced input is
    # a different problem (discarded, counted)
    tol = float(net0["params"]["tol-abs"])
    if any(m > 0.98 * tol for _, _, mis in model_misclosures(clean) for m in mis):
        stats.label("discarded_cascade")
        return fails
    if partial:
        # one component of a <point>/<vec> element excluded, the others kept: no GKF input describes the rest
        stats.label("partial_element")
        return fails
    # ---- the real binary: text + XML ----
    res = netrun.gama_local(text_dirty, ["--algorithm", alg], outputs=("xml", "text"))
    if res["crash"] is not None:
        return fails + ["run.crash: %s %s" % (res["crash"]["kind"], res["crash"]["frame"])]
    try:
        x1 = adjxml.parse_adjustment(res["xml"] or "")
    except adjxml.NotWellFormed as e:
        return fails + ["run.xml: %s" % e]
    x0, err = c10.run(None, alg, text_clean)
    if err:
        return fails + ["clean." + err]
    if "error" in x1 or "error" in x0:
        if ("error" in x1) != ("error" in x0):
            return fails + ["equiv.acceptance: with defects %s, cleaned %s" % (x1.get("error"), x0.get("error"))]
        stats.label("both_refused")
        return fails
    txt = res.get("text") or ""
    rows, row_labels, removed_txt = text_sections(txt)
    if want:
        if rows is None:
            fails.append("report.outlying_missing: %d observations were excluded for their absolute terms but the text output has no "
                         "'Outlying absolute terms' section" % len(want))
        elif len(rows) != len(want):
            fails.append("report.outlying_rows: %d rows in the table, %d observations excluded" % (len(rows), len(want)))
        else:
            exp_labels = {}
            for w in want:
                exp_labels[w[0]] = exp_labels.get(w[0], 0) + 1
            if exp_labels != row_labels:
                fails.append("report.outlying_types: table lists %s, excluded %s" % (row_labels, exp_labels))
    elif rows:
        fails.append("report.outlying_spurious: table with %d rows but nothing is excluded" % len(rows))
    for name, need in exp_removed.items():
        if name not in removed_txt:
            fails.append("report.removed_point_missing: %s not listed under '%s': %s" % (name, RM_HEAD, sorted(removed_txt)))
        else:
            cov = set()
            for reason in removed_txt[name]:
                if name.startswith("Sng"):
                    m = re.match(r"^singular coordiantes? (xy|z)$", reason)
                else:
                    m = re.match(r"^missing coordiantes (xyz|xy|z)$", reason)
                if not m:
                    fails.append("report.removed_point_reason: %s listed with '%s', expected %s coordinates"
                                 % (name, reason, "singular" if name.startswith("Sng") else "missing"))
                else:
                    cov |= {"xyz": {"xy", "z"}, "xy": {"xy"}, "z": {"z"}}[m.group(1)]
            if cov != need:
                fails.append("report.removed_point_reason: %s listed with %s, expected missing coordinates %s" % (name, removed_txt[name], sorted(need)))
    # counts of the XML summary = predicted kept observations
    if not got_removed or set(got_removed) <= set(exp_removed):
        cnt = kept_counts(clean)
        got = x1["summary"]["obs"]
        for k, v in cnt.items():
            if got.get(k) != v:
                fails.append("report.count: <%s> %s, predicted %d kept observations" % (k, got.get(k), v))
    # an excluded slope distance / zenith angle with instrument heights still takes part in the refinement of the
    # dh reductions and may trigger one more linearisation iteration: the two runs agree within gama's stopping
    # criteria (tolerances as in C13), not to the last digit
    tolc = 2e-5
    P = nm.pmap(net0)
    for cl in net0["clusters"]:
        if cl["k"] == "obs":
            for o in cl["obs"]:
                if o["t"] == "z-angle" and (o.get("from_dh") or o.get("to_dh") or cl.get("from_dh")):
                    tolc = max(tolc, 2.0 * 1.571e-7 * nm.hdist(P[cl["from"]], P[o["to"]]))
    same_path = x0["summary"]["iterations"] == x1["summary"]["iterations"]
    if same_path:
        fails += c10.compare("equiv", x0, x1, stats)
    elif max(x0["summary"]["iterations"], x1["summary"]["iterations"]) >= 5:
        stats.label("discarded_iteration_limit")        # one of the runs did not converge (as in C13)
    else:
        stats.label("iterations_differ")
        tol_ang = 5e-1
        kept = [b for b in c["blunders"] if not any(ci == b["ci"] and oi == b["oi"] for ci, oi, _ in expected)]
        if kept:
            # a kept blunder leaves a large residual v: Gauss-Newton then converges only linearly (ratio ~ v/sight), and
            # gama stops when the second-order term of the last correction is below 0.0005 mm, i.e. correction
            # < sqrt(5e-7 m * sight); the next correction - the distance of two accepted stopping points - is bounded by
            # ratio * that.  Error-free cases (quadratic convergence) keep the tight tolerance.
            stats.label("iterations_differ.kept_blunder")
            vmax = max(b["f"] for b in kept) * net0["params"]["tol-abs"] * 1e-3
            ds = [sight(net0, cl0, ob, P) for cl0 in net0["clusters"] if cl0["k"] == "obs" for ob in cl0["obs"]]
            ds = [d for d in ds if d and d > 0]
            if ds:
                slack = 2.0 * min(1.0, vmax / min(ds)) * math.sqrt(5e-7 * max(ds))
                if any(ob["t"] in ("z-angle", "azimuth") for cl0 in net0["clusters"] if cl0["k"] == "obs" for ob in cl0["obs"]):
                    # zenith angles and azimuths are not part of gama's convergence test: a run that stops at the given
                    # approximate coordinates keeps their second-order term of the shift caused by the kept blunder (as in C06)
                    slack += 4.0 * vmax * vmax / min(ds)
                tolc = max(tolc, slack)
                tol_ang = max(tol_ang, slack / min(ds) * nm.R2G * 1e4)
        fl = c13.compare_results("equiv", x0, x1, stats, tolc, tol_ang)
        # error-free observations: v'Pv is the squared second-order remainder of the linearisation (zenith angles and
        # azimuths are not part of gama's convergence test); two noise-level values are not compared
        if max(x0["summary"]["sum_of_squares"], x1["summary"]["sum_of_squares"]) < 1e-3:
            fl = [f_ for f_ in fl if not f_.startswith("equiv.sum_of_squares")]
            if net0["params"].get("sigma-act", "aposteriori") == "aposteriori":
                # ... and neither are the standard deviations scaled by the a posteriori m0 made of them
                fl = [f_ for f_ in fl if not f_.startswith("equiv.obs_stdev")]
        fails += fl
    return fails


def nontrivial(c):
    return bool(c["blunders"] or c["defects"])


PARTS = [
    Part("exclusions", strategy=case, oracle=oracle, nontrivial=nontrivial, n={"quick": 8000, "thorough": 60000},
         sample=lambda c: {"alg": c["alg"], "blunders": c["blunders"], "defects": c["defects"],
                           "gkf": nm.gkf_text(c["net"])[:800]}),
]
