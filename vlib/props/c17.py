"""C17 - statistical critical values invert the distributions they belong to.

gama's convention (statan.cpp, network.cpp `Student((1-conf_pr)/2, dof)`): Normal(alpha),
Student(alpha, N), Chi_square(alpha, N) are UPPER-tail critical values, i.e. the reference is
scipy's isf (norm.isf, t.isf, chi2.isf); NormalDistribution(x) is the lower-tail cdf.
"""
import math

import numpy as np
from scipy import stats as sst, special
from hypothesis import strategies as st

from .. import drv
from ..runner import Part, split_known

RULE = ("Deterministic grids, no randomness: (grid) a mirror-symmetric grid of 2001 probabilities in [5e-4, 1-5e-4] "
        "(1000 equidistant values below 0.5, 0.5 itself, and the exact floats 1-a, plus 10 values within 1e-7 of the zero crossing 0.5) x degrees of freedom 1..1000 and "
        "{2000, 1e4, 1e6}; quick evaluates the full grid for dof<=60 and the three large dof and every 4th probability "
        "(offset by seed) for dof 61..1000, thorough evaluates everything. Each (function, dof, probability) is one case: "
        "value compared with scipy.stats isf, monotone along the grid, Normal/Student mirror pairs symmetric, "
        "NormalDistribution(Normal(a)) = 1-a. (ndist) x in [-40,40] on a regular grid plus the branch points of the "
        "implementation, one case per x. (scan) monotonicity/finiteness blocks: one case = one (function, dof, tail, "
        "range) block of 100-2001 ordered probabilities, log-spaced tail probabilities from 1e-12 to 5e-4 in both tails, "
        "micro blocks of relative width 3e-4 at 7 tail probabilities per tail (steps so small that numerical noise and "
        "jumps of the implementation show), dense central blocks (thorough), and narrow blocks around the probability "
        "where Chi_square switches between its two approximations; every block counts once. (tails, ndist_random) Hypothesis: pairs of probabilities in "
        "[1e-12, 1-1e-12] (log-uniform tails, arbitrary closeness) with their exact mirrors, dof biased to small values. "
        "Every case is non-trivial (each evaluates gama and an independent reference); distinct by sha1 of the case.")
ASSUMPTIONS = [
    "reference quantiles and cdf: scipy.stats norm/t/chi2 (isf, cdf, pdf), float64; Student within 1e-5 of alpha = 0.5: "
    "two-term series around the zero crossing (scipy's t.isf is only good to 3e-8 absolute there)",
    "accuracy bound |gama - ref| <= rel*|ref| + 1e-9 with rel = 1e-6 (normal), 5e-4 (Student), 5e-3 (chi-square), "
    "asserted only for probabilities in [5e-4, 1-5e-4]",
    "monotone = no rise visible at the precision the property states for the function: value(a2) <= value(a1) + "
    "rel*max|value| + 1e-9 for a1 < a2 (numerical noise of the correction step of Normal is ~1e-16/alpha relative, "
    "so a tighter slack would only measure rounding); the worst rise/slack is reported as <fn>.monotone",
    "symmetry of Normal/Student asserted with the accuracy bound of the function on exact float mirror pairs a, 1-a",
    "NormalDistribution(Normal(a)) = 1-a within 1e-6*|q|*pdf(q) + 1e-9 (the quantile bound mapped through the density); "
    "NormalDistribution(x) = cdf(x) within 1e-6*cdf(x) + 1e-9, density within 1e-6*pdf(x) + 1e-9",
    "KSprob is exposed by the driver but the property statement makes no claim about it: not asserted",
]
REQUIRED_CLASSES = ["fn=normal", "fn=student", "fn=chi2", "dof=1", "dof=2", "dof>=1000", "tail<1e-9", "mirror_pair"]

REL = {"normal": 1e-6, "student": 5e-4, "chi2": 5e-3}
ABS = 1e-9
A_LO, A_HI = 5e-4, 1 - 5e-4
P_MIN = 1e-12
D_SLACK = 1e-12          # NormalDistribution: non-decreasing in x up to this absolute slack
BIG = [2000, 10000, 1000000]
ALL_DOFS = list(range(1, 1001)) + BIG

# ---------------------------------------------------------------------------------------------
# Regions where the UNCHANGED code is not monotone beyond its printed precision (measured
# 2026-10, see the final report).  A monotonicity failure gets a specific tag only inside these
# regions, so that recording the tag as a known finding hides nothing else.
#  F2  Chi_square, dof 3..8, far tails: the polynomial in the normal quantile breaks down and
#      the value RISES with the probability (by up to 30 %)
FAR_UPPER = {3: 7.5e-11}                       # dof -> alpha below which values rise with alpha
FAR_LOWER = {3: 4e-7, 4: 9e-8, 5: 7.5e-9, 6: 5.5e-10, 7: 3.5e-11, 8: 2.5e-12}   # dof -> 1-alpha
TAG_FAR = "chi2.monotone_far_tail_dof3to8"
#  F1  Normal, upper tail alpha < 2.5e-12: the correction step computes 1 - D(z) with D(z) ~ 1
#      (statan.cpp Normal(): `f = 1 - f`), cancellation noise ~1e-16/alpha relative reaches
#      the 1e-6 precision at the very end of the domain
NOISE_ALPHA = 2.5e-12
NOISE_MAX_REL = 4e-6
TAG_NOISE = "normal.monotone_cancellation_noise"
#  F3  Student, N = 2, |alpha - 0.5| <= 2e-7: the closed form sqrt(2/(a(2-a)) - 2) cancels
#      (statan.cpp Student(), branch N <= 2); absolute error ~2e-16/q, up to 2.1e-8 at the zero crossing,
#      above the bound 5e-4 q + 1e-9 for q < ~2.2e-7 (|alpha - 0.5| < ~8e-8)
HALF_WIDTH = 2e-7
HALF_MAX_ABS = 1e-6
TAG_HALF = "student.dof2_cancellation_at_half"


def student_half(fn, dof, a, v):
    return fn == "student" and dof == 2 and abs(a - 0.5) <= HALF_WIDTH and abs(v) <= HALF_MAX_ABS


def known_tag(fn, dof, a1, a2, v1, v2):
    """a1 < a2 and v2 > v1 + slack (an increase).  Name of the recorded region, or None."""
    if fn == "chi2":
        if a2 <= 0.5 and a1 < FAR_UPPER.get(dof, 0.0):
            return TAG_FAR
        if a1 >= 0.5 and (1.0 - a2) < FAR_LOWER.get(dof, 0.0):
            return TAG_FAR
    if fn == "normal":
        if a2 < NOISE_ALPHA and (v2 - v1) <= NOISE_MAX_REL * abs(v1):
            return TAG_NOISE
    if student_half(fn, dof, a1, v1) and student_half(fn, dof, a2, v2):
        return TAG_HALF
    return None


# ---------------------------------------------------------------------------------------------
def fl(x):
    return float(x)


def num(v):
    return float(v) if not isinstance(v, str) else float(v)      # "nan" / "inf" / "-inf"


def reference(fn, dof, al):
    """scipy isf; Student within 1e-5 of the zero crossing alpha = 0.5: two terms of the series
    q = u + (nu+1)/(6 nu) u^3, u = (0.5-alpha)/pdf(0) (relative truncation error < 1e-17 there),
    because scipy's t.isf / t.sf are only good to ~3e-8 absolute at the zero crossing
    (measured: t.isf(0.5-2^-54, 4) = 2.98e-8; both agree to 1e-4 of the tolerance at |alpha-0.5| = 1e-5)"""
    al = np.asarray(al, dtype=float)
    if fn == "normal":
        return sst.norm.isf(al)
    if fn == "chi2":
        return sst.chi2.isf(al, dof)
    q = sst.t.isf(al, dof)
    near = np.abs(al - 0.5) <= 1e-5
    if near.any():
        nu = float(dof)
        lp = special.gammaln((nu + 1) / 2) - special.gammaln(nu / 2) - 0.5 * math.log(nu * math.pi)
        u = (0.5 - al[near]) / math.exp(lp)
        q = q.copy()
        q[near] = u + (nu + 1) / (6 * nu) * u ** 3
    return q


def gama_eval(requests):
    """requests: list of (fn, dof, sequence of floats); fn in normal|student|chi2|ndist.
    One driver process. Returns (list of numpy arrays (ndist: (D, f)), failure string or None)."""
    lines = []
    for fn, dof, al in requests:
        args = " ".join(repr(fl(a)) for a in al)
        if fn in ("normal", "ndist"):
            lines.append("%s %s" % (fn, args))
        else:
            lines.append("%s %d %s" % (fn, dof, args))
    ans, crash = drv.driver("gdrv_prim", "\n".join(lines) + "\n", timeout=900)
    if crash is not None:
        return None, "driver.crash: %s %s after %d answers" % (crash["kind"], crash["frame"], len(ans))
    if len(ans) != len(requests):
        return None, "driver.answer: %d answers for %d commands" % (len(ans), len(requests))
    out = []
    for (fn, dof, al), a in zip(requests, ans):
        if fn == "ndist":
            if "D" not in a:
                return None, "driver.answer: %s" % str(a)[:300]
            out.append((np.array([num(x) for x in a["D"]]), np.array([num(x) for x in a["f"]])))
        else:
            if "v" not in a:
                return None, "driver.answer: %s" % str(a)[:300]
            out.append(np.array([num(x) for x in a["v"]]))
    return out, None


def check_values(fn, dof, al, v, stats):
    """al: ascending numpy array of probabilities, v: gama's values.
    Returns a list of (tag, text, sub_alphas); at most one entry per tag (the worst instance)."""
    fails = []
    bad = ~np.isfinite(v)
    if bad.any():
        i = int(np.argmax(bad))
        fails.append((fn + ".nonfinite", "%s(%r%s) = %r" % (fn, fl(al[i]), dofs(fn, dof), fl(v[i])), [fl(al[i])]))
        return fails
    # accuracy on [5e-4, 1-5e-4]
    m = (al >= A_LO) & (al <= A_HI)
    if m.any():
        q = reference(fn, dof, al[m])
        tol = REL[fn] * np.abs(q) + ABS
        r = np.abs(v[m] - q) / tol
        if fn == "student" and dof == 2:
            kn = np.array([student_half(fn, dof, fl(a), fl(x)) for a, x in zip(al[m], v[m])]) & (r > 1)
            if kn.any():
                i = int(np.argmax(np.where(kn, r, -1)))
                a = fl(al[m][i])
                fails.append((TAG_HALF, "student(%r, 2) = %.12g, true quantile %.12g, |err| %.3g > %.3g" %
                              (a, v[m][i], q[i], abs(v[m][i] - q[i]), tol[i]), [a]))
                r = np.where(kn, 0.0, r)
        i = int(np.argmax(r))
        stats.ratio(fn + ".accuracy", float(r[i]))
        if r[i] > 1:
            a = fl(al[m][i])
            fails.append((fn + ".accuracy", "%s(%r%s) = %.12g, true quantile %.12g, |err| %.3g > %.3g (rel %g)" %
                          (fn, a, dofs(fn, dof), v[m][i], q[i], abs(v[m][i] - q[i]), tol[i], REL[fn]), [a]))
        if fn == "chi2" and (v[m] <= 0).any():
            i = int(np.argmax(v[m] <= 0))
            fails.append(("chi2.nonpositive", "chi2(%r, %d) = %r" % (fl(al[m][i]), dof, fl(v[m][i])), [fl(al[m][i])]))
    # monotone (non-increasing in alpha) at the precision the property states for the function
    if len(al) > 1:
        dv = v[1:] - v[:-1]
        slack = REL[fn] * np.maximum(np.abs(v[1:]), np.abs(v[:-1])) + ABS
        ratio = dv / slack
        worst = {}
        top = 0.0
        for i in np.nonzero(dv > 0)[0]:
            tag = known_tag(fn, dof, fl(al[i]), fl(al[i + 1]), fl(v[i]), fl(v[i + 1])) or (fn + ".monotone")
            if ratio[i] > 1 and (tag not in worst or ratio[i] > worst[tag][0]):
                worst[tag] = (float(ratio[i]), int(i))
            if tag == fn + ".monotone":
                top = max(top, float(ratio[i]))
        stats.ratio(fn + ".monotone", top)
        for tag in sorted(worst):
            i = worst[tag][1]
            fails.append((tag, "%s(%r%s) = %.15g < %s(%r%s) = %.15g: value rises by %.3g (rel %.3g, %.3g x the "
                          "printed precision) when the probability grows" %
                          (fn, fl(al[i]), dofs(fn, dof), v[i], fn, fl(al[i + 1]), dofs(fn, dof), v[i + 1], dv[i],
                           dv[i] / max(abs(v[i]), 1e-300), worst[tag][0]), [fl(al[i]), fl(al[i + 1])]))
    # symmetry on exact mirror pairs
    if fn in ("normal", "student"):
        pos = {fl(a): i for i, a in enumerate(al)}
        worst = None
        half = None
        for a, i in pos.items():
            if a >= 0.5:
                continue
            j = pos.get(1.0 - a)
            # gama reduces 1-a to 1-(1-a): only pairs for which that is a again (to 1e-12 relative) are mirrors
            if j is None or abs((1.0 - (1.0 - a)) - a) > 1e-12 * a:
                continue
            stats.label("mirror_pair")
            tol = REL[fn] * max(abs(v[i]), abs(v[j])) + ABS
            r = abs(v[i] + v[j]) / tol
            if r > 1 and (student_half(fn, dof, a, v[i]) and student_half(fn, dof, fl(al[j]), v[j])):
                half = (i, j)
                continue
            if worst is None or r > worst[0]:
                worst = (r, i, j)
        if half is not None:
            i, j = half
            fails.append((TAG_HALF, "student(%r, 2) = %.15g but student(%r, 2) = %.15g" %
                          (fl(al[i]), v[i], fl(al[j]), v[j]), [fl(al[i]), fl(al[j])]))
        if worst is not None:
            stats.ratio(fn + ".symmetry", worst[0])
            if worst[0] > 1:
                _, i, j = worst
                fails.append((fn + ".symmetry", "%s(%r%s) = %.15g but %s(%r%s) = %.15g" %
                              (fn, fl(al[i]), dofs(fn, dof), v[i], fn, fl(al[j]), dofs(fn, dof), v[j]),
                              [fl(al[i]), fl(al[j])]))
    return fails


def dofs(fn, dof):
    return "" if fn == "normal" else ", %d" % dof


def check_inverse(al, q, D, stats):
    """NormalDistribution(Normal(a)).D = 1-a"""
    pdf = sst.norm.pdf(q)
    tol = REL["normal"] * np.abs(q) * pdf + ABS
    r = np.abs(D - (1.0 - al)) / tol
    r = np.where(np.isfinite(r), r, np.inf)
    i = int(np.argmax(r))
    stats.ratio("normal.inverse", float(r[i]))
    if r[i] > 1:
        return [("normal.inverse", "NormalDistribution(Normal(%r) = %.15g) = %.15g, expected %.15g" %
                 (fl(al[i]), q[i], D[i], 1.0 - al[i]), [fl(al[i])])]
    return []


def check_ndist(x, D, f, stats):
    """x ascending"""
    fails = []
    bad = ~(np.isfinite(D) & np.isfinite(f))
    if bad.any():
        i = int(np.argmax(bad))
        return [("ndist.nonfinite", "NormalDistribution(%r) = (%r, %r)" % (fl(x[i]), fl(D[i]), fl(f[i])), [fl(x[i])])]
    c = sst.norm.cdf(x)
    tol = 1e-6 * c + ABS
    r = np.abs(D - c) / tol
    i = int(np.argmax(r))
    stats.ratio("ndist.accuracy", float(r[i]))
    if r[i] > 1:
        fails.append(("ndist.accuracy", "NormalDistribution(%r).D = %.15g, cdf = %.15g" % (fl(x[i]), D[i], c[i]), [fl(x[i])]))
    p = sst.norm.pdf(x)
    r = np.abs(f - p) / (1e-6 * p + ABS)
    i = int(np.argmax(r))
    stats.ratio("ndist.density", float(r[i]))
    if r[i] > 1:
        fails.append(("ndist.density", "NormalDistribution(%r).f = %.15g, pdf = %.15g" % (fl(x[i]), f[i], p[i]), [fl(x[i])]))
    out = (D < 0) | (D > 1)
    if out.any():
        i = int(np.argmax(out))
        fails.append(("ndist.range", "NormalDistribution(%r).D = %r outside [0,1]" % (fl(x[i]), fl(D[i])), [fl(x[i])]))
    if len(x) > 1:
        dv = D[1:] - D[:-1]
        idx = np.nonzero(dv < -D_SLACK)[0]
        if len(idx):
            i = int(idx[np.argmin(dv[idx])])
            fails.append(("ndist.monotone", "D(%r) = %.17g > D(%r) = %.17g" % (fl(x[i]), D[i], fl(x[i + 1]), D[i + 1]),
                          [fl(x[i]), fl(x[i + 1])]))
    return fails


# ---------------------------------------------------------------------------------------------
def alpha_grid():
    """2001 probabilities, mirror-symmetric as floats: lower half, 0.5, 1-lower."""
    h = (0.5 - A_LO) / 1000
    lower = [A_LO + i * h for i in range(1000)]
    upper = [1.0 - a for a in lower]
    g = lower + [0.5] + upper[::-1]
    assert all(g[i] < g[i + 1] for i in range(len(g) - 1)) and g[0] == A_LO and g[-1] == A_HI
    return np.array(g)


def edge_points():
    """probabilities next to the zero crossing 0.5 (and their float mirrors)"""
    e = [float(np.nextafter(0.5, 0)), 0.5 - 1e-15, 0.5 - 1e-12, 0.5 - 1e-9, 0.5 - 1e-7]
    return np.unique(np.array(e + [1.0 - a for a in e]))


def worker_of(seed, part):
    """runner gives seed*1000+k to worker k"""
    return seed % 1000, (seed // 1000)


def finish(stats, case, fails, known):
    """apply known-finding tags; set stats.fail on the first remaining failure. True = stop."""
    msgs = ["%s: %s" % (t, x) for t, x, _ in fails]
    rest = split_known(msgs, known, stats)
    if rest:
        sub = [s for (t, x, s) in fails if ("%s: %s" % (t, x)) == rest[0]][0]
        c = dict(case)
        c["alphas"] = sub
        stats.fail = (c, rest)
        return True
    return False


# ---- part grid --------------------------------------------------------------------------------
GRID_WORKERS = 8


def run_grid(tier, seed, stats, known):
    k, base = worker_of(seed, "grid")
    grid = alpha_grid()
    sub = np.unique(np.concatenate([grid[(base % 4)::4], grid[[0, 1000, 2000]], edge_points()]))
    grid = np.unique(np.concatenate([grid, edge_points()]))
    jobs = []               # (fn, dof, alphas)
    if k == 0:
        jobs.append(("normal", 0, grid))
    for n, dof in enumerate(ALL_DOFS):
        if n % GRID_WORKERS != k:
            continue
        full = tier == "thorough" or dof <= 60 or dof in BIG
        al = grid if full else sub
        jobs.append(("student", dof, al))
        jobs.append(("chi2", dof, al))
    CH = 40
    for c0 in range(0, len(jobs), CH):
        chunk = jobs[c0:c0 + CH]
        res, err = gama_eval(chunk)
        if err:
            stats.fail = ({"fn": chunk[0][0], "dof": chunk[0][1], "alphas": [fl(a) for a in chunk[0][2]]}, [err])
            return
        for (fn, dof, al), v in zip(chunk, res):
            stats.label("fn=" + fn)
            if fn != "normal":
                stats.label("dof=%d" % dof if dof <= 2 else ("dof>=1000" if dof >= 1000 else "dof=3..999"))
            for a in al:
                stats.record({"fn": fn, "dof": dof, "alpha": fl(a)}, True)
            fails = check_values(fn, dof, al, v, stats)
            if fn == "normal":
                rr, err = gama_eval([("ndist", 0, v)])
                if err:
                    fails.append((err.split(":")[0], err, [fl(al[0])]))
                else:
                    fails += check_inverse(al, v, rr[0][0], stats)
            if fails and finish(stats, {"fn": fn, "dof": dof}, fails, known):
                return


def replay_points(case, stats):
    """re-check one saved case {"fn","dof","alphas":[...]} of the parts grid / scan (all checks
    that apply to the listed probabilities)"""
    fn, dof = case["fn"], int(case.get("dof", 0))
    al = np.unique(np.array([float(a) for a in case["alphas"]]))
    if fn == "ndist":
        res, err = gama_eval([("ndist", 0, al)])
        if err:
            return [err]
        return ["%s: %s" % (t, x) for t, x, _ in check_ndist(al, res[0][0], res[0][1], stats)]
    res, err = gama_eval([(fn, dof, al)])
    if err:
        return [err]
    fails = check_values(fn, dof, al, res[0], stats)
    if fn == "normal":
        rr, err = gama_eval([("ndist", 0, res[0])])
        if err:
            return [err]
        m = (al >= A_LO) & (al <= A_HI)
        if m.any():
            fails += check_inverse(al[m], res[0][m], rr[0][0][m], stats)
    return ["%s: %s" % (t, x) for t, x, _ in fails]


replay_grid = replay_points
replay_scan = replay_points
replay_ndist = replay_points


# ---- part ndist ---------------------------------------------------------------------------------
def ndist_points(tier):
    step = 0.01 if tier == "quick" else 0.001
    n = int(round(80 / step))
    xs = [-40 + i * step for i in range(n + 1)]
    for b in (2.32, 3.5, 0.0, 8.29, 8.3, 37.5, 38.0, 38.5, 38.6, 39.0, 1e-300, 1e-17, 1e-8):
        for s in (-1, 1):
            xs += [s * b, float(np.nextafter(s * b, 100)), float(np.nextafter(s * b, -100))]
    return np.unique(np.clip(np.array(xs), -40, 40))


def run_ndist(tier, seed, stats, known):
    x = ndist_points(tier)
    res, err = gama_eval([("ndist", 0, x)])
    if err:
        stats.fail = ({"fn": "ndist", "alphas": [fl(x[0])]}, [err])
        return
    D, f = res[0]
    for a, d in zip(x, D):
        stats.record({"fn": "ndist", "x": fl(a)}, True)
        stats.label("D=0" if d == 0 else ("D=1" if d == 1 else "0<D<1"))
    stats.label("fn=ndist")
    fails = check_ndist(x, D, f, stats)
    if fails:
        finish(stats, {"fn": "ndist"}, fails, known)


# ---- part scan ----------------------------------------------------------------------------------
SCAN_WORKERS = 8


def block_alphas(b):
    """ordered probabilities of one block (deterministic function of the block description)"""
    if "alphas" in b:
        return np.unique(np.array([float(a) for a in b["alphas"]]))
    n = int(b["n"])
    if b["kind"] == "log":                     # tail probabilities lo..hi, log-spaced
        p = np.exp(np.linspace(math.log(b["lo"]), math.log(b["hi"]), n))
        p[0], p[-1] = b["lo"], b["hi"]
    else:
        p = np.linspace(b["lo"], b["hi"], n)
    p = np.unique(p)
    if b["tail"] == "lower":
        p = np.unique(1.0 - p)
    p = p[(p >= P_MIN) & (p <= 1 - P_MIN)]
    return p


def scan_blocks(tier):
    """block descriptions without fn/dof"""
    blocks = []
    npb = 101 if tier == "quick" else 401
    edges = [1e-12, 1e-11, 1e-10, 1e-9, 1e-8, 1e-7, 1e-6, 1e-5, 1e-4, 5e-4]
    for tail in ("upper", "lower"):
        for lo, hi in zip(edges[:-1], edges[1:]):
            blocks.append({"kind": "log", "tail": tail, "lo": lo, "hi": hi, "n": npb})
    # micro blocks: relative width 3e-4 at fixed tail probabilities; the natural decrease over one
    # step is < 2e-8 relative, so numerical noise and jumps of the implementation become visible
    nm = 501 if tier == "quick" else 2001
    for tail in ("upper", "lower"):
        for p0 in (1e-12, 1e-10, 1e-8, 1e-6, 1e-4, 1e-2, 0.3):
            blocks.append({"kind": "lin", "tail": tail, "lo": p0, "hi": p0 * (1 + 3e-4), "n": nm, "micro": True})
    if tier == "thorough":
        c = np.linspace(A_LO, 0.5, 11)
        for lo, hi in zip(c[:-1], c[1:]):
            for tail in ("upper", "lower"):
                blocks.append({"kind": "lin", "tail": tail, "lo": fl(lo), "hi": fl(hi), "n": 2001})
    return blocks


def switch_blocks(dof, tier):
    """narrow blocks around the tail probability at which Chi_square changes its approximation
    (4|Normal(p)| crosses dof-1); located with scipy to ~1e-4 relative, scanned +-3e-4"""
    p = float(sst.norm.sf((dof - 1) / 4.0))
    if not (2 * P_MIN < p < 0.49):
        return []
    n = 2001 if tier == "quick" else 8001
    out = []
    for tail in ("upper", "lower"):
        if tail == "lower" and p < 1e-9:
            continue            # 1-p is not representable finely enough for a narrow scan
        out.append({"kind": "lin", "tail": tail, "lo": p * (1 - 3e-4), "hi": p * (1 + 3e-4), "n": n, "switch": True})
    return out


def scan_dofs(tier, base):
    if tier == "thorough":
        return ALL_DOFS
    rest = [d for d in range(61, 1001) if d % 4 == base % 4]
    return list(range(1, 61)) + rest + BIG


def run_scan(tier, seed, stats, known):
    k, base = worker_of(seed, "scan")
    blocks = scan_blocks(tier)
    targets = [("normal", 0)] if k == 0 else []
    for n, dof in enumerate(scan_dofs(tier, base)):
        if n % SCAN_WORKERS == k:
            targets += [("student", dof), ("chi2", dof)]
    CH = 12
    for c0 in range(0, len(targets), CH):
        chunk = targets[c0:c0 + CH]
        items = []
        for fn, dof in chunk:
            bl = list(blocks)
            if fn == "chi2":
                bl = bl + switch_blocks(dof, tier)
            for b in bl:
                items.append((fn, dof, b, block_alphas(b)))
        res, err = gama_eval([(fn, dof, al) for fn, dof, b, al in items])
        if err:
            stats.fail = ({"fn": chunk[0][0], "dof": chunk[0][1], "alphas": [1e-6]}, [err])
            return
        it = iter(res)
        for fn, dof, b, al in items:
            v = next(it)
            case = dict(b)
            case.update({"fn": fn, "dof": dof})
            stats.record(case, True)
            stats.label("fn=" + fn, "block_switch" if b.get("switch") else ("block_micro" if b.get("micro") else "block_" + b["kind"]))
            if b["lo"] < 1e-9:
                stats.label("tail<1e-9")
            if fn != "normal":
                stats.label("dof=%d" % dof if dof <= 2 else ("dof>=1000" if dof >= 1000 else "dof=3..999"))
            fails = check_values(fn, dof, al, v, stats)
            if fails and finish(stats, {"fn": fn, "dof": dof}, fails, known):
                return


# ---- Hypothesis parts ---------------------------------------------------------------------------
def prob():
    tailp = st.one_of(st.floats(-12.0, math.log10(0.5)).map(lambda e: min(0.5, max(P_MIN, 10.0 ** e))),
                      st.floats(P_MIN, 0.5))
    return st.tuples(tailp, st.booleans()).map(lambda t: t[0] if t[1] else 1.0 - t[0]).filter(
        lambda a: P_MIN <= a <= 1 - P_MIN)


def tails_strategy():
    dof = st.one_of(st.integers(1, 30), st.integers(1, 1000), st.sampled_from(BIG))
    near = st.floats(-9.0, -1.0).map(lambda e: 10.0 ** e)

    def build(t):
        n, a, b, d, use_near, up = t
        if use_near:
            b = a * (1 + d) if up else a * (1 - d)
            if not (P_MIN <= b <= 1 - P_MIN):
                b = a
        return {"dof": n, "a": a, "b": b, "near": bool(use_near)}
    return st.tuples(dof, prob(), prob(), near, st.booleans(), st.booleans()).map(build)


def tails_points(case):
    s = set()
    for x in (float(case["a"]), float(case["b"])):
        s.add(x)
        m = 1.0 - x
        m2 = 1.0 - m
        if P_MIN <= m <= 1 - P_MIN and P_MIN <= m2 <= 1 - P_MIN:
            s.add(m)
            s.add(m2)
    return np.array(sorted(s))


def tails_oracle(case, stats):
    dof = int(case["dof"])
    al = tails_points(case)
    res, err = gama_eval([("normal", 0, al), ("student", dof, al), ("chi2", dof, al)])
    if err:
        return [err]
    t = min(min(a, 1 - a) for a in (case["a"], case["b"]))
    stats.label("tail<1e-9" if t < 1e-9 else ("tail<5e-4" if t < A_LO else "central"))
    stats.label("dof=%d" % dof if dof <= 2 else ("dof>=1000" if dof >= 1000 else "dof=3..999"))
    stats.label("fn=normal", "fn=student", "fn=chi2")
    if case.get("near"):
        stats.label("near_pair")
    fails = []
    fails += check_values("normal", 0, al, res[0], stats)
    fails += check_values("student", dof, al, res[1], stats)
    fails += check_values("chi2", dof, al, res[2], stats)
    return ["%s: %s" % (t_, x) for t_, x, _ in fails]


def ndist_strategy():
    x = st.one_of(st.floats(-40, 40), st.floats(-9, 9), st.sampled_from([-2.32, 3.5, 0.0]))
    d = st.floats(-12.0, 0.0).map(lambda e: 10.0 ** e)
    return st.lists(st.tuples(x, d), min_size=1, max_size=4).map(
        lambda l: {"x": sorted(set([p[0] for p in l] + [min(40.0, p[0] + p[1]) for p in l]))})


def ndist_oracle(case, stats):
    x = np.unique(np.array([float(v) for v in case["x"]]))
    res, err = gama_eval([("ndist", 0, x)])
    if err:
        return [err]
    stats.label("fn=ndist")
    return ["%s: %s" % (t, m) for t, m, _ in check_ndist(x, res[0][0], res[0][1], stats)]


PARTS = [
    Part("grid", custom=run_grid, workers=GRID_WORKERS, n={"quick": 1, "thorough": 1}),
    Part("ndist", custom=run_ndist, n={"quick": 1, "thorough": 1}),
    Part("scan", custom=run_scan, workers=SCAN_WORKERS, n={"quick": 1, "thorough": 1}),
    Part("tails", strategy=tails_strategy, oracle=tails_oracle, n={"quick": 10000, "thorough": 120000}),
    Part("ndist_random", strategy=ndist_strategy, oracle=ndist_oracle, n={"quick": 3000, "thorough": 20000}),
]
