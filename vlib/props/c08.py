"""C08 - choice of datum in a free network changes only the datum."""
import copy
import itertools
import math

import numpy as np
from hypothesis import strategies as st

from .. import gen_net, netmodel as nm, netrun, adjxml, netlin
from ..runner import Part

ALGS = ["envelope", "cholesky", "gso", "svd"]

RULE = ("Hypothesis generates noisy free networks (no fixed coordinate; levelling: defect 1, 2D with distances: 3, with azimuths: 2, "
        "3D combinations; approximate coordinates perturbed by millimetres) and two different constrained-point subsets, each "
        "verified by numpy (null space of the truth Jacobian restricted to the subset) to resolve the defect; both are adjusted "
        "by the real binary with a generated algorithm: residuals, v'Pv, dof, adjusted observations and their standard deviations "
        "and all inter-point distances / height differences of adjusted points must agree; within each run the corrections of "
        "the constrained coordinates are orthogonal to the null space of the dumped design matrix and equal the numpy "
        "minimal-norm solution. Non-trivial = defect >= 1 and the two subsets differ; distinct by sha1.")
ASSUMPTIONS = ["admissible subset: sigma_d(G_S) >= 0.05 for the orthonormal null-space basis G of the truth Jacobian",
               "standard deviations of adjusted observations in banded clusters are not compared (known finding C09 corr-obs-stdev)"]
REQUIRED_CLASSES = ["defect=1", "defect=3", "subsets_differ"]


@st.composite
def case(draw):
    net = draw(gen_net.determined_network(noise=1, free=True))
    for p in net["points"]:
        # millimetre perturbations: corrections are non-trivial while second-order terms (delta^2/d)
        # of observation types outside gama's linearisation test stay below the comparison tolerances
        p["dE"] = draw(st.integers(-10, 10)) / 10000.0
        p["dN"] = draw(st.integers(-10, 10)) / 10000.0
        p["dH"] = draw(st.integers(-10, 10)) / 10000.0
    n = len(net["points"])
    k = draw(st.integers(1, n))
    subset = sorted(draw(st.permutations(list(range(n))))[:k])
    # which coordinates of a chosen point carry the datum: both groups, or only its position, or only its height
    # (adj="XYz", adj="xyZ" ... in 3D networks)
    groups = [[draw(st.sampled_from(["both", "both", "xy", "z"])) for _ in range(n)] for _ in range(2)]
    return {"net": net, "alg": draw(st.sampled_from(ALGS)), "subset": subset, "groups": groups}


def null_space(net):
    A, cols = gen_net.truth_jacobian(net)
    if A.shape[1] == 0:
        return None, cols, 0
    # 'numerically unambiguous' as in C01: a clear gap between the smallest kept and the largest
    # dropped singular value of the column-scaled Jacobian (near-collinear configurations are discarded)
    norms = np.maximum(np.linalg.norm(A, axis=0), 1e-300)
    An = A / norms
    U, s, Vt = np.linalg.svd(An, full_matrices=True)
    sv = np.zeros(A.shape[1])
    sv[:len(s)] = s
    rank = int(np.sum(sv > 1e-2 * sv[0]))
    if np.any((sv <= 1e-2 * sv[0]) & (sv > 1e-11 * sv[0])):
        return None, cols, -1
    G = (Vt[rank:].T) / norms[:, None]
    if G.shape[1]:
        G, _ = np.linalg.qr(G)
    return G, cols, A.shape[1] - rank


def selection(net, ids, groups):
    """set of (point id, 'xy' | 'z') that carry the datum"""
    idx = {p["id"]: i for i, p in enumerate(net["points"])}
    sel = set()
    for pid in ids:
        g = groups[idx[pid]] if groups else "both"
        if g in ("both", "xy"):
            sel.add((pid, "xy"))
        if g in ("both", "z"):
            sel.add((pid, "z"))
    return sel


def subset_resolves(net, G, cols, d, sel):
    rows = []
    for pid, g in sorted(sel):
        for c in (("E", "N") if g == "xy" else ("H",)):
            if (pid, c) in cols:
                rows.append(cols[(pid, c)])
    if len(rows) < d:
        return False
    sg = np.linalg.svd(G[rows, :], compute_uv=False)
    return len(sg) >= d and sg[d - 1] >= 0.05


def with_constraints(net, sel):
    n2 = copy.deepcopy(net)
    for p in n2["points"]:
        for k in ("xy", "z"):
            if p[k] in ("adj", "constr"):
                p[k] = "constr" if (p["id"], k) in sel else "adj"
    return n2


def run(net, alg):
    gkf = nm.gkf_text(net)
    res = netrun.gama_local(gkf, ["--algorithm", alg])
    if res["crash"] is not None:
        return None, None, "crash: %s %s" % (res["crash"]["kind"], res["crash"]["frame"])
    try:
        x = adjxml.parse_adjustment(res["xml"] or "")
    except adjxml.NotWellFormed as e:
        return None, None, "xml: %s" % e
    return x, gkf, None


def oracle(c, stats):
    net = c["net"]
    G, cols, d = null_space(net)
    if d < 0 or G is None:
        stats.label("discarded_ambiguous")
        return []
    # a genuine free network: the defect is exactly the datum defect of its observation types
    types = set(o["t"] for cl in net["clusters"] if cl["k"] == "obs" for o in cl["obs"])
    has_vec = any(cl["k"] == "vectors" for cl in net["clusters"])
    dd = 0
    if net["dims"] in ("2d", "3d"):
        dd += 2
        if "azimuth" not in types and not has_vec:
            dd += 1
        if not ({"distance", "s-distance"} & types) and not has_vec:
            dd += 1
    if net["dims"] in ("1d", "3d"):
        dd += 1
    if d != dd:
        stats.label("discarded_configuration_defect")
        return []
    stats.label("defect=%d" % d, "dims=" + net["dims"])
    ids1 = [p["id"] for p in net["points"] if p["xy"] == "constr" or p["z"] == "constr"]
    ids2 = [net["points"][i]["id"] for i in c["subset"]]
    gr = c.get("groups") or [None, None]
    sel1, sel2 = selection(net, ids1, gr[0]), selection(net, ids2, gr[1])
    if d > 0 and not (subset_resolves(net, G, cols, d, sel1) and subset_resolves(net, G, cols, d, sel2)):
        stats.label("discarded_subset_not_admissible")
        return []
    if sel1 != sel2:
        stats.label("subsets_differ")
    if net["dims"] == "3d" and any(((pid, "xy") in sl) != ((pid, "z") in sl) for sl in (sel1, sel2) for pid in ids1 + ids2):
        stats.label("mixed_xy_z_constraints")
    n1 = with_constraints(net, sel1)
    n2 = with_constraints(net, sel2)
    fails = []
    outs = []
    for tag, nn in (("datum1", n1), ("datum2", n2)):
        x, gkf, err = run(nn, c["alg"])
        if err:
            return ["%s.%s" % (tag, err)]
        if "error" in x and c["alg"] == "envelope":
            x2, _, err2 = run(nn, "gso")
            if not err2 and "error" not in x2 and x2["summary"]["defect"] == d:
                return ["%s.envelope_free: envelope refuses a free network of defect %d that gso adjusts: %s" % (tag, d, x["error"]["descriptions"])]
        if "error" in x:
            return ["%s.refused: free network with an admissible constraint set (defect %d) was refused: %s" %
                    (tag, d, x["error"]["descriptions"])]
        if x["summary"]["defect"] != d:
            if c["alg"] == "envelope":
                # the recorded envelope finding (C02 / C09 / C19: rank of some well-posed free networks misjudged) only if
                # another algorithm reports the right defect for the same input
                x2, _, err2 = run(nn, "gso")
                if not err2 and "error" not in x2 and x2["summary"]["defect"] == d:
                    return ["%s.envelope_free: envelope reports defect %d for a free network of defect %d (gso: %d)"
                            % (tag, x["summary"]["defect"], d, x2["summary"]["defect"])]
            fails.append("%s.defect: reported %d, truth Jacobian says %d" % (tag, x["summary"]["defect"], d))
        # within the run: corrections of constrained coordinates
        dump, crash = netrun.net_driver(gkf, c["alg"])
        if crash is not None:
            return ["%s.driver.crash: %s %s" % (tag, crash["kind"], crash["frame"])]
        if dump.get("stage") != "adjusted":
            return ["%s.driver.stage: %s" % (tag, dump.get("stage"))]
        A, b, C, minx, R = netlin.reference(dump)
        if R is not None and R.x is not None and R.d > 0:
            xg = np.array(dump["x"], float)
            S = minx
            GS = R.G[S, :]
            nx = max(1e-9, float(np.linalg.norm(xg[S])))
            orth = max(0.0, float(np.max(np.abs(GS.T @ xg[S]))) - 1e-6) / nx   # 1e-6 mm absolute floor
            otol = 1e-9 * R.cond / max(R.sg_ratio, 1e-3)
            stats.ratio("orthogonality", orth / otol)
            if orth > otol:
                fails.append("%s.orthogonality: G_S' dx_S = %.3g relative to |dx_S| (constrained corrections not orthogonal to the datum transformations)" % (tag, orth))
            e = float(np.max(np.abs(xg - R.x)))
            tol = 1e-8 * (R.cond / max(R.sg_ratio, 1e-3)) * max(1.0, float(np.max(np.abs(R.x)))) + 1e-6    # 1e-6 mm absolute floor
            stats.ratio("minimal_norm", e / tol)
            if e > tol:
                fails.append("%s.minimal_norm: corrections differ from the minimal-norm solution by %.3g mm" % (tag, e))
        outs.append(x)
    if fails:
        return fails
    x1, x2 = outs
    S1, S2 = x1["summary"], x2["summary"]
    for k in ("dof", "defect", "equations"):
        if S1[k] != S2[k]:
            fails.append("pair.%s: %s vs %s" % (k, S1[k], S2[k]))
    # the two runs linearise at slightly different points (datum shift of the approximate coordinates):
    # agreement is limited by gama's own linearisation criterion (0.0005 mm), not by rounding
    # the two runs are linearised at different points and each stops within gama's criteria (0.0005 mm on an
    # observation): d(v'Pv) ~ 2 sqrt(v'Pv) * (criterion / sigma), which dominates for almost error-free cases
    vpv = max(S1["sum_of_squares"], 0.0)
    if abs(S1["sum_of_squares"] - S2["sum_of_squares"]) > 2e-3 * vpv + 2e-3 * math.sqrt(vpv) + 1e-6:
        fails.append("pair.sum_of_squares: %r vs %r" % (S1["sum_of_squares"], S2["sum_of_squares"]))
    if len(x1["observations"]) != len(x2["observations"]):
        fails.append("pair.observation_count: %d vs %d" % (len(x1["observations"]), len(x2["observations"])))
        return fails
    corr_rows = set()
    i = 0
    for cl in net["clusters"]:
        nrows = sum(len(o["e"]) if isinstance(o.get("e"), list) else 1 for o in cl["obs"])
        if cl.get("cov") is not None and cl["cov"]["band"] > 0:
            corr_rows |= set(range(i, i + nrows))
        i += nrows
    for i, (o1, o2) in enumerate(zip(x1["observations"], x2["observations"])):
        ang = o1["tag"] in ("direction", "angle", "zenith-angle", "azimuth")
        r1, r2 = o1["adj"] - o1["obs"], o2["adj"] - o2["obs"]
        if ang:
            r1 = ((r1 + 200) % 400 - 200) * 1e4
            r2 = ((r2 + 200) % 400 - 200) * 1e4
            tol = 5e-2
        else:
            r1 *= 1e3; r2 *= 1e3
            tol = 5e-3
        stats.ratio("residual", abs(r1 - r2) / tol)
        if abs(r1 - r2) > tol:
            fails.append("pair.residual: %s %s->%s residual %.6g vs %.6g" % (o1["tag"], o1.get("from", o1.get("id")), o1.get("to", ""), r1, r2))
            break
        if i not in corr_rows and abs(o1["stdev"] - o2["stdev"]) > 1e-3 * max(o1["stdev"], o2["stdev"]) + 1e-3:
            fails.append("pair.obs_stdev: %s %s->%s %.9g vs %.9g" % (o1["tag"], o1.get("from", o1.get("id")), o1.get("to", ""), o1["stdev"], o2["stdev"]))
            break
    # shape of the adjusted network: all inter-point distances and height differences
    def coords(x, nn):
        out = {}
        for a in x["coordinates"]["adjusted"] + x["coordinates"]["fixed"]:
            out[a["id"]] = a
        return out
    c1, c2 = coords(x1, n1), coords(x2, n2)
    ids = sorted(set(c1) & set(c2))
    if set(c1) != set(c2):
        fails.append("pair.points: %s vs %s" % (sorted(c1), sorted(c2)))
    has_az = any(o["t"] == "azimuth" for cl in net["clusters"] if cl["k"] == "obs" for o in cl["obs"])
    # reductions of zenith angles with instrument heights are refined only while they change by more than 0.1 cc
    # (refine_obsdh_reductions): each run may keep 0.1 cc * sight length in a height (as in C06 / C13)
    tolh = 1e-5
    Pm = nm.pmap(net)
    for cl in net["clusters"]:
        if cl["k"] == "obs":
            for o in cl["obs"]:
                if o["t"] == "z-angle" and (o.get("from_dh") or o.get("to_dh") or cl.get("from_dh")):
                    tolh = max(tolh, 1e-5 + 2.0 * 1.571e-7 * nm.hdist(Pm[cl["from"]], Pm[o["to"]]))
    for a, b in itertools.combinations(ids, 2):
        if "x" in c1[a] and "x" in c1[b] and "x" in c2[a] and "x" in c2[b]:
            d1 = math.hypot(c1[a]["x"] - c1[b]["x"], c1[a]["y"] - c1[b]["y"])
            d2 = math.hypot(c2[a]["x"] - c2[b]["x"], c2[a]["y"] - c2[b]["y"])
            if abs(d1 - d2) > 1e-5:
                fails.append("pair.shape: distance %s-%s of the adjusted points %.7f vs %.7f" % (a, b, d1, d2))
                break
        if "z" in c1[a] and "z" in c1[b] and "z" in c2[a] and "z" in c2[b]:
            h1 = c1[a]["z"] - c1[b]["z"]
            h2 = c2[a]["z"] - c2[b]["z"]
            if abs(h1 - h2) > tolh:
                fails.append("pair.shape: height difference %s-%s %.7f vs %.7f" % (a, b, h1, h2))
                break
    return fails


def nontrivial(c):
    net = c["net"]
    ids1 = set(p["id"] for p in net["points"] if p["xy"] == "constr" or p["z"] == "constr")
    ids2 = set(net["points"][i]["id"] for i in c["subset"])
    return ids1 != ids2


PARTS = [
    Part("datum", strategy=case, oracle=oracle, nontrivial=nontrivial, n={"quick": 5000, "thorough": 20000},
         sample=lambda c: {"alg": c["alg"], "subset": c["subset"], "gkf": nm.gkf_text(c["net"])[:1000]}),
]
