"""C18 - geodetic primitives round-trip: ellipsoidal coordinates, angle strings, literals, bearings."""
import math
import os
import re
from decimal import Decimal

import numpy as np
from hypothesis import strategies as st

from .. import build, drv
from ..runner import Part, split_known

RULE = ("(ellipsoid) every ellipsoid of the table (48) x a latitude grid on [-90,90] with the exact poles and points "
        "1e-6 deg / 1e-11 deg from them x a longitude grid on (-180,180] incl. 180 exactly and the float next to -180 x 11-13 "
        "heights from -10 km to 2e7 m; plus points on and next to the polar axis given in XYZ; one case per point. "
        "(ellipsoid_random) Hypothesis floats over the same domain. (angles) gon2deg/latitude strings for values built "
        "from degree/minute/second fields whose seconds sit 0.4/0.5/0.6/1/1.4 units of the last printed digit below 60 "
        "(the rounding-up class, for every precision 1..6), ordinary values on a 0.05 gon grid, both signs, all four sign "
        "modes; each (value, sign mode, precision) is a case. (dms) rad2dms/dms2rad on whole-minute, whole-degree and "
        "general values in both directions. (literals) EXHAUSTIVE enumeration of all strings of length <= 5 (quick) / "
        "<= 6 (thorough) over the alphabet {0,1,9,+,-,.,e,E,space,x} through IsFloat, IsInteger, toDouble, toInteger, "
        "toIndex and deg2gon; one case per string, non-trivial = contains a digit or is a bare sign/point/exponent "
        "near-miss. (literals_long) Hypothesis strings up to 14 characters over all digits and the same specials. "
        "(bearing, bearing_random) point pairs around 4 base points in 72 directions incl. the axes x 7 distances, and "
        "Hypothesis pairs; pairs closer than 1e-6 are counted but excluded (documented to answer 0). "
        "Distinct by sha1 of the case. The flag exhaustive refers to the part 'literals'.")
ASSUMPTIONS = [
    "ellipsoid parameters a and b | 1/f are read from the documentation table doc/ellipsoids.texi (fallback: driver's values)",
    "reference blh->xyz: the formulas of doc/xyz2blh.texi evaluated in numpy long double; positions compared in metres, "
    "so longitude is compared modulo 360 deg and carries no weight at the poles",
    "round-trip bound: 10 x the documented error of Bowring's formula (5e-7 mm in the earth-bound region, 0.1 mm at H = 2a, "
    "interpolated/extrapolated linearly in H) plus a rounding floor of 16 eps (a+|H|) (~2e-8 m at the surface)",
    "angle strings: value within half a unit of the last printed digit (+1e-9 arcsec), minutes and seconds fields < 60, "
    "deg2gon accepts every printed string and returns the value within the same bound",
    "rad2dms/dms2rad encode DD.MMSSsss in a double: fields are decoded from the shortest repr of the double rounded to 13 decimals "
    "(1e-9 arcsec); round trip within 1e-8 arcsec",
    "literals: must-accept = [+-]?digits[.digits][(e|E)[+-]?digits] (xs:double of gama-local.xsd, leading/trailing blanks allowed), "
    "[+-]?digits for integers, digits for indexes, [+-]?d+-d+-d+[.d+] with minutes, seconds < 60 for sexagesimal angles; "
    "must-reject = whatever Python float() / the integer grammar / the permissive d-m-s grammar cannot parse "
    "(embedded blanks, trailing garbage, empty exponent, lone sign or point, missing fields); "
    "grey zone (1. .5 1.e5, signed index, exponent or bare point in seconds, fields >= 60) is not asserted",
    "bearing: d cos(b) = dx, d sin(b) = dy within 1e-12 d, b(A,B) - b(B,A) = +-pi within 1e-12, 0 <= b <= 2 pi "
    "(b == 2 pi is counted, not asserted), distance symmetric within 4 eps",
]
LEVEL = "fault_enumeration"
EXHAUSTIVE = True
REQUIRED_CLASSES = ["pole_exact", "antimeridian", "h=2e7", "h<0", "roundup", "negative_angle", "lit_must_accept_float",
                    "lit_must_reject_float", "lit_must_accept_dms", "lit_grey", "bearing_axis", "bearing_quadrant_1",
                    "bearing_quadrant_2", "bearing_quadrant_3", "bearing_quadrant_4", "bearing_below_1e-6"]

EPS = 2.220446049250313e-16
POLE_NAN_RAD = 1e-7       # known-finding region: xyz2blh answers NaN this close to a pole (see ellipsoid.pole_nan)
LD = np.longdouble
PI = math.pi


def fl(x):
    return float(x)


def num(v):
    return float(v)            # also "nan" / "inf" / "-inf"


def hx(s):
    return s.encode("latin-1").hex() if s else "-"


def run_driver(lines):
    ans, crash = drv.driver("gdrv_prim", "\n".join(lines) + "\n", timeout=900)
    if crash is not None:
        return None, "driver.crash: %s %s after %d answers" % (crash["kind"], crash["frame"], len(ans))
    if len(ans) != len(lines):
        return None, "driver.answer: %d answers for %d commands" % (len(ans), len(lines))
    for a in ans:
        if "fatal" in a or "exc" in a:
            return None, "driver.answer: %s" % str(a)[:300]
    return ans, None


def finish(stats, fails, known):
    """fails: list of (case, 'tag: text').  Applies known tags; sets stats.fail to the first rest. True = stop"""
    for case, msg in fails:
        rest = split_known([msg], known, stats)
        if rest:
            stats.fail = (case, rest)
            return True
    return False


def worker_of(seed):
    return seed % 1000, seed // 1000


# =================================================================================================
# ellipsoids
# =================================================================================================
def doc_table():
    """{id: (a, b)} from doc/ellipsoids.texi; b derived from 1/f or f when the table gives that"""
    path = os.path.join(build.REPO, "doc", "ellipsoids.texi")
    tab = {}
    try:
        with open(path) as f:
            for line in f:
                m = re.match(r"@item\s+(\S+)\s+@tab\s+([0-9.]+)\s+@tab\s+([0-9.]+)\s+@tab", line)
                if not m:
                    continue
                a, x = float(m.group(2)), float(m.group(3))
                if x > 1e6:
                    b = x
                elif x > 1:
                    b = a * (1 - 1 / x)
                else:
                    b = a * (1 - x)
                tab[m.group(1)] = (a, b)
    except OSError:
        pass
    return tab


_ELL = {}


def ellipsoids():
    """list of dicts n, id, a, b (gama's values) + da, db (documented)"""
    if "e" not in _ELL:
        ans, err = run_driver(["ellipsoids"])
        if err:
            raise RuntimeError(err)
        doc = doc_table()
        out = []
        for e in ans[0]["e"]:
            d = dict(e)
            d["doc"] = doc.get(e["id"])
            out.append(d)
        _ELL["e"] = out
    return _ELL["e"]


def ref_xyz(a, b, B, L, H):
    a, b = LD(a), LD(b)
    B, L, H = np.asarray(B, dtype=LD), np.asarray(L, dtype=LD), np.asarray(H, dtype=LD)
    e2 = (a * a - b * b) / (a * a)
    N = a / np.sqrt(1 - e2 * np.sin(B) ** 2)
    return np.stack([(N + H) * np.cos(B) * np.cos(L), (N + H) * np.cos(B) * np.sin(L),
                     (N * (1 - e2) + H) * np.sin(B)], axis=-1)


def floor_tol(a, H):
    return 16 * EPS * (a + np.abs(H))


def round_tol(a, H):
    """metres: 10 x documented Bowring error + rounding floor"""
    return 10 * (5e-10 + 1e-4 * np.maximum(0.0, H) / (2 * a)) + floor_tol(a, H)


def check_table(e):
    fails = []
    if e["rc"] != 0 or e["eid"] != e["n"] or e["lookup"] != e["n"]:
        fails.append("ellipsoid.table: set()/ellipsoid() inconsistent for %s: %s" % (e["id"], {k: e[k] for k in ("n", "rc", "eid", "lookup")}))
    if e.get("doc"):
        a, b = e["doc"]
        if abs(e["a"] - a) > 1e-9 or abs(e["b"] - b) > 1e-8:
            fails.append("ellipsoid.table: %s has a=%r b=%r, documentation table gives a=%r b=%r" % (e["id"], e["a"], e["b"], a, b))
    return fails


def ell_params(e):
    return e["doc"] if e.get("doc") else (e["a"], e["b"])


def check_round(e, B, L, H, v, stats):
    """v: rows x,y,z,b',l',h' from the driver for inputs B,L,H (radians, metres).
    returns list of (index, 'tag: text')"""
    a, b = ell_params(e)
    fails = []
    v = np.asarray(v, dtype=float)
    nf = ~np.isfinite(v).all(axis=1)
    if nf.any():
        for i in np.nonzero(nf)[0]:
            # F: NaN within ~0.5 m of the polar axis (sin_u rounds above 1 in the refinement step)
            tag = "ellipsoid.pole_nan" if PI / 2 - abs(B[i]) < POLE_NAN_RAD else "ellipsoid.nonfinite"
            fails.append((int(i), "%s: %s xyz2blh(blh2xyz(%r,%r,%r) = %s) = %s" %
                          (tag, e["id"], fl(B[i]), fl(L[i]), fl(H[i]), v[i, :3].tolist(), v[i, 3:].tolist())))
            stats.label("pole_nan" if tag.endswith("pole_nan") else "nonfinite")
        keep = ~nf
        if not keep.any():
            return fails
        B, L, H, v = B[keep], L[keep], H[keep], v[keep]
        idx = np.nonzero(keep)[0]
    else:
        idx = np.arange(len(B))
    P0 = ref_xyz(a, b, B, L, H)
    fe = np.sqrt(((v[:, :3].astype(LD) - P0) ** 2).sum(axis=1)).astype(float)
    r = fe / floor_tol(a, H)
    i = int(np.argmax(r))
    stats.ratio("ellipsoid.blh2xyz", float(r[i]))
    if r[i] > 1:
        fails.append((int(idx[i]), "ellipsoid.blh2xyz: %s blh2xyz(%r,%r,%r) = %s is %.3g m from the documented formula (tol %.3g)" %
                      (e["id"], fl(B[i]), fl(L[i]), fl(H[i]), v[i, :3].tolist(), fe[i], floor_tol(a, H)[i])))
    P1 = ref_xyz(a, b, v[:, 3], v[:, 4], v[:, 5])
    re_ = np.sqrt(((P1 - P0) ** 2).sum(axis=1)).astype(float)
    tol = round_tol(a, H)
    r = re_ / tol
    i = int(np.argmax(r))
    stats.ratio("ellipsoid.roundtrip", float(r[i]))
    if r[i] > 1:
        fails.append((int(idx[i]), "ellipsoid.roundtrip: %s xyz2blh(blh2xyz(%r,%r,%r)) = (%r,%r,%r): position differs by %.3g m (tol %.3g m)" %
                      (e["id"], fl(B[i]), fl(L[i]), fl(H[i]), fl(v[i, 3]), fl(v[i, 4]), fl(v[i, 5]), re_[i], tol[i])))
    bad = (np.abs(v[:, 3]) > PI / 2) | (v[:, 4] > PI) | (v[:, 4] < -PI)
    if bad.any():
        i = int(np.argmax(bad))
        fails.append((int(idx[i]), "ellipsoid.range: %s xyz2blh gives b=%r l=%r outside [-pi/2,pi/2] x [-pi,pi]" % (e["id"], fl(v[i, 3]), fl(v[i, 4]))))
    return fails


def check_inverse(e, X, v, stats):
    """X rows x,y,z ; v rows b,l,h from xyz2blh: forward reference of the answer must give X back"""
    a, b = ell_params(e)
    X = np.asarray(X, dtype=float)
    v = np.asarray(v, dtype=float)
    fails = []
    nf = ~np.isfinite(v).all(axis=1)
    idx = np.arange(len(X))
    if nf.any():
        for i in np.nonzero(nf)[0]:
            tag = "ellipsoid.pole_nan" if math.hypot(X[i, 0], X[i, 1]) < 1.0 else "ellipsoid.nonfinite"
            fails.append((int(i), "%s: %s xyz2blh(%s) = %s" % (tag, e["id"], X[i].tolist(), v[i].tolist())))
            stats.label("pole_nan" if tag.endswith("pole_nan") else "nonfinite")
        keep = ~nf
        if not keep.any():
            return fails
        X, v, idx = X[keep], v[keep], idx[keep]
    P1 = ref_xyz(a, b, v[:, 0], v[:, 1], v[:, 2])
    err = np.sqrt(((P1 - X.astype(LD)) ** 2).sum(axis=1)).astype(float)
    tol = round_tol(a, v[:, 2])
    r = err / tol
    i = int(np.argmax(r))
    stats.ratio("ellipsoid.inverse", float(r[i]))
    if r[i] > 1:
        fails.append((int(idx[i]), "ellipsoid.inverse: %s xyz2blh(%s) = %s whose position is %.3g m away (tol %.3g m)" %
                      (e["id"], X[i].tolist(), v[i].tolist(), err[i], tol[i])))
    bad = (np.abs(v[:, 0]) > PI / 2) | (v[:, 1] > PI) | (v[:, 1] < -PI)
    if bad.any():
        i = int(np.argmax(bad))
        fails.append((int(idx[i]), "ellipsoid.range: %s xyz2blh(%s) gives b=%r l=%r" % (e["id"], X[i].tolist(), fl(v[i, 0]), fl(v[i, 1]))))
    return fails


HEIGHTS_Q = [-1e4, -1000.0, 0.0, 1.0, 100.0, 8848.0, 1e5, 1e6, 6378137.0, 1.2756274e7, 2e7]
HEIGHTS_T = HEIGHTS_Q + [-5000.0, 3e6, 1.6e7]


def ell_grid(tier, base):
    if tier == "quick":
        lat = [-90 + 3 * i for i in range(61)]
        lon = [-180 + 30 * i for i in range(1, 13)]
        hs = HEIGHTS_Q
        # seed only shifts the interior grid by whole degrees
        sh = base % 3
        lat = [x + sh if -90 < x + sh < 90 and x not in (-90, 90) else x for x in lat]
    else:
        lat = [-90 + i for i in range(181)]
        lon = [-180 + 15 * i for i in range(1, 25)]
        hs = HEIGHTS_T
    latr = [math.radians(x) for x in lat]
    latr[0], latr[-1] = -PI / 2, PI / 2
    for d in (1e-6, 1e-11):
        latr += [math.radians(90 - d), -math.radians(90 - d)]
    latr += [1e-9, -1e-9, math.radians(45), math.radians(-45)]
    lonr = [math.radians(x) for x in lon]
    lonr[-1] = PI
    lonr += [float(np.nextafter(-PI, 0)), math.radians(-179.999999), 1e-12, -1e-12, math.radians(179.999999)]
    latr = sorted(set(latr))
    lonr = sorted(set(lonr))
    B, L, H = [m.ravel() for m in np.meshgrid(np.array(latr), np.array(lonr), np.array(hs), indexing="ij")]
    return B, L, H


def axis_points(e):
    """XYZ points on and next to the polar axis, and on the equator axes"""
    a, b = e["a"], e["b"]
    pts = []
    for h in (-1e4, 0.0, 100.0, 1e6, 2e7):
        for s in (1, -1):
            z = s * (b + h)
            pts += [[0.0, 0.0, z], [1e-9, 0.0, z], [0.0, 1e-3, z], [-1e-3, 1e-3, z], [0.0, -1e-300, z]]
        r = a + h
        pts += [[r, 0.0, 0.0], [-r, 0.0, 0.0], [0.0, r, 0.0], [0.0, -r, 0.0], [-r, -0.0, 0.0], [r, 0.0, 1e-9], [r, 0.0, -1e-9]]
    return np.array(pts)


ELL_WORKERS = 8


def ell_labels(B, L, H, stats):
    stats.labels["pole_exact"] += int(np.sum(np.abs(B) == PI / 2))
    stats.labels["antimeridian"] += int(np.sum(L == PI))
    stats.labels["h=2e7"] += int(np.sum(H == 2e7))
    stats.labels["h<0"] += int(np.sum(H < 0))


def run_ellipsoid(tier, seed, stats, known):
    k, base = worker_of(seed)
    B, L, H = ell_grid(tier, base)
    args = " ".join("%r %r %r" % (fl(b), fl(l), fl(h)) for b, l, h in zip(B, L, H))
    for j, e in enumerate(ellipsoids()):
        if j % ELL_WORKERS != k:
            continue
        X = axis_points(e)
        ans, err = run_driver(["round %d %s" % (e["n"], args),
                               "xyz2blh %d %s" % (e["n"], " ".join(repr(fl(x)) for x in X.ravel()))])
        if err:
            stats.fail = ({"ell": e["n"], "b": fl(B[0]), "l": fl(L[0]), "h": fl(H[0])}, [err])
            return
        stats.label("ellipsoid=" + e["id"])
        for b, l, h in zip(B, L, H):
            stats.record({"ell": e["n"], "b": fl(b), "l": fl(l), "h": fl(h)}, True)
        for x in X:
            stats.record({"ell": e["n"], "xyz": x.tolist()}, True)
        ell_labels(B, L, H, stats)
        stats.labels["axis_xyz"] += len(X)
        fails = [({"ell": e["n"], "table": True}, m) for m in check_table(e)]
        for i, m in check_round(e, B, L, H, ans[0]["v"], stats):
            fails.append(({"ell": e["n"], "b": fl(B[i]), "l": fl(L[i]), "h": fl(H[i])}, m))
        for i, m in check_inverse(e, X, [[num(c) for c in row] for row in ans[1]["v"]], stats):
            fails.append(({"ell": e["n"], "xyz": X[i].tolist()}, m))
        if fails and finish(stats, fails, known):
            return


def ell_oracle(case, stats):
    es = [e for e in ellipsoids() if e["n"] == case["ell"]]
    if not es:
        return ["driver.answer: no ellipsoid %r" % case["ell"]]
    e = es[0]
    if case.get("table"):
        return check_table(e)
    if "xyz" in case:
        X = np.array([case["xyz"]], dtype=float)
        ans, err = run_driver(["xyz2blh %d %s" % (e["n"], " ".join(repr(fl(x)) for x in X.ravel()))])
        if err:
            return [err]
        return [m for _, m in check_inverse(e, X, [[num(c) for c in row] for row in ans[0]["v"]], stats)]
    B, L, H = np.array([case["b"]]), np.array([case["l"]]), np.array([case["h"]])
    ans, err = run_driver(["round %d %r %r %r" % (e["n"], fl(B[0]), fl(L[0]), fl(H[0]))])
    if err:
        return [err]
    ell_labels(B, L, H, stats)
    stats.label("ellipsoid=" + e["id"])
    return [m for _, m in check_round(e, B, L, H, [[num(c) for c in row] for row in ans[0]["v"]], stats)]


replay_ellipsoid = ell_oracle


def ell_strategy():
    lat = st.one_of(st.floats(-90, 90), st.floats(-12, 1.9).map(lambda u: 90 - 10.0 ** u),
                    st.floats(-12, 1.9).map(lambda u: -90 + 10.0 ** u), st.sampled_from([90.0, -90.0, 0.0]))
    lon = st.one_of(st.floats(-180, 180, exclude_min=True), st.floats(-12, 2).map(lambda u: 180 - 10.0 ** u),
                    st.floats(-12, 2).map(lambda u: -180 + 10.0 ** u), st.sampled_from([180.0, 0.0, 90.0, -90.0]))
    h = st.one_of(st.floats(-1e4, 1e4), st.floats(-1e4, 2e7), st.sampled_from([2e7, -1e4, 0.0]))

    def build_case(t):
        n, la, lo, hh = t
        b = math.radians(la)
        if la == 90.0:
            b = PI / 2
        if la == -90.0:
            b = -PI / 2
        b = max(-PI / 2, min(PI / 2, b))
        l_ = PI if lo == 180.0 else math.radians(lo)
        l_ = max(float(np.nextafter(-PI, 0)), min(PI, l_))
        return {"ell": n, "b": b, "l": l_, "h": hh}
    return st.tuples(st.integers(1, 48), lat, lon, h).map(build_case)


# =================================================================================================
# angle strings: gon2deg / deg2gon / latitude()
# =================================================================================================
PRECS = (1, 2, 3, 4, 5, 6)    # gama itself prints with 2, 4, 6 (gon2deg) and 3, 7 (latitude/longitude); prec 0 is unused
DMS_RE = re.compile(r"^( *)(-?)( *)(\d+)-(\d\d)-(\d\d(?:\.(\d+))?)$")
SEC_SLACK = 1e-9          # arcsec


def check_angle_string(kind, s, value_deg, sign, prec, ok, back, back_expected, back_unit):
    """kind 'gon2deg'|'latlong'; value_deg signed degrees of the input; ok/back: deg2gon of the string;
    back_expected in gon.  Returns list of 'tag: text'"""
    fails = []
    what = "%s -> %r" % (kind, s)
    m = DMS_RE.match(s)
    if not m:
        if value_deg == 0 and math.copysign(1.0, value_deg) < 0 and "--0" in s:
            return ["%s.negative_zero: %s for the input -0.0" % (kind, what)]
        return ["%s.format: %s is not [-]d-mm-ss[.fff]" % (kind, what)]
    lead, minus, mid, d, mi, sec, frac = m.groups()
    if (len(frac) if frac else 0) != prec:
        fails.append("%s.format: %s has %d decimals, asked %d" % (kind, what, len(frac or ""), prec))
    neg = value_deg < 0
    if kind == "gon2deg" and sign == 0:
        if minus:
            fails.append("%s.sign: %s: sign mode 0 is documented as conversion without sign" % (kind, what))
    elif bool(minus) != neg:
        fails.append("%s.sign: %s for a %s value" % (kind, what, "negative" if neg else "non-negative"))
    if kind == "gon2deg" and sign == 3 and lead:
        fails.append("%s.format: %s: sign mode 3 is documented as trimmed" % (kind, what))
    d, mi, secv = int(d), int(mi), float(sec)
    if secv >= 60:
        fails.append("%s.seconds60: %s prints %s seconds (input %.17g deg)" % (kind, what, sec, value_deg))
    if mi >= 60:
        fails.append("%s.minutes60: %s prints %d minutes" % (kind, what, mi))
    tol_sec = 0.5 * 10.0 ** (-prec) * (1 + 1e-6) + SEC_SLACK
    printed = d + mi / 60.0 + secv / 3600.0
    err_sec = abs(printed - abs(value_deg)) * 3600
    if err_sec > tol_sec:
        fails.append("%s.value: %s is %.3g arcsec from the input %.17g deg (half a printed unit is %.3g)" %
                     (kind, what, err_sec, value_deg, 0.5 * 10.0 ** (-prec)))
    if not ok:
        fails.append("%s.deg2gon_rejects: deg2gon refuses %r printed by %s" % (kind, s, kind))
    else:
        e = abs(back - back_expected) * 0.9 * 3600
        if e > tol_sec:
            fails.append("%s.roundtrip: deg2gon(%r) = %.17g gon, input %.17g gon (%.3g arcsec apart)" %
                         (kind, s, back, back_expected, e))
    return fails, err_sec / tol_sec


def roundup_seconds():
    out = []
    for p in PRECS:
        u = 10.0 ** (-p)
        for k in (0.4, 0.5, 0.6, 1.0, 1.4):
            out.append(60 - k * u)
    return out


def angle_values(tier):
    """list of (deg, class)"""
    ds = [0, 1, 57, 89, 90, 179, 180, 359] if tier == "quick" else list(range(0, 360, 7)) + [89, 90, 179, 180, 359]
    ms = [0, 1, 29, 59] if tier == "quick" else [0, 1, 17, 29, 30, 58, 59]
    ss = [0.0, 0.004, 0.005, 0.0051, 0.5, 1.0, 29.9999, 30.0, 59.0, 59.4] + roundup_seconds()
    vals = []
    for d in ds:
        for m in ms:
            for s in ss:
                vals.append((d + m / 60.0 + s / 3600.0, "roundup" if s > 59.3 else "dms_grid"))
    return vals


def run_angles(tier, seed, stats, known):
    vals = angle_values(tier)
    step = 0.05 if tier == "quick" else 0.01
    plain = [i * step for i in range(int(400 / step) + 1)]
    jobs = []          # (kind, sign, prec, [inputs], [deg], [class])
    for sign in (0, 1, 2, 3):
        for prec in PRECS:
            g, dg, cl = [], [], []
            for deg, c in vals:
                for sg in (1, -1):
                    g.append(sg * deg / 0.9)
                    dg.append(sg * deg)
                    cl.append(c)
            jobs.append(("gon2deg", sign, prec, g, dg, cl))
    for sign in (0, 2):
        for prec in (2, 4):
            g = plain + [-x for x in plain[1:]]
            jobs.append(("gon2deg", sign, prec, g, [x * 0.9 for x in g], ["plain"] * len(g)))
    for prec in (3, 7):
        r, dg, cl = [], [], []
        for deg, c in vals:
            if deg > 180:
                continue
            for sg in (1, -1):
                r.append(sg * math.radians(deg))
                dg.append(sg * deg)
                cl.append(c)
        jobs.append(("latlong", 0, prec, r, dg, cl))
    lines = []
    for kind, sign, prec, inp, dg, cl in jobs:
        a = " ".join(repr(fl(x)) for x in inp)
        lines.append("gon2deg %d %d %s" % (sign, prec, a) if kind == "gon2deg" else "latlong %d %s" % (prec, a))
    ans, err = run_driver(lines)
    if err:
        stats.fail = ({"kind": "gon2deg", "sign": 0, "prec": 2, "x": 1.0}, [err])
        return
    for (kind, sign, prec, inp, dg, cl), a in zip(jobs, ans):
        fails = []
        for x, deg, c, s, ok, v in zip(inp, dg, cl, a["s"], a["ok"], a["v"]):
            case = {"kind": kind, "sign": sign, "prec": prec, "x": fl(x)}
            stats.record(case, True)
            stats.label(c, kind)
            if deg < 0:
                stats.label("negative_angle")
            fs, ratio = angle_check(kind, sign, prec, x, deg, s, ok, v)
            stats.ratio(kind + ".value", ratio)
            fails += [(case, m) for m in fs]
        if fails and finish(stats, fails, known):
            return


def angle_check(kind, sign, prec, x, deg, s, ok, v):
    if kind == "gon2deg":
        expected = x if sign != 0 else abs(x)
    else:
        expected = x * 200 / PI
    r = check_angle_string(kind, s, deg, sign, prec, ok, num(v) if v is not None else None, expected, "gon")
    if isinstance(r, list):
        return r, 0.0
    return r


def replay_angles(case, stats):
    kind, sign, prec, x = case["kind"], int(case["sign"]), int(case["prec"]), float(case["x"])
    line = "gon2deg %d %d %r" % (sign, prec, x) if kind == "gon2deg" else "latlong %d %r" % (prec, x)
    ans, err = run_driver([line])
    if err:
        return [err]
    a = ans[0]
    deg = x * 0.9 if kind == "gon2deg" else math.degrees(x)
    fs, _ = angle_check(kind, sign, prec, x, deg, a["s"][0], a["ok"][0], a["v"][0])
    return fs


# ---- rad2dms / dms2rad ---------------------------------------------------------------------------
ARCSEC = PI / 648000
DMS_TOL = 1e-8       # arcsec


def decode_dms(x):
    """fields of the DD.MMSSsss value from the shortest decimal form of the double"""
    # 13 decimals = MMSS + 9 decimals of a second: the resolution of a double below 360
    t = int((Decimal(repr(float(x))) * 10 ** 13).to_integral_value())
    D, rest = divmod(t, 10 ** 13)
    M, rest = divmod(rest, 10 ** 11)
    return D, M, rest / 1e9


def check_rad2dms(r, x):
    """x = rad2dms(r).  list of failures"""
    fails = []
    if not math.isfinite(x) or not (0 <= x < 360):
        return ["rad2dms.range: rad2dms(%r) = %r" % (r, x)]
    D, M, S = decode_dms(x)
    if S >= 60:
        fails.append("rad2dms.seconds60: rad2dms(%r) = %r encodes %d deg %d min %.10g sec" % (r, x, D, M, S))
    if M >= 60:
        fails.append("rad2dms.minutes60: rad2dms(%r) = %r encodes %d minutes" % (r, x, M))
    deg = math.degrees(r) % 360.0
    e = abs((D + M / 60.0 + S / 3600.0) - deg)
    e = min(e, 360 - e) * 3600
    if e > DMS_TOL + 360 * 3600 * 4 * EPS:
        fails.append("rad2dms.value: rad2dms(%r) = %r is %.3g arcsec from %.15g deg" % (r, x, e, deg))
    return fails


def carry_signature(e_arcsec):
    for j in (-1, 0, 1):
        for k in (-1, 0, 1):
            if (j or k) and abs(e_arcsec - (40.0 * k + 2400.0 * j)) < 1e-5:
                return True
    return False


def check_dms2rad(x, r2, expected_rad, what):
    if not math.isfinite(r2) or not (0 <= r2 <= 2 * PI):
        return ["dms2rad.range: %s = %r" % (what, r2)]
    e = r2 - expected_rad
    if e > PI:
        e -= 2 * PI
    if e < -PI:
        e += 2 * PI
    e /= ARCSEC
    if abs(e) > DMS_TOL + 360 * 3600 * 8 * EPS:
        tag = "dms2rad.decimal_carry" if carry_signature(e) else "dms2rad.value"
        return ["%s: %s = %.17g rad is %.9g arcsec from the expected %.17g rad" % (tag, what, r2, e, expected_rad)]
    return []


def dms_values(tier):
    ds = [0, 1, 10, 57, 89, 90, 179, 180, 270, 359] if tier == "quick" else list(range(0, 360))
    ms = [0, 1, 17, 29, 30, 59] if tier == "quick" else list(range(0, 60, 3)) + [29, 59]
    ss = [0.0, 0.5, 1.0, 29.5, 30.0, 59.0, 59.5, 59.9999]
    return [(d, m, s) for d in ds for m in ms for s in ss]


def run_dms(tier, seed, stats, known):
    vals = dms_values(tier)
    n = 6283 if tier == "quick" else 62831
    rs = [math.radians(d + m / 60.0 + s / 3600.0) for d, m, s in vals] + [i * (2 * PI / (n + 1)) for i in range(n + 1)]
    rs += [-r for r in rs[1:200]]
    xs = [float(Decimal(d) + Decimal(m) / 100 + Decimal(repr(s)) / 10000) for d, m, s in vals]
    xs += [-x for x in xs[1:200]]
    ans, err = run_driver(["rad2dms " + " ".join(repr(r) for r in rs), "dms2rad " + " ".join(repr(x) for x in xs)])
    if err:
        stats.fail = ({"dir": "rad", "x": 1.0}, [err])
        return
    x1 = [num(v) for v in ans[0]["v"]]
    r2 = [num(v) for v in ans[1]["v"]]
    ans2, err = run_driver(["dms2rad " + " ".join(repr(x) for x in x1)])
    if err:
        stats.fail = ({"dir": "rad", "x": 1.0}, [err])
        return
    back = [num(v) for v in ans2[0]["v"]]
    fails = []
    for r, x, rb in zip(rs, x1, back):
        case = {"dir": "rad", "x": fl(r)}
        stats.record(case, True)
        stats.label("dms_rad2dms")
        if r < 0:
            stats.label("negative_angle")
        fs = check_rad2dms(r, x) + check_dms2rad(x, rb, r % (2 * PI), "dms2rad(rad2dms(%r) = %r)" % (r, x))
        fails += [(case, m) for m in fs]
    for x, r in zip(xs, r2):
        case = {"dir": "dms", "x": fl(x)}
        stats.record(case, True)
        stats.label("dms_dms2rad")
        D, M, S = decode_dms(abs(x))
        exp = math.radians(D + M / 60.0 + S / 3600.0)
        if x < 0:
            exp = (2 * PI - exp) % (2 * PI)
        fails += [(case, m) for m in check_dms2rad(x, r, exp, "dms2rad(%r)" % x)]
    if fails:
        finish(stats, fails, known)


def replay_dms(case, stats):
    x = float(case["x"])
    if case["dir"] == "rad":
        ans, err = run_driver(["rad2dms %r" % x])
        if err:
            return [err]
        v = num(ans[0]["v"][0])
        ans, err = run_driver(["dms2rad %r" % v])
        if err:
            return [err]
        return check_rad2dms(x, v) + check_dms2rad(v, num(ans[0]["v"][0]), x % (2 * PI), "dms2rad(rad2dms(%r) = %r)" % (x, v))
    ans, err = run_driver(["dms2rad %r" % x])
    if err:
        return [err]
    D, M, S = decode_dms(abs(x))
    exp = math.radians(D + M / 60.0 + S / 3600.0)
    if x < 0:
        exp = (2 * PI - exp) % (2 * PI)
    return check_dms2rad(x, num(ans[0]["v"][0]), exp, "dms2rad(%r)" % x)


# ---- Hypothesis: random angles ---------------------------------------------------------------------
def angles_strategy():
    def from_fields(t):
        d, m, p, k, sg = t
        s = 60 - k * 10.0 ** (-p)
        return sg * (d + m / 60.0 + s / 3600.0) / 0.9
    g = st.one_of(st.floats(-400, 400),
                  st.tuples(st.integers(0, 359), st.integers(0, 59), st.integers(1, 6),
                            st.floats(0.01, 2.0), st.sampled_from([1, -1])).map(from_fields),
                  st.integers(-4000000, 4000000).map(lambda i: i / 10000.0))
    return st.tuples(g, st.integers(0, 3), st.integers(1, 6)).map(lambda t: {"g": t[0], "sign": t[1], "prec": t[2]})


def angles_oracle(case, stats):
    g, sign, prec = float(case["g"]), int(case["sign"]), int(case["prec"])
    r = abs(g) * PI / 200
    rl = g * PI / 400                    # |.| <= pi for latitude()/longitude()
    ans, err = run_driver(["gon2deg %d %d %r" % (sign, prec, g), "latlong %d %r" % (prec, rl), "rad2dms %r" % r])
    if err:
        return [err]
    fails = []
    fs, ratio = angle_check("gon2deg", sign, prec, g, g * 0.9, ans[0]["s"][0], ans[0]["ok"][0], ans[0]["v"][0])
    stats.ratio("gon2deg.value", ratio)
    fails += fs
    fs, ratio = angle_check("latlong", 0, prec, rl, math.degrees(rl), ans[1]["s"][0], ans[1]["ok"][0], ans[1]["v"][0])
    stats.ratio("latlong.value", ratio)
    fails += fs
    x = num(ans[2]["v"][0])
    fails += check_rad2dms(r, x)
    if math.isfinite(x):
        a2, err = run_driver(["dms2rad %r" % x])
        if err:
            return [err]
        fails += check_dms2rad(x, num(a2[0]["v"][0]), r % (2 * PI), "dms2rad(rad2dms(%r) = %r)" % (r, x))
    if g < 0:
        stats.label("negative_angle")
    sec = (abs(g) * 0.9 * 3600) % 60
    if sec > 60 - 0.5 * 10.0 ** (-prec):
        stats.label("roundup")
    return fails


# =================================================================================================
# literals
# =================================================================================================
ALPHABET = "019+-.eE x"
F_STRICT = re.compile(r"^[+-]?[0-9]+(\.[0-9]+)?([eE][+-]?[0-9]+)?$")
I_STRICT = re.compile(r"^[+-]?[0-9]+$")
X_STRICT = re.compile(r"^[0-9]+$")
G_STRICT = re.compile(r"^[+-]?([0-9]+)-([0-9]+)-([0-9]+(?:\.[0-9]+)?)$")
G_PERMISSIVE = re.compile(r"^[+-]?[0-9]+-[0-9]+-([0-9]+\.?[0-9]*|\.[0-9]+)([eE][+-]?[0-9]+)?$")
WS = " \t\n\v\f\r"


def py_float(s):
    try:
        if any(c in s for c in "_nNiI"):       # Python-only spellings (1_0, nan, inf) are not documented forms
            return None
        return float(s)
    except ValueError:
        return None


def classify(s):
    """{recogniser: ('accept'|'reject'|'grey', expected value or None)}"""
    t = s.strip(WS)
    out = {}
    pf = py_float(s)
    if F_STRICT.match(t):
        out["float"] = ("accept", float(t))
    elif pf is None:
        out["float"] = ("reject", None)
    else:
        out["float"] = ("grey", pf)
    out["int"] = ("accept", int(t)) if I_STRICT.match(t) else ("reject", None)
    if X_STRICT.match(t):
        out["index"] = ("accept", int(t))
    elif I_STRICT.match(t):
        out["index"] = ("grey", int(t))
    else:
        out["index"] = ("reject", None)
    m = G_STRICT.match(t)
    if m and int(m.group(2)) < 60 and float(m.group(3)) < 60:
        v = (int(m.group(1)) + int(m.group(2)) / 60.0 + float(m.group(3)) / 3600.0) / 0.9
        out["dms"] = ("accept", -v if t.startswith("-") and v else v)
    elif G_PERMISSIVE.match(t):
        out["dms"] = ("grey", None)
    else:
        out["dms"] = ("reject", None)
    return out


def lit_nontrivial(s):
    t = s.strip(WS)
    return any(c.isdigit() for c in s) or (0 < len(t) <= 2 and all(c in "+-.eE" for c in t))


def check_literal(s, row, stats):
    """row = [flags, toDouble, toInteger, toIndex, deg2gon] from the driver"""
    flags, dv, iv, xv, gv = row
    c = classify(s)
    t = s.strip(WS)
    fails = []

    def verdict(name, cls, got, api):
        kind = c[cls][0]
        if stats is not None:
            stats.label("lit_%s_%s" % ({"accept": "must_accept", "reject": "must_reject", "grey": "grey"}[kind], cls))
            if kind == "grey":
                stats.label("lit_grey")
        if kind == "accept" and not got:
            fails.append("literal.%s_rejects_documented: %s(%r) is false" % (name, api, s))
        if kind == "reject" and got:
            tag = "literal.%s_accepts_invalid" % name
            if cls == "int" and t in ("+", "-"):
                tag = "literal.integer_lone_sign"
            fails.append("%s: %s(%r) is true" % (tag, api, s))

    # a literal of the documented form whose value is not representable (1E400 -> inf) is a
    # format question for IsFloat and a value question for toDouble: toDouble must refuse it
    # (it used to return infinity; fixed in /repo, see known_findings.json C11 overflow-literal)
    pf = py_float(s)
    overflow = pf is not None and (pf != pf or pf in (float("inf"), float("-inf")))
    verdict("isfloat", "float", bool(flags & 1), "IsFloat")
    verdict("isinteger", "int", bool(flags & 2), "IsInteger")
    if overflow:
        if flags & 4:
            fails.append("literal.todouble_accepts_overflow: toDouble(%r) is true for a value outside the double range" % s)
        if stats is not None:
            stats.label("lit_overflow")
    else:
        verdict("todouble", "float", bool(flags & 4), "toDouble")
    verdict("tointeger", "int", bool(flags & 8), "toInteger")
    verdict("toindex", "index", bool(flags & 16), "toIndex")
    verdict("deg2gon", "dms", bool(flags & 32), "deg2gon")
    if bool(flags & 1) != bool(flags & 4) and not overflow:
        fails.append("literal.todouble_isfloat: IsFloat and toDouble disagree on %r" % s)
    if (flags & 1) and py_float(s) is None:
        fails.append("literal.isfloat_unparsable: IsFloat(%r) but a standard float parser cannot consume it" % s)
    if (flags & 4) and c["float"][1] is not None:
        e = c["float"][1]
        got = num(dv)
        if not (got == e or abs(got - e) <= 4 * EPS * abs(e)):
            fails.append("literal.todouble_value: toDouble(%r) = %r, expected %r" % (s, got, e))
    if (flags & 8) and c["int"][0] == "accept" and abs(c["int"][1]) < 2 ** 31 and iv != c["int"][1]:
        fails.append("literal.tointeger_value: toInteger(%r) = %r" % (s, iv))
    if (flags & 16) and c["index"][0] != "reject" and abs(c["index"][1]) < 2 ** 31 and xv != c["index"][1]:
        fails.append("literal.toindex_value: toIndex(%r) = %r" % (s, xv))
    if (flags & 32) and c["dms"][0] == "accept":
        e = c["dms"][1]
        got = num(gv)
        if abs(got - e) > 1e-13 * max(1.0, abs(e)):
            fails.append("literal.deg2gon_value: deg2gon(%r) = %r gon, expected %r" % (s, got, e))
    return fails


def nth_string(n, i):
    cs = []
    for _ in range(n):
        cs.append(ALPHABET[i % 10])
        i //= 10
    return "".join(reversed(cs))


LIT_WORKERS = 8
LIT_MAXLEN = {"quick": 5, "thorough": 6}


def run_literals(tier, seed, stats, known):
    k, base = worker_of(seed)
    strings = []
    idx = 0
    for n in range(0, LIT_MAXLEN[tier] + 1):
        for i in range(10 ** n):
            if idx % LIT_WORKERS == k:
                strings.append(nth_string(n, i))
            idx += 1
    PER_LINE, PER_PROC = 4000, 60000
    for p0 in range(0, len(strings), PER_PROC):
        chunk = strings[p0:p0 + PER_PROC]
        lines = ["lit " + " ".join(hx(s) for s in chunk[i:i + PER_LINE]) for i in range(0, len(chunk), PER_LINE)]
        ans, err = run_driver(lines)
        if err:
            stats.fail = ({"s": chunk[0]}, [err])
            return
        rows = [r for a in ans for r in a["r"]]
        if len(rows) != len(chunk):
            stats.fail = ({"s": chunk[0]}, ["driver.answer: %d rows for %d strings" % (len(rows), len(chunk))])
            return
        fails = []
        for s, row in zip(chunk, rows):
            case = {"s": s}
            stats.record(case, lit_nontrivial(s))
            stats.label("lit_len=%d" % len(s))
            fs = check_literal(s, row, stats)
            if fs:
                fails += [(case, m) for m in fs]
        if fails and finish(stats, fails, known):
            return


def literal_oracle(case, stats):
    s = case["s"]
    ans, err = run_driver(["lit " + hx(s)])
    if err:
        return [err]
    return check_literal(s, ans[0]["r"][0], stats)


replay_literals = literal_oracle


def literal_strategy():
    chars = "0123456789+-.eE x"
    free = st.text(alphabet=chars, max_size=14)
    digits = st.text(alphabet="0123456789", min_size=0, max_size=6)
    sign = st.sampled_from(["", "+", "-"])
    exp = st.one_of(st.just(""), st.tuples(st.sampled_from("eE"), sign, digits).map("".join))
    pad = st.sampled_from(["", " ", "  "])
    number = st.tuples(pad, sign, digits, st.sampled_from(["", "."]), digits, exp, st.sampled_from(["", "", "", "x", " 1", "e"]), pad).map("".join)
    dms = st.tuples(pad, sign, digits, st.sampled_from(["-", "-", " -", "- ", ""]), digits, st.sampled_from(["-", "-", ""]),
                    digits, st.sampled_from(["", ".", ".5", ".25", "e1"]), pad).map("".join)
    ok = lambda s: len(s) <= 16 and not re.search(r"[0-9]{10}", s)
    return st.one_of(free, number, dms).filter(ok).map(lambda s: {"s": s})


# =================================================================================================
# bearing / distance
# =================================================================================================
BR_TOL = 1e-12


def check_bearing(ya, xa, yb, xb, ab, ba, stats):
    """ab, ba = [bearing, distance, bearing_fn, distance_fn] for (A,B) and (B,A)"""
    dy, dx = yb - ya, xb - xa
    d0 = math.hypot(dx, dy)
    what = "A=(y %r, x %r) B=(y %r, x %r)" % (ya, xa, yb, xb)
    fails = []
    if not all(math.isfinite(v) for v in ab + ba):
        return ["bearing.nonfinite: %s -> %s %s" % (what, ab, ba)]
    if d0 < 1e-6 * (1 + 1e-9):
        stats.label("bearing_below_1e-6")
        if d0 < 1e-6 * (1 - 1e-9) and (ab[0] != 0 or ab[1] != 0):
            fails.append("bearing.short: %s closer than 1e-6 should answer 0, 0; got %s" % (what, ab[:2]))
        return fails
    if dx == 0 or dy == 0:
        stats.label("bearing_axis")
    else:
        stats.label("bearing_quadrant_%d" % (1 if dx > 0 and dy > 0 else 2 if dx < 0 < dy else 3 if dx < 0 and dy < 0 else 4))
    b, d = ab[0], ab[1]
    if abs(d - d0) > 4 * EPS * d0:
        fails.append("bearing.distance: %s distance %r, sqrt(dx^2+dy^2) = %r" % (what, d, d0))
    if abs(d - ba[1]) > 4 * EPS * d0:
        fails.append("bearing.distance_symmetry: %s d(A,B) = %r, d(B,A) = %r" % (what, d, ba[1]))
    if not (0 <= b <= 2 * PI) or not (0 <= ba[0] <= 2 * PI):
        fails.append("bearing.range: %s bearing %r / %r outside [0, 2 pi]" % (what, b, ba[0]))
    if b == 2 * PI or ba[0] == 2 * PI:
        stats.label("bearing_equals_2pi")
    ex, ey = d * math.cos(b) - dx, d * math.sin(b) - dy
    r = math.hypot(ex, ey) / (BR_TOL * d0)
    stats.ratio("bearing.consistency", r)
    if r > 1:
        fails.append("bearing.consistency: %s bearing %r distance %r give (dx, dy) = (%r, %r), actual (%r, %r)" %
                     (what, b, d, d * math.cos(b), d * math.sin(b), dx, dy))
    anti = abs(abs(b - ba[0]) - PI)
    stats.ratio("bearing.antisymmetry", anti / BR_TOL)
    if anti > BR_TOL:
        fails.append("bearing.antisymmetry: %s b(A,B) = %r, b(B,A) = %r differ by %r" % (what, b, ba[0], abs(b - ba[0])))
    if abs(ab[2] - b) > 4 * EPS * 2 * PI or abs(ab[3] - d) > 4 * EPS * d0:
        fails.append("bearing.overloads: %s bearing()/distance() on LocalPoint give %r, %r vs %r, %r" % (what, ab[2], ab[3], b, d))
    return fails


def bearing_pairs(tier):
    bases = [(0.0, 0.0), (-2000.25, 1000.5), (1e6, 5e6), (-1.2e6, -7e5)]
    dists = [1.5e-6, 1e-3, 1.0, 100.0, 1e4, 1e6, 5e-7, 0.0]
    if tier == "thorough":
        bases += [(123456.789, -987654.321), (1e7, 1e7)]
        dists += [2.5e-6, 0.1, 37.5, 2.5e5]
    nd = 72 if tier == "quick" else 360
    out = []
    for ya, xa in bases:
        for k in range(nd):
            t = 2 * PI * k / nd
            c, s = math.cos(t), math.sin(t)
            if (4 * k) % nd == 0:          # on an axis: exact zeros
                q = (4 * k) // nd
                c, s = [(1.0, 0.0), (0.0, 1.0), (-1.0, 0.0), (0.0, -1.0)][q]
            for d in dists:
                out.append((ya, xa, ya + d * s, xa + d * c))
    return out


def bearing_eval(pairs):
    args = []
    for ya, xa, yb, xb in pairs:
        args += [ya, xa, yb, xb, yb, xb, ya, xa]
    ans, err = run_driver(["bearing " + " ".join(repr(fl(v)) for v in args)])
    if err:
        return None, err
    rows = [[num(c) for c in r] for r in ans[0]["v"]]
    return [(rows[2 * i], rows[2 * i + 1]) for i in range(len(pairs))], None


def run_bearing(tier, seed, stats, known):
    pairs = bearing_pairs(tier)
    res, err = bearing_eval(pairs)
    if err:
        stats.fail = ({"p": list(pairs[0])}, [err])
        return
    fails = []
    for p, (ab, ba) in zip(pairs, res):
        case = {"p": [fl(v) for v in p]}
        d0 = math.hypot(p[2] - p[0], p[3] - p[1])
        stats.record(case, d0 >= 1e-6)
        fails += [(case, m) for m in check_bearing(p[0], p[1], p[2], p[3], ab, ba, stats)]
    if fails:
        finish(stats, fails, known)


def bearing_oracle(case, stats):
    p = [float(v) for v in case["p"]]
    res, err = bearing_eval([p])
    if err:
        return [err]
    return check_bearing(p[0], p[1], p[2], p[3], res[0][0], res[0][1], stats)


replay_bearing = bearing_oracle


def bearing_strategy():
    c = st.one_of(st.floats(-1e7, 1e7), st.floats(-1e3, 1e3), st.sampled_from([0.0, 1.0, -1.0, 1e6]))
    delta = st.one_of(st.floats(-1e6, 1e6), st.floats(-1.0, 1.0), st.floats(-8, 6).map(lambda u: 10.0 ** u),
                      st.floats(-8, 6).map(lambda u: -10.0 ** u), st.just(0.0))

    def mk(t):
        ya, xa, dy, dx, absolute, yb, xb = t
        if absolute:
            return {"p": [ya, xa, yb, xb]}
        return {"p": [ya, xa, ya + dy, xa + dx]}
    return st.tuples(c, c, delta, delta, st.booleans(), c, c).map(mk)


def bearing_nontrivial(case):
    p = case["p"]
    return math.hypot(p[2] - p[0], p[3] - p[1]) >= 1e-6


PARTS = [
    Part("ellipsoid", custom=run_ellipsoid, workers=ELL_WORKERS, n={"quick": 1, "thorough": 1}),
    Part("ellipsoid_random", strategy=ell_strategy, oracle=ell_oracle, n={"quick": 4000, "thorough": 40000}),
    Part("angles", custom=run_angles, n={"quick": 1, "thorough": 1}),
    Part("dms", custom=run_dms, n={"quick": 1, "thorough": 1}),
    Part("angles_random", strategy=angles_strategy, oracle=angles_oracle, n={"quick": 2500, "thorough": 30000}),
    Part("literals", custom=run_literals, workers=LIT_WORKERS, n={"quick": 1, "thorough": 1}),
    Part("literals_long", strategy=literal_strategy, oracle=literal_oracle,
         nontrivial=lambda c: lit_nontrivial(c["s"]), n={"quick": 5000, "thorough": 40000}),
    Part("bearing", custom=run_bearing, n={"quick": 1, "thorough": 1}),
    Part("bearing_random", strategy=bearing_strategy, oracle=bearing_oracle, nontrivial=bearing_nontrivial,
         n={"quick": 3000, "thorough": 30000}),
]
