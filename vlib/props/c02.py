"""C02 - the four algorithms give the same adjustment."""
import itertools

import numpy as np
from hypothesis import strategies as st

from .. import gen_linear
from ..lin_common import ALGS, reference, query, val, labels, nontrivial
from ..runner import Part

RULE = ("(a) Hypothesis-generated rank-planted problems (as C01) are solved by the four algorithms through GNU_gama::Adj; "
        "defect, x, r, v'Pv, every q_xx(i,j) and every q_bb(i,j) are compared pairwise with a tolerance proportional to the "
        "numpy condition number; regularisation subsets that provably cannot resolve the defect (numpy: sigma_d(G_S) < 1e-10) "
        "must be refused by every algorithm. (b) generated gama-local networks are adjusted by the real binary with each "
        "--algorithm and the XML results compared field by field. Non-trivial = singular, banded covariance, proper subset, "
        "or a non-resolving subset; distinct by sha1 of the case.")
ASSUMPTIONS = ["numpy condition number as the scale of the tolerance",
               "non-resolving subsets are exact by construction (columns outside the support of the null space, or fewer than the defect)"]
REQUIRED_CLASSES = ["d>0", "band>0", "subset", "nonresolving"]

QUERIES = ["defect", "x", "r", "rtr", "allqxx", "allqbb"]


def oracle_pairwise(case, stats):
    A, C, R = reference(case)
    if R is None:
        stats.label("discarded_ambiguous")
        return []
    if R.d > 0 and not R.resolving:
        if not R.nonresolving_exact:
            stats.label("discarded_ambiguous")
            return []
        return oracle_nonresolving(case, R, stats)
    if R.sg_ratio < 0.05:
        stats.label("discarded_ambiguous")
        return []
    labels(case, R, stats)
    res = query(case, "adj", ALGS, QUERIES)
    fails = []
    vals = {}
    for alg in ALGS:
        a = res[alg]
        if "crash" in a:
            return ["adj.%s.crash: %s %s" % (alg, a["crash"]["kind"], a["crash"]["frame"])]
        vals[alg] = {}
        for q in QUERIES:
            v = val(a[q])
            if v is None or not np.all(np.isfinite(v)):
                fails.append("adj.%s.%s.exception: %s" % (alg, q, str(a[q])[:200]))
            vals[alg][q] = v
    if fails:
        return fails
    kappa = R.cond / max(R.sg_ratio, 1e-3)
    b = np.array(case["b"], float)
    P = np.linalg.inv(C)
    nA = max(1.0, np.linalg.norm(A, 2))
    scale = {
        "x": R.scale_x,
        "r": nA * R.scale_x + np.max(np.abs(b), initial=0.0) + 1.0,
        "rtr": float(b @ P @ b) + 1.0,
        "allqxx": max(1.0, float(np.max(np.abs(R.Q)))),
        "allqbb": max(1.0, float(np.max(np.abs(R.AQA)))),
    }
    for a1, a2 in itertools.combinations(ALGS, 2):
        if int(vals[a1]["defect"]) != int(vals[a2]["defect"]):
            fails.append("pair.%s.%s.defect: %s vs %s" % (a1, a2, vals[a1]["defect"], vals[a2]["defect"]))
            continue
        for q in ("x", "r", "rtr", "allqxx", "allqbb"):
            tol = 2e-8 * kappa * scale[q] * (kappa if q in ("allqxx", "allqbb") else 1.0)
            e = float(np.max(np.abs(vals[a1][q] - vals[a2][q]))) if vals[a1][q].size else 0.0
            stats.ratio("pair.%s" % q, e / tol)
            if e > tol:
                fails.append("pair.%s.%s.%s: differ by %.3g (tol %.3g)" % (a1, a2, q, e, tol))
    return fails


def oracle_nonresolving(case, R, stats):
    stats.label("nonresolving", "nonresolving.d=%d" % R.d)
    if case["minx"] is not None and len(case["minx"]) == 0:
        stats.label("nonresolving.empty_list")
    res = query(case, "adj", ALGS, ["x", "rtr"])
    fails = []
    for alg in ALGS:
        a = res[alg]
        if "crash" in a:
            fails.append("nonres.%s.crash: %s %s" % (alg, a["crash"]["kind"], a["crash"]["frame"]))
            continue
        ax = a["x"]
        if "v" in ax:
            fails.append("nonres.%s.accepted: regularisation subset %s cannot resolve defect %d "
                         "(sigma_d(G_S)=%.2g) but an adjustment was reported" % (alg, case["minx"], R.d, R.sg_ratio))
        elif ax.get("exc") != "matvec" or ax.get("code") != 3:
            fails.append("nonres.%s.wrong_exception: %s" % (alg, ax))
    return fails


def nontriv(case):
    return nontrivial(case) or case.get("mode") == "nonres"


PARTS = [
    Part("pairwise", strategy=lambda: gen_linear.linear_problem(), oracle=oracle_pairwise,
         nontrivial=nontriv, n={"quick": 5000, "thorough": 40000}),
    Part("nonresolving", strategy=lambda: gen_linear.linear_problem(singular_only=True, minx_mode="nonres"),
         oracle=oracle_pairwise, nontrivial=nontriv, n={"quick": 1500, "thorough": 10000}),
]
