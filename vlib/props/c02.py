"""C02 - the four algorithms give the same adjustment."""
import itertools

import numpy as np
from hypothesis import strategies as st

from .. import gen_linear
from ..lin_common import ALGS, reference, query, val, labels, nontrivial
from ..runner import Part

RULE = ("(a) Hypothesis-generated rank-planted problems (as C01) are solved by the four algorithms through GNU_gama::Adj; "
        "defect, x, r, v'Pv, every q_xx(i,j) and every q_bb(i,j) are compared pairwise with a tolerance proportional to the "
        "numpy condition number; regularisation subsets that provably cannot resolve the defect (numpy: sigma_d(G_S) < 1e-10) "
        "must be refused by every algorithm. Part 'large' (and its relatives): graph-structured sparse problems with 10-40 unknowns and up to ~130 rows (connected components in random numbering, weighted difference / second-difference rows, anchored and floating components = exact defects 0..3, zero columns, covariance blocks up to dimension 10 with any band) through the same oracle. (b) generated gama-local networks are adjusted by the real binary with each "
        "--algorithm and the XML results compared field by field. Non-trivial = singular, banded covariance, proper subset, "
        "or a non-resolving subset; distinct by sha1 of the case.")
ASSUMPTIONS = ["numpy condition number as the scale of the tolerance",
               "non-resolving subsets are exact by construction (columns outside the support of the null space, or fewer than the defect)"]
REQUIRED_CLASSES = ["d>0", "band>0", "subset", "nonresolving", "net.free", "net.fixed", "net.blunder", "net.correlated"]

QUERIES = ["defect", "x", "r", "rtr", "allqxx", "allqbb"]


def oracle_pairwise(case, stats):
    A, C, R = reference(case)
    if R is None:
        stats.label("discarded_ambiguous")
        return []
    if R.d > 0 and not R.resolving:
        if not R.nonresolving_exact:
            stats.label("discarded_ambiguous")
            return []
        return oracle_nonresolving(case, R, stats)
    if R.sg_ratio < 0.05:
        stats.label("discarded_ambiguous")
        return []
    labels(case, R, stats)
    res = query(case, "adj", ALGS, QUERIES)
    fails = []
    vals = {}
    for alg in ALGS:
        a = res[alg]
        if "crash" in a:
            return ["adj.%s.crash: %s %s" % (alg, a["crash"]["kind"], a["crash"]["frame"])]
        vals[alg] = {}
        for q in QUERIES:
            v = val(a[q])
            if v is None or not np.all(np.isfinite(v)):
                fails.append("adj.%s.%s.exception: %s" % (alg, q, str(a[q])[:200]))
            vals[alg][q] = v
    if fails:
        return fails
    kappa = R.cond / max(R.sg_ratio, 1e-3)
    b = np.array(case["b"], float)
    P = np.linalg.inv(C)
    nA = max(1.0, np.linalg.norm(A, 2))
    scale = {
        "x": R.scale_x,
        "r": nA * R.scale_x + np.max(np.abs(b), initial=0.0) + 1.0,
        "rtr": float(b @ P @ b) + 1.0,
        "allqxx": max(1.0, float(np.max(np.abs(R.Q)))),
        "allqbb": max(1.0, float(np.max(np.abs(R.AQA)))),
    }
    for a1, a2 in itertools.combinations(ALGS, 2):
        if int(vals[a1]["defect"]) != int(vals[a2]["defect"]):
            fails.append("pair.%s.%s.defect: %s vs %s" % (a1, a2, vals[a1]["defect"], vals[a2]["defect"]))
            continue
        for q in ("x", "r", "rtr", "allqxx", "allqbb"):
            tol = 2e-8 * kappa * scale[q] * (kappa if q in ("allqxx", "allqbb") else 1.0)
            if q == "rtr":
                # two sums of squares of residuals that differ by the rounding of x (as in C01; not relative to b'Pb, which
                # would let a formula that cancels large absolute terms pass)
                nP = float(np.linalg.norm(P, 2))
                dv = 2e-11 * kappa * (nA * float(np.linalg.norm(R.x)) + float(np.linalg.norm(b)) + 1.0) * np.sqrt(max(R.m, 1))
                tol = 2 * np.sqrt(max(R.rtr, 0.0) * nP) * dv + nP * dv * dv + 2e-12 * (R.rtr + 1.0)
            e = float(np.max(np.abs(vals[a1][q] - vals[a2][q]))) if vals[a1][q].size else 0.0
            stats.ratio("pair.%s" % q, e / tol)
            if e > tol:
                fails.append("pair.%s.%s.%s: differ by %.3g (tol %.3g)" % (a1, a2, q, e, tol))
    return fails


def oracle_nonresolving(case, R, stats):
    stats.label("nonresolving", "nonresolving.d=%d" % R.d)
    if case["minx"] is not None and len(case["minx"]) == 0:
        stats.label("nonresolving.empty_list")
    res = query(case, "adj", ALGS, ["x", "rtr"])
    fails = []
    for alg in ALGS:
        a = res[alg]
        if "crash" in a:
            fails.append("nonres.%s.crash: %s %s" % (alg, a["crash"]["kind"], a["crash"]["frame"]))
            continue
        ax = a["x"]
        if "v" in ax:
            fails.append("nonres.%s.accepted: regularisation subset %s cannot resolve defect %d "
                         "(sigma_d(G_S)=%.2g) but an adjustment was reported" % (alg, case["minx"], R.d, R.sg_ratio))
        elif ax.get("exc") != "matvec" or ax.get("code") != 3:
            fails.append("nonres.%s.wrong_exception: %s" % (alg, ax))
    return fails


def nontriv(case):
    return nontrivial(case) or case.get("mode") == "nonres"


# ------------------------------------------------------------------ (b) network level, real binary

@st.composite
def net_case(draw):
    from .. import gen_net
    free = draw(st.integers(0, 3)) == 0
    net = draw(gen_net.determined_network(noise=1, free=free))
    if not free and draw(st.booleans()):
        gen_net.add_mixed_points(draw, net)
    # a gross error beyond tol-abs: the exclusion must not depend on the algorithm either
    blunder = None
    if draw(st.integers(0, 3)) == 0:
        # (not inside correlated clusters: there the removal phase works with the homogenised terms and excludes
        # neighbours of the blunder as well - known finding of C14)
        cands = [(ci, oi) for ci, cl in enumerate(net["clusters"]) if cl["k"] in ("obs", "hdiff")
                 and not (cl.get("cov") and cl["cov"]["band"] > 0)
                 for oi, o in enumerate(cl["obs"]) if cl["k"] == "hdiff" or o["t"] in ("distance", "s-distance")]
        if cands:
            blunder = list(draw(st.sampled_from(cands)))
    band = draw(st.sampled_from([-1, -1, 0, 2]))
    return {"net": net, "blunder": blunder, "band": band}


def oracle_network(c, stats):
    import copy
    from .. import gen_net, netmodel as nm, netrun, adjxml
    from . import c20
    net = copy.deepcopy(c["net"])
    red = copy.deepcopy(c["net"])            # what remains once the gross error is excluded must be well-posed too
    if c["blunder"]:
        ci, oi = c["blunder"]
        del red["clusters"][ci]["obs"][oi]
        red["clusters"][ci]["cov"] = None
        red["clusters"] = [cl for cl in red["clusters"] if cl["obs"]]
        # (with a margin: what is left must be clearly determined, weak remainders are the subject of C20)
        if not (c20.well_posed_free(red) if net.get("free") else gen_net.is_determined(red, tol=0.02)):
            stats.label("discarded_ill_posed_after_exclusion")
            return []
    if net.get("free"):
        if not c20.well_posed_free(net):
            stats.label("discarded_free_not_well_posed")
            return []
        stats.label("net.free")
    elif not gen_net.is_determined(net):
        stats.label("discarded_not_determined")
        return []
    else:
        stats.label("net.fixed")
    if c["blunder"]:
        ci, oi = c["blunder"]
        net["clusters"][ci]["obs"][oi]["e"] = 2500.0       # mm, tol-abs is 1000
        stats.label("net.blunder")
    if any(cl.get("cov") and cl["cov"]["band"] > 0 for cl in net["clusters"]):
        stats.label("net.correlated")
    text = nm.gkf_text(net)
    args = [] if c["band"] == -1 else ["--cov-band", str(c["band"])]
    X = {}
    fails = []
    for alg in ALGS:
        res = netrun.gama_local(text, ["--algorithm", alg] + args, outputs=("xml",))
        if res["crash"] is not None:
            fails.append("net.%s.crash: %s %s" % (alg, res["crash"]["kind"], res["crash"]["frame"]))
            continue
        try:
            X[alg] = adjxml.parse_adjustment(res["xml"] or "")
        except adjxml.NotWellFormed as e:
            fails.append("net.%s.xml: %s" % (alg, e))
    if fails:
        return fails
    refused = [a for a in ALGS if "error" in X[a]]
    if refused and len(refused) < 4:
        if net.get("free") and refused == ["envelope"]:
            return ["net.envelope_free: well-posed free network refused by envelope only: %s" % X["envelope"]["error"]["descriptions"]]
        return ["net.acceptance: refused by %s, adjusted by the others (%s)" % (refused, X[refused[0]]["error"]["descriptions"])]
    if refused:
        stats.label("net.all_refused")
        return []
    ref = X["gso"]
    for alg in ("envelope", "cholesky", "svd"):
        x = X[alg]
        if net.get("free") and alg == "envelope" and x["summary"]["defect"] != ref["summary"]["defect"]:
            return ["net.envelope_free: envelope reports defect %d, the others %d" % (x["summary"]["defect"], ref["summary"]["defect"])]
        fl = c20.tolerant_compare("net.pair.gso.%s" % alg, ref, x, stats, net)
        if net.get("free") and alg == "envelope":
            # known finding: in free networks the envelope results are only good to about 1e-5 relative
            fl = [("net.envelope_free: (accuracy) " + f_) if f_.split(":", 1)[0].endswith(".cov") else f_ for f_ in fl]
        # removed points / excluded observations show as different point and observation sets: compare() reports them
        fails += fl
        for k in ("fixed", "adjusted"):
            if [a["id"] for a in ref["coordinates"][k]] != [a["id"] for a in x["coordinates"][k]]:
                fails.append("net.pair.gso.%s.point_order: %s points differ" % (alg, k))
        sd_ref = [o.get("stdev") for o in ref["observations"]]
        sd_x = [o.get("stdev") for o in x["observations"]]
        if len(sd_ref) == len(sd_x):
            for a, b in zip(sd_ref, sd_x):
                if a is not None and b is not None and abs(a - b) > 1e-5 * max(abs(a), abs(b)) + 1e-7:
                    fails.append("net.pair.gso.%s.obs_stdev: %r vs %r" % (alg, a, b))
                    break
        for k in ("aposteriori", "confidence_scale", "ratio"):
            a, b = ref["summary"].get(k), x["summary"].get(k)
            if a is not None and b is not None and abs(a - b) > 1e-6 * max(abs(a), abs(b)) + 1e-9:
                fails.append("net.pair.gso.%s.%s: %r vs %r" % (alg, k, a, b))
    return fails


PARTS = [
    Part("pairwise", strategy=lambda: gen_linear.linear_problem(), oracle=oracle_pairwise,
         nontrivial=nontriv, n={"quick": 5000, "thorough": 40000}),
    Part("nonresolving", strategy=lambda: gen_linear.linear_problem(singular_only=True, minx_mode="nonres"),
         oracle=oracle_pairwise, nontrivial=nontriv, n={"quick": 1500, "thorough": 10000}),
    Part("large", strategy=lambda: gen_linear.graph_problem(), oracle=oracle_pairwise,
         nontrivial=nontriv, n={"quick": 400, "thorough": 6000},
         sample=lambda c: {"m": c["m"], "n": c["n"], "d": c["d"], "mode": c["mode"], "minx": c["minx"],
                           "bands": [b["width"] for b in c["blocks"]]}),
    Part("nonresolving_large", strategy=lambda: gen_linear.graph_problem(singular_only=True, minx_mode="nonres"),
         oracle=oracle_pairwise, nontrivial=nontriv, n={"quick": 400, "thorough": 5000},
         sample=lambda c: {"m": c["m"], "n": c["n"], "d": c["d"], "minx": c["minx"]}),
    Part("network", strategy=net_case, oracle=oracle_network, n={"quick": 3000, "thorough": 25000},
         nontrivial=lambda c: bool(c["net"].get("free") or c["blunder"] or any(cl.get("cov") for cl in c["net"]["clusters"])),
         sample=lambda c: {"free": bool(c["net"].get("free")), "blunder": c["blunder"], "band": c["band"],
                           "points": [p["id"] for p in c["net"]["points"]]}),
]
