"""C10 - correlated observations are weighted by their full covariance matrix."""
import copy
import math

import numpy as np
from hypothesis import strategies as st

from .. import gen_net, gen_linear, netmodel as nm, netrun, adjxml
from ..lin_common import ALGS, reference, whitened_case, query, val
from ..runner import Part

RULE = ("Four generated relations. (diag) a cluster with a diagonal <cov-mat> vs the same standard deviations written as "
        "attributes; (whiten) at API level (A, b, C) vs its numpy-whitened reformulation (L^-1 A, L^-1 b, I) through "
        "GNU_gama::Adj for every algorithm and band width; (exclude) clusters (obs, height-differences) with a banded "
        "covariance into which observations to unusable ('ghost') points are inserted at generated positions vs the reduced "
        "input carrying the explicit sub-matrix; (malformed) indefinite matrices, zero / negative variances, dim larger or "
        "smaller than the cluster, too few / too many elements, band >= dim: every algorithm must refuse with the same located "
        "diagnostic. Non-trivial = band >= 1 with at least one excluded row, or a malformed matrix, or band >= 1 (whiten); "
        "distinct by sha1.")
ASSUMPTIONS = ["the sub-matrix of a banded positive definite matrix on the kept rows is the covariance of the kept observations",
               "'located diagnostic' = XML <error> with a non-empty description and 1 <= lineNumber <= number of input lines"]
REQUIRED_CLASSES = ["diag", "whiten.band>0", "exclude.band>0", "exclude.coords", "exclude.vectors", "exclude.obs", "exclude.hdiff", "malformed.indefinite", "malformed.dim_too_big",
                    "malformed.dim_too_small", "malformed.too_few", "malformed.too_many", "malformed.band_ge_dim",
                    "malformed.zero_variance"]

TOL_C = 2e-7     # coordinates [m]


def run(net, alg, text=None):
    res = netrun.gama_local(text if text is not None else nm.gkf_text(net), ["--algorithm", alg])
    if res["crash"] is not None:
        return None, "crash: %s %s" % (res["crash"]["kind"], res["crash"]["frame"])
    try:
        return adjxml.parse_adjustment(res["xml"] or ""), None
    except adjxml.NotWellFormed as e:
        return None, "xml: %s / stdout %s" % (e, (res["stdout"] or "")[-200:])


def compare(tag, x1, x2, stats, obs_map=None):
    """x2's observations are a superset/equal to x1's; obs_map: indices in x2 of x1's observations"""
    fails = []
    if ("error" in x1) != ("error" in x2):
        return ["%s.acceptance: %s vs %s" % (tag, x1.get("error"), x2.get("error"))]
    if "error" in x1:
        stats.label(tag + ".both_refused")
        return []
    S1, S2 = x1["summary"], x2["summary"]
    for k in ("dof", "defect", "equations", "unknowns"):
        if S1[k] != S2[k]:
            fails.append("%s.%s: %s vs %s" % (tag, k, S1[k], S2[k]))
    if abs(S1["sum_of_squares"] - S2["sum_of_squares"]) > 1e-6 * S1["sum_of_squares"] + 1e-10:
        fails.append("%s.sum_of_squares: %r vs %r" % (tag, S1["sum_of_squares"], S2["sum_of_squares"]))
    a1 = {a["id"]: a for a in x1["coordinates"]["adjusted"]}
    a2 = {a["id"]: a for a in x2["coordinates"]["adjusted"]}
    if set(a1) != set(a2):
        fails.append("%s.points: %s vs %s" % (tag, sorted(a1), sorted(a2)))
    for pid in set(a1) & set(a2):
        for k in ("x", "y", "z"):
            if (k in a1[pid]) != (k in a2[pid]):
                fails.append("%s.coordinate_set: %s %s" % (tag, pid, k))
            elif k in a1[pid]:
                e = abs(a1[pid][k] - a2[pid][k])
                stats.ratio(tag + ".coord", e / TOL_C)
                if e > TOL_C:
                    fails.append("%s.coordinates: %s %s differ by %.3g m" % (tag, pid, k, e))
    o1, o2 = x1["observations"], x2["observations"]
    if len(o1) != len(o2):
        fails.append("%s.observation_count: %d vs %d" % (tag, len(o1), len(o2)))
    else:
        for a, b in zip(o1, o2):
            if a["tag"] != b["tag"]:
                fails.append("%s.observation_order: %s vs %s" % (tag, a["tag"], b["tag"]))
                break
            ang = a["tag"] in ("direction", "angle", "zenith-angle", "azimuth")
            d = a["adj"] - b["adj"]
            if ang:
                d = ((d + 200) % 400 - 200) * 1e4
            else:
                d *= 1e3
            if abs(d) > (2e-3 if ang else 2e-4):
                fails.append("%s.adjusted_obs: %s %s->%s differ by %.3g" % (tag, a["tag"], a.get("from", a.get("id")), a.get("to", ""), d))
                break
            # statistics per observation (they use the standard deviation of the observation itself: the right row of the
            # cluster's matrix also after an exclusion)
            bad = None
            for k in ("stdev", "qrr", "f", "std-residual", "err-obs", "err-adj"):
                if a.get(k) is None or b.get(k) is None:
                    continue        # (err-obs / err-adj are written only for clusters whose declared band is 0)
                if k in ("std-residual", "err-obs", "err-adj") and (min(a.get("f") or 0.0, b.get("f") or 0.0) < 1.0
                                                                   or min(S1["sum_of_squares"], S2["sum_of_squares"]) < 1e-9):
                    continue        # an (almost) uncontrolled observation, or residuals that are all rounding noise: 0/0
                if abs(a[k] - b[k]) > 2e-3 * max(abs(a[k]), abs(b[k])) + 2e-3:
                    bad = "%s %.6g vs %.6g" % (k, a[k], b[k])
            if bad:
                fails.append("%s.obs_statistics: %s %s->%s %s" % (tag, a["tag"], a.get("from", a.get("id")), a.get("to", ""), bad))
                break
    c1, c2 = x1.get("cov"), x2.get("cov")
    if c1 and c2 and c1["dim"] == c2["dim"] and len(c1["flt"]) == len(c2["flt"]):
        scale = max([abs(u) for u in c1["flt"]] + [1.0])
        for u, v in zip(c1["flt"], c2["flt"]):
            if abs(u - v) > 2e-6 * max(abs(u), abs(v)) + 1e-9 * scale:
                fails.append("%s.cov: %r vs %r" % (tag, u, v))
                break
    return fails


# ------------------------------------------------------------------ (a) diagonal cov-mat

@st.composite
def diag_case(draw):
    net = draw(gen_net.determined_network(noise=1, allow_cov=False))
    return {"net": net, "alg": draw(st.sampled_from(ALGS)), "which": draw(st.integers(0, 10 ** 6))}


def oracle_diag(c, stats):
    net = c["net"]
    if not gen_net.is_determined(net):
        stats.label("discarded_not_determined")
        return []
    n2 = copy.deepcopy(net)
    changed = 0
    for i, cl in enumerate(n2["clusters"]):
        if cl["k"] in ("obs", "hdiff") and cl.get("cov") is None and (c["which"] >> (i % 20)) & 1:
            sds = [o["sd"] for o in cl["obs"]]
            cl["cov"] = {"band": 0, "C": np.diag(np.square(sds)).tolist()}
            changed += 1
    if not changed:
        stats.label("diag.nothing_changed")
        return []
    stats.label("diag")
    x1, e = run(net, c["alg"])
    if e:
        return ["diag.base." + e]
    x2, e = run(n2, c["alg"])
    if e:
        return ["diag.covmat." + e]
    return compare("diag", x1, x2, stats)


# ------------------------------------------------------------------ (b) whitening at API level

def oracle_whiten(case, stats):
    A, C, R = reference(case)
    if R is None or not R.resolving or R.sg_ratio < 0.05:
        stats.label("discarded_ambiguous")
        return []
    band = any(b["width"] > 0 for b in case["blocks"])
    stats.label("whiten.band>0" if band else "whiten.band=0")
    wc = whitened_case(case, R)
    q = ["x", "rtr", "defect", "allqxx"]
    r1 = query(case, "adj", ALGS, q)
    r2 = query(wc, "adj", ALGS, q)
    fails = []
    kappa = R.cond / max(R.sg_ratio, 1e-3)
    for alg in ALGS:
        a, b = r1[alg], r2[alg]
        if "crash" in a or "crash" in b:
            cr = a.get("crash") or b.get("crash")
            fails.append("whiten.%s.crash: %s %s" % (alg, cr["kind"], cr["frame"]))
            continue
        for k in q:
            va, vb = val(a[k]), val(b[k])
            if va is None or vb is None:
                fails.append("whiten.%s.%s.exception: %s / %s" % (alg, k, a[k], b[k]))
                continue
            sc = max(1.0, float(np.max(np.abs(vb)))) if vb.size else 1.0
            tol = 1e-8 * kappa * sc * (kappa if k == "allqxx" else 1.0)
            if k == "rtr":
                # the whitened twin is computed by numpy: its right-hand side carries the rounding eps cond(C) |b| of the
                # triangular solve (visible when the absolute terms are 1e6 times the residuals), d(v'v) = 2 sqrt(v'v) db + db^2
                db = 1e-13 * R.condC * float(np.linalg.norm(R.bb))
                tol += 2 * np.sqrt(abs(float(vb))) * db + db * db
            e = float(np.max(np.abs(va - vb))) if va.size else 0.0
            stats.ratio("whiten." + k, e / tol)
            if e > tol:
                fails.append("whiten.%s.%s: covariance-weighted and whitened formulation differ by %.3g (tol %.3g)" % (alg, k, e, tol))
    return fails


# ------------------------------------------------------------------ (c) excluded rows

GHOST_IDS = ["G1", "G2", "G3", "G4"]


@st.composite
def exclude_case(draw):
    net = draw(gen_net.determined_network(noise=1, allow_cov=False))
    alg = draw(st.sampled_from(ALGS))
    plan = []
    for ci, cl in enumerate(net["clusters"]):
        if len(cl["obs"]) < 1 or not draw(st.booleans()):
            continue
        k = len(cl["obs"])
        if cl["k"] in ("coords", "vectors"):
            # observed coordinates of / vectors to points that are not declared: whole units (1-3 rows) drop out of the cluster
            g = draw(st.integers(1, 2))
            pos = sorted(draw(st.integers(0, k)) for _ in range(g))
            if cl["k"] == "vectors":
                kinds = ["vec"] * g
            else:
                dims_ok = {"1d": ["z"], "2d": ["xy"]}.get(net["dims"], ["xy", "z", "xyz"])
                kinds = [draw(st.sampled_from(dims_ok)) for _ in range(g)]
            rows, gi = [], 0
            for i in range(k + 1):
                while gi < g and pos[gi] == i:
                    rows.append(("g", gi))
                    gi += 1
                if i < k:
                    rows.append(("o", i))
            width = []
            for kind, i in rows:
                if cl["k"] == "vectors":
                    width.append(3)
                else:
                    width.append(len(cl["obs"][i]["dims"]) if kind == "o" else len(kinds[i]))
            cov = draw(gen_net.cov_for([5.0] * sum(width)))
            plan.append({"ci": ci, "rows": rows, "kinds": kinds, "declared": [False] * g, "cov": cov, "width": width,
                         "ends": [draw(st.booleans()) for _ in range(g)]})
            continue
        g = draw(st.integers(1, 3))
        pos = sorted(draw(st.integers(0, k)) for _ in range(g))          # insert positions
        kinds = [draw(st.sampled_from(["distance", "direction"] if cl["k"] == "obs" else ["dh"])) for _ in range(g)]
        declared = [draw(st.booleans()) for _ in range(g)]
        # order of rows in the extended cluster
        rows = []
        gi = 0
        for i in range(k + 1):
            while gi < g and pos[gi] == i:
                rows.append(("g", gi))
                gi += 1
            if i < k:
                rows.append(("o", i))
        sds = []
        for kind, i in rows:
            if kind == "o":
                sds.append(cl["obs"][i]["sd"])
            else:
                sds.append({"distance": 5.0, "direction": 10.0, "dh": 2.0}[kinds[i]])
        cov = draw(gen_net.cov_for(sds))
        plan.append({"ci": ci, "rows": rows, "kinds": kinds, "declared": declared, "cov": cov})
    return {"net": net, "alg": alg, "plan": plan}


def build_exclude(c):
    """-> (reduced net with explicit sub-matrices, extended net with ghost observations)"""
    n0 = copy.deepcopy(c["net"])
    n1 = copy.deepcopy(c["net"])
    used = set(p["id"] for p in n0["points"])
    gid = 0
    ghosts = []
    for pl in c["plan"]:
        cl0, cl1 = n0["clusters"][pl["ci"]], n1["clusters"][pl["ci"]]
        C1 = np.array(pl["cov"]["C"], float)
        if "width" in pl:
            keep, r0, obs1 = [], 0, []
            for (kind, i), w in zip(pl["rows"], pl["width"]):
                if kind == "o":
                    keep += list(range(r0, r0 + w))
                    obs1.append(cl1["obs"][i])
                else:
                    name = "Gh%d" % gid
                    gid += 1
                    ghosts.append((name, False))
                    if cl1["k"] == "vectors":
                        other = cl1["obs"][0]["from"]
                        ob = {"from": name, "to": other} if pl["ends"][i] else {"from": other, "to": name}
                        ob.update({"e": [0.0, 0.0, 0.0], "ghost": [12.345, -6.789, 1.234]})
                    else:
                        ob = {"id": name, "dims": pl["kinds"][i], "e": [0.0] * w, "ghost": [1234.5, 678.9, 12.3][:w] if pl["kinds"][i] != "z" else [12.3]}
                    obs1.append(ob)
                r0 += w
            C0 = C1[np.ix_(keep, keep)]
            cl0["cov"] = {"band": min(pl["cov"]["band"], max(len(keep) - 1, 0)), "C": C0.tolist()}
            cl1["obs"] = obs1
            cl1["cov"] = pl["cov"]
            continue
        keep = [i for i, (kind, _) in enumerate(pl["rows"]) if kind == "o"]
        C0 = C1[np.ix_(keep, keep)]
        w0 = min(pl["cov"]["band"], max(len(keep) - 1, 0))
        cl0["cov"] = {"band": w0, "C": C0.tolist()}
        obs1 = []
        for kind, i in pl["rows"]:
            if kind == "o":
                obs1.append(cl1["obs"][i])
            else:
                name = "Gh%d" % gid
                gid += 1
                t = pl["kinds"][i]
                # a declared point with one height difference is determinable: dh ghosts stay undeclared
                ghosts.append((name, pl["declared"][i] and t != "dh"))
                if t == "dh":
                    obs1.append({"from": cl1["obs"][0]["from"], "to": name, "sd": 2.0, "dist": None, "e": 0.0, "ghost": 1.234})
                else:
                    obs1.append({"t": t, "to": name, "sd": 5.0 if t == "distance" else 10.0, "e": 0.0, "ghost": 12.345})
        cl1["obs"] = obs1
        cl1["cov"] = pl["cov"]
    return n0, n1, ghosts


def gkf_with_ghosts(net, ghosts):
    """GKF text of a net that contains observations to ghost points (values given explicitly)"""
    P = nm.pmap(net)
    vals = []
    for cl in net["clusters"]:
        v = []
        for ob in cl["obs"]:
            if "ghost" in ob:
                v.append(ob["ghost"])
            else:
                tr = nm.obs_truth(net, cl, ob, P)
                if isinstance(tr, list):
                    v.append([t + e * 1e-3 for t, e in zip(tr, ob["e"])])
                elif cl["k"] == "obs" and ob["t"] in nm.ANGULAR:
                    x = tr + ob["e"] * nm.CC2R
                    v.append(x if ob["t"] == "z-angle" else nm.norm2pi(x))
                else:
                    v.append(tr + ob["e"] * 1e-3)
        vals.append(v)
    n = copy.deepcopy(net)
    for name, declared in ghosts:
        if declared:
            n["points"].append({"id": name, "E": 0.0, "N": 0.0, "H": 0.0, "xy": "adj" if net["dims"] != "1d" else None,
                                "z": "adj" if net["dims"] != "2d" else None, "give_xy": False, "give_z": False})
    return nm.gkf_text(n, vals)


def oracle_exclude(c, stats):
    net = c["net"]
    if not gen_net.is_determined(net) or not c["plan"]:
        stats.label("discarded")
        return []
    n0, n1, ghosts = build_exclude(c)
    band = any(pl["cov"]["band"] > 0 for pl in c["plan"])
    stats.label("exclude.band>0" if band else "exclude.band=0")
    for pl in c["plan"]:
        stats.label("exclude." + net["clusters"][pl["ci"]]["k"])
    x0, e = run(n0, c["alg"])
    if e:
        return ["exclude.reduced." + e]
    x1, e = run(None, c["alg"], gkf_with_ghosts(n1, ghosts))
    if e:
        return ["exclude.extended." + e]
    return compare("exclude", x0, x1, stats)


# ------------------------------------------------------------------ (d) malformed matrices

KINDS = ["indefinite", "zero_variance", "negative_variance", "dim_too_big", "dim_too_small", "too_few", "too_many", "band_ge_dim",
         "all_zero", "single_zero"]


@st.composite
def malformed_case(draw):
    net = draw(gen_net.determined_network(noise=1, allow_cov=False))
    cands = [i for i, cl in enumerate(net["clusters"]) if len(nm.flat_observations({"clusters": [cl]})) >= 2]
    return {"net": net, "kind": draw(st.sampled_from(KINDS)), "pick": draw(st.integers(0, 1000)),
            "band": draw(st.integers(0, 3))}


def corrupt_text(c):
    net = copy.deepcopy(c["net"])
    cands = [i for i, cl in enumerate(net["clusters"]) if len(nm.flat_observations({"clusters": [cl]})) >= 2]
    if not cands:
        return None, None
    ci = cands[c["pick"] % len(cands)]
    cl = net["clusters"][ci]
    n = len(nm.flat_observations({"clusters": [cl]}))
    sd = [5.0] * n
    if cl["k"] in ("obs", "hdiff"):
        sd = [o["sd"] for o in cl["obs"]]
    band = min(c["band"], n - 1)
    C = np.diag(np.square(sd)).astype(float)
    for i in range(n):
        for j in range(i + 1, min(n, i + band + 1)):
            C[i, j] = C[j, i] = 0.2 * sd[i] * sd[j]
    kind = c["kind"]
    if kind == "indefinite":
        band = max(band, 1)
        C[0, 1] = C[1, 0] = 3.0 * sd[0] * sd[1]
    elif kind == "zero_variance":
        C[n - 1, n - 1] = 0.0
    elif kind == "negative_variance":
        C[0, 0] = -abs(C[0, 0])
    elif kind == "all_zero":
        C[:, :] = 0.0               # no positive variance at all: a tolerance relative to the largest variance is zero
        band = 0
    elif kind == "single_zero":
        # a cluster of one observation with variance zero (a one-element <cov-mat>, where the format allows one element)
        if cl["k"] not in ("obs", "hdiff"):
            return None, None
        cl["obs"] = cl["obs"][:1]
        n = 1
        band = 0
        C = np.zeros((1, 1))
    cl["cov"] = {"band": band, "C": C.tolist()}
    text = nm.gkf_text(net)
    # textual corruption of the <cov-mat> of that cluster
    marker = '<cov-mat dim="%d" band="%d">' % (n, band)
    k = text.find(marker)
    if k < 0:
        return None, None
    end = text.find("</cov-mat>", k)
    body = text[k + len(marker):end]
    if kind == "dim_too_big":
        extra = " ".join(["1.0"] + ["0.0"] * min(band, n))  # enough elements for one more row
        rows = body.strip().split("\n")
        # re-serialise a (n+1)-dim matrix with the same band
        D = np.zeros((n + 1, n + 1)); D[:n, :n] = C; D[n, n] = 1.0
        new = nm.cov_text({"band": band, "C": D.tolist()})
        text = text[:k] + new.strip() + text[end + len("</cov-mat>"):]
    elif kind == "dim_too_small":
        if n < 3:
            return None, None
        D = C[:n - 1, :n - 1]
        new = nm.cov_text({"band": min(band, n - 2), "C": D.tolist()})
        text = text[:k] + new.strip() + text[end + len("</cov-mat>"):]
    elif kind == "too_few":
        toks = body.split()
        text = text[:k + len(marker)] + "\n" + " ".join(toks[:-1]) + "\n" + text[end:]
    elif kind == "too_many":
        text = text[:end] + " 1.0\n" + text[end:]
    elif kind == "band_ge_dim":
        text = text.replace(marker, '<cov-mat dim="%d" band="%d">' % (n, n), 1)
    return text, cl["k"]


def oracle_malformed(c, stats):
    text, kind_cl = corrupt_text(c)
    if text is None:
        stats.label("discarded")
        return []
    stats.label("malformed." + c["kind"], "malformed.cluster=" + kind_cl)
    nlines = text.count("\n") + 1
    fails = []
    outs = []
    for alg in ALGS:
        x, e = run(None, alg, text)
        if e:
            fails.append("malformed.%s.%s: %s" % (c["kind"], alg, e))
            continue
        if "error" not in x:
            fails.append("malformed.%s.accepted: %s covariance matrix in a %s cluster was accepted by %s (dof %s, v'Pv %s)" %
                         (c["kind"], c["kind"], kind_cl, alg, x["summary"].get("dof"), x["summary"].get("sum_of_squares")))
            continue
        er = x["error"]
        desc = [d for d in er["descriptions"] if d and d.strip()]
        if len(desc) < 2:
            fails.append("malformed.%s.empty_diagnostic: %s" % (c["kind"], er))
        if er["line"] is None or not (1 <= er["line"] <= nlines):
            fails.append("malformed.%s.line: diagnostic without a valid line number: %s" % (c["kind"], er))
        outs.append((er["category"], tuple(er["descriptions"]), er["line"]))
    if len(set(outs)) > 1:
        fails.append("malformed.%s.algorithms_differ: %s" % (c["kind"], sorted(set(outs))))
    return fails


PARTS = [
    Part("diag", strategy=diag_case, oracle=oracle_diag, n={"quick": 500, "thorough": 4000}),
    Part("whiten", strategy=lambda: gen_linear.linear_problem(), oracle=oracle_whiten,
         nontrivial=lambda c: any(b["width"] > 0 for b in c["blocks"]), n={"quick": 4000, "thorough": 20000}),
    Part("exclude", strategy=exclude_case, oracle=oracle_exclude,
         nontrivial=lambda c: any(pl["cov"]["band"] > 0 for pl in c["plan"]), n={"quick": 2000, "thorough": 6000}),
    Part("malformed", strategy=malformed_case, oracle=oracle_malformed, n={"quick": 600, "thorough": 4000}),
]
