"""C07 - equivalent descriptions of the same survey give the same adjustment."""
import copy
import math

import numpy as np
from hypothesis import strategies as st

from .. import gen_net, netmodel as nm, netrun, adjxml
from ..runner import Part

ALGS = ["envelope", "cholesky", "gso", "svd"]
TRANSFORMS = ["translate", "rotate_circle", "permute", "rename", "units", "swap_distance", "frame"]

RULE = ("Hypothesis generates noisy determined networks (C06 recipes, errors of about one sigma) and one transformation "
        "derived from the physical truth model, not from the first file: translation by exact decimals up to 5e6 m, rotation of "
        "the zero of direction sets by angles incl. 1e-4, 199.9999, 200, 399.9999 gon, permutation of points / clusters / "
        "observations (with the covariance matrix permuted), injective renaming incl. non-ASCII ids, gon <-> degree input, "
        "swapping the ends of distances, and re-description in another of the 16 axes-xy x angle-sense frames. Both files are "
        "adjusted by the real binary; results mapped back to the physical frame must agree (coordinates, residuals, standard "
        "deviations, v'Pv, dof, ellipse axes, orientations shifted by the rotation). "
        "Non-trivial = a transformation that really changes the file (a direction set for rotations / frames, >= 2 clusters "
        "for permutations); distinct by sha1 of (network, transformation).")
ASSUMPTIONS = ["equivalence is defined on the truth model: the same physical errors are re-expressed (angular errors change sign with the angle sense)",
               "under a frame change the covariance matrix of a coordinate / vector cluster transforms as C' = T C T' with the signed permutation T of its x, y components",
               "tolerances: 2e-6 m coordinates, 2e-3 mm / 2e-2 cc residuals, 1e-5 relative on standard deviations and v'Pv"]
REQUIRED_CLASSES = ["tr=" + t for t in TRANSFORMS]

ROT = [1e-4, 199.9999, 200.0, 399.9999, 100.0, 37.123456789, 0.5, 300.0]
NAMES = ["Ž1", "bod č.7", "αβγ", "点A", "P_01", "x-y", "Q.2", "Ünï", "a b", "9", "10", "007", "Z'", "é", "ß", "Ω9",
         # spellings that a numeric comparison would merge
         "7", "07", "+7", "7.0", "0", "00", "1e1", "010", "99999999999999999999", "99999999999999999998",
         # numbers next to names that start with digits: numeric and lexicographic order disagree (9 < 10 < 15a < 9)
         "15a", "2b", "150", "12", "3x", "30", "100", "1a"]


@st.composite
def case(draw):
    tr = draw(st.sampled_from(TRANSFORMS))
    # renaming / reordering: larger networks, so that containers keyed by point id hold enough ids for an ordering slip to show
    net = draw(gen_net.determined_network(noise=1, isotropic=False, allow_cov=(tr != "frame") or draw(st.booleans()),
                                          n_max=14 if tr in ("rename", "permute") else 8))
    alg = draw(st.sampled_from(ALGS))
    par = {}
    n = len(net["points"])
    if tr == "translate":
        par = {"dE": draw(st.sampled_from([1000.0, -250000.5, 5000000.0, 123456.789])),
               "dN": draw(st.sampled_from([-1000.0, 1000000.25, -5000000.0, 654321.125]))}
    elif tr == "rotate_circle":
        # any angle, or the zero of the circle put on (next to) the first target: readings within the noise of 0 / 400 gon
        par = {"c": [draw(st.sampled_from(ROT + [["target", 0.0], ["target", 2e-4], ["target", -2e-4], ["target", 1e-3]]))
                     for _ in net["clusters"]]}
        if draw(st.integers(0, 2)) == 0:
            # a target (almost) on a coordinate axis through its station, 2 mm to either side: bearings within the noise
            # of 0 / 100 / 200 / 300 / 400 gon, where the misclosure of a direction has to be wrapped on either side
            dcl = [cl for cl in net["clusters"] if cl["k"] == "obs" and any(o["t"] == "direction" for o in cl["obs"])]
            if dcl:
                cl = draw(st.sampled_from(dcl))
                t_id = [o for o in cl["obs"] if o["t"] == "direction"][0]["to"]
                Pm = {q["id"]: q for q in net["points"]}
                s_, t_ = Pm[cl["from"]], Pm[t_id]
                L = max(5.0, math.hypot(t_["E"] - s_["E"], t_["N"] - s_["N"]))
                v = draw(st.integers(0, 7))
                ax = [(0.0, 1.0), (0.0, -1.0), (1.0, 0.0), (-1.0, 0.0)][v // 2]
                side = 1.0 if v % 2 else -1.0
                newE = round(s_["E"] + L * ax[0] + side * 0.002 * ax[1], 3)
                newN = round(s_["N"] + L * ax[1] + side * 0.002 * ax[0], 3)
                if all(math.hypot(q["E"] - newE, q["N"] - newN) > 1.0 for q in net["points"] if q["id"] != t_id):
                    t_["E"], t_["N"] = newE, newN
                    net["axis_target"] = True
    elif tr == "permute":
        par = {"points": draw(st.permutations(list(range(n)))),
               "clusters": draw(st.permutations(list(range(len(net["clusters"]))))),
               "seed": draw(st.integers(0, 10 ** 6))}
    elif tr == "rename":
        par = {"names": draw(st.permutations(NAMES))[:n]}
    elif tr == "frame":
        par = {"axes": draw(st.sampled_from(nm.AXES)), "angles": draw(st.sampled_from(["left-handed", "right-handed"]))}
    if draw(st.integers(0, 3)) == 0 and gen_net.apply_implicit_stdevs(draw, net):
        # implicit standard deviations (attributes of <points-observations>); the re-expressed input may spell them out
        par["explicit_sd"] = draw(st.booleans())
    return {"net": net, "alg": alg, "tr": tr, "par": par}


def transform(c):
    """-> (net2, idmap, cluster permutation, per-cluster observation permutation)"""
    net = c["net"]
    tr, par = c["tr"], c["par"]
    n2 = copy.deepcopy(net)
    if par.get("explicit_sd"):
        n2.pop("implicit", None)
        for cl in n2["clusters"]:
            for ob in cl["obs"]:
                ob.pop("implicit_sd", None)
    idmap = {p["id"]: p["id"] for p in net["points"]}
    if tr == "translate":
        for p in n2["points"]:
            p["E"] += par["dE"]
            p["N"] += par["dN"]
    elif tr == "rotate_circle":
        for cl, cc in zip(n2["clusters"], par["c"]):
            if cl["k"] == "obs" and isinstance(cc, list):
                dirs = [ob for ob in cl["obs"] if ob["t"] == "direction"]
                if dirs:
                    r = nm.obs_truth(n2, cl, dirs[0], nm.pmap(n2)) * nm.R2G
                    cl["orient"] = (cl["orient"] + r - cc[1]) % 400.0
            elif cl["k"] == "obs":
                cl["orient"] = (cl["orient"] + cc) % 400.0
    elif tr == "permute":
        n2["points"] = [n2["points"][i] for i in par["points"]]
        n2["clusters"] = [n2["clusters"][i] for i in par["clusters"]]
        rs = par["seed"]
        for cl in n2["clusters"]:
            m = len(cl["obs"])
            if m < 2:
                continue
            cov = cl.get("cov")
            if cov is not None and 0 < cov["band"] < np.array(cov["C"]).shape[0] - 1:
                continue          # a permuted banded matrix would not keep its band
            if cl["k"] in ("coords", "vectors") and cov is not None and cov["band"] > 0:
                continue
            # deterministic permutation from the drawn seed
            order = list(range(m))
            for i in range(m - 1, 0, -1):
                rs = (rs * 1103515245 + 12345) % (2 ** 31)
                j = rs % (i + 1)
                order[i], order[j] = order[j], order[i]
            if cov is not None:
                # rows of the covariance matrix: one per scalar observation
                sizes = [len(o["e"]) if isinstance(o.get("e"), list) else 1 for o in cl["obs"]]
                starts = np.cumsum([0] + sizes)
                rows = []
                for i in order:
                    rows += list(range(starts[i], starts[i + 1]))
                C = np.array(cov["C"])[np.ix_(rows, rows)]
                cl["cov"] = {"band": cov["band"], "C": C.tolist()}
            cl["obs"] = [cl["obs"][i] for i in order]
    elif tr == "rename":
        idmap = {p["id"]: nm_ for p, nm_ in zip(net["points"], par["names"])}
        for p in n2["points"]:
            p["id"] = idmap[p["id"]]
        for cl in n2["clusters"]:
            if cl.get("from") is not None:
                cl["from"] = idmap[cl["from"]]
            for o in cl["obs"]:
                for k in ("from", "to", "bs", "fs", "id"):
                    if o.get(k) is not None:
                        o[k] = idmap[o[k]]
    elif tr == "units":
        n2["deg"] = not net.get("deg")
    elif tr == "swap_distance":
        for cl in n2["clusters"]:
            if cl["k"] != "obs":
                continue
            for o in cl["obs"]:
                if o["t"] == "distance":
                    fr = o.get("from", cl["from"])
                    o["from"], o["to"] = o["to"], fr
    elif tr == "frame":
        flip = par["angles"] != net["angles"]
        ux, uy = nm.axes_vectors(net["axes"])
        ux2, uy2 = nm.axes_vectors(par["axes"])
        n2["axes"], n2["angles"] = par["axes"], par["angles"]
        for cl in n2["clusters"]:
            if cl["k"] == "obs" and flip and cl.get("cov") is not None:
                # mirrored angular errors: covariances between horizontal angular and other rows change sign
                dsg = np.array([-1.0 if o["t"] in ("direction", "angle", "azimuth") else 1.0 for o in cl["obs"]])
                cl["cov"] = {"band": cl["cov"]["band"], "C": (np.array(cl["cov"]["C"]) * np.outer(dsg, dsg)).tolist()}
            T = []      # (row, row) blocks of the component transformation of coordinate / vector clusters
            for o in cl["obs"]:
                if cl["k"] == "obs" and o["t"] in ("direction", "angle", "azimuth") and flip:
                    o["e"] = -o["e"]
                if cl["k"] in ("coords", "vectors") and (cl["k"] == "vectors" or "xy" in o["dims"]):
                    ev = o["e"][0] * ux + o["e"][1] * uy
                    o["e"][0] = float(ev @ ux2)
                    o["e"][1] = float(ev @ uy2)
                    R = np.array([[ux @ ux2, uy @ ux2], [ux @ uy2, uy @ uy2]], float)   # (x,y) -> (x',y'): a signed permutation
                    T.append(R)
                    if len(o["e"]) == 3:
                        T.append(np.eye(1))
                elif cl["k"] in ("coords", "vectors"):
                    T.append(np.eye(len(o["e"])))
            if cl["k"] in ("coords", "vectors") and cl.get("cov") is not None:
                # the covariance matrix is given in the frame of the file: C' = T C T' (the band width may change)
                n_ = sum(b.shape[0] for b in T)
                TT = np.zeros((n_, n_))
                k_ = 0
                for b in T:
                    TT[k_:k_ + b.shape[0], k_:k_ + b.shape[0]] = b
                    k_ += b.shape[0]
                C2 = TT @ np.array(cl["cov"]["C"], float) @ TT.T
                nzb = [abs(i - j) for i in range(n_) for j in range(n_) if C2[i, j] != 0.0]
                cl["cov"] = {"band": int(max(nzb) if nzb else 0), "C": C2.tolist()}
    return n2, idmap


def obs_key(o, idmap=None):
    f = (lambda s: idmap.get(s, s)) if idmap else (lambda s: s)
    return (o["tag"], f(o.get("from", "")), f(o.get("to", "")), f(o.get("left", "")), f(o.get("right", "")), f(o.get("id", "")))


def physical_coords(net, x):
    out = {}
    for a in x["coordinates"]["adjusted"]:
        d = {}
        if "x" in a:
            d["E"], d["N"] = nm.from_input(net, a["x"], a["y"])
        if "z" in a:
            d["H"] = a["z"]
        out[a["id"]] = d
    return out


def run(net, alg):
    res = netrun.gama_local(nm.gkf_text(net), ["--algorithm", alg])
    if res["crash"] is not None:
        return None, "crash: %s %s" % (res["crash"]["kind"], res["crash"]["frame"])
    try:
        x = adjxml.parse_adjustment(res["xml"] or "")
    except adjxml.NotWellFormed as e:
        return None, "xml: %s" % e
    return x, None


def oracle(c, stats):
    net = c["net"]
    if not gen_net.is_determined(net):
        stats.label("discarded_not_determined")
        return []
    tr = c["tr"]
    net2, idmap = transform(c)
    stats.label("tr=" + tr)
    if net.get("axis_target"):
        stats.label("axis_target")
    if net.get("implicit"):
        stats.label("implicit_stdev", "implicit_stdev.explicit_twin" if c["par"].get("explicit_sd") else "implicit_stdev.kept")
    x1, err = run(net, c["alg"])
    if err:
        return ["base." + err]
    x2, err = run(net2, c["alg"])
    if err:
        return ["transformed." + err]
    if "error" in x1 or "error" in x2:
        if ("error" in x1) != ("error" in x2):
            return ["%s.acceptance: one description is adjusted, the other refused: %s / %s" %
                    (tr, x1.get("error"), x2.get("error"))]
        stats.label("both_refused")
        return []
    fails = []
    S1, S2 = x1["summary"], x2["summary"]
    for k in ("dof", "defect", "equations", "unknowns"):
        if S1[k] != S2[k]:
            fails.append("%s.%s: %s vs %s" % (tr, k, S1[k], S2[k]))
    # two descriptions may stop re-linearising after a different number of iterations (rounding in gama's 0.0005 mm
    # test; azimuths and zenith angles are not part of it): then they agree within gama's criteria as in C08 / C13,
    # not to the printed digits
    same_path = S1.get("iterations") == S2.get("iterations")
    rel_s = 1e-5 if same_path else 2e-4
    if not same_path:
        stats.label("iterations_differ")
    vpv = max(S1["sum_of_squares"], 0.0)
    tol_vpv = 1e-5 * vpv + 1e-9 if same_path else 2e-3 * vpv + 2e-3 * math.sqrt(vpv) + 1e-7
    if abs(S1["sum_of_squares"] - S2["sum_of_squares"]) > tol_vpv:
        fails.append("%s.sum_of_squares: %r vs %r" % (tr, S1["sum_of_squares"], S2["sum_of_squares"]))
    P1, P2 = physical_coords(net, x1), physical_coords(net2, x2)
    dE = c["par"].get("dE", 0.0) if tr == "translate" else 0.0
    dN = c["par"].get("dN", 0.0) if tr == "translate" else 0.0
    for pid, d1 in P1.items():
        d2 = P2.get(idmap[pid])
        if d2 is None:
            fails.append("%s.point_missing: %s" % (tr, pid))
            continue
        for k, off in (("E", dE), ("N", dN), ("H", 0.0)):
            if k in d1:
                if k not in d2:
                    fails.append("%s.coordinate_missing: %s %s" % (tr, pid, k))
                    continue
                e = abs(d1[k] + off - d2[k])
                stats.ratio("coord", e / 2e-6)
                if e > 2e-6:
                    fails.append("%s.coordinates: %s %s differs by %.3g m between the two descriptions" % (tr, pid, k, e))
    # observations matched by identity (k-th occurrence of the same key)
    def index(obs, imap):
        seen, out = {}, {}
        for o in obs:
            k = obs_key(o, imap)
            n = seen.get(k, 0)
            seen[k] = n + 1
            out[k + (n,)] = o
        return out
    O1 = index(x1["observations"], idmap)
    O2 = index(x2["observations"], None)
    if tr == "swap_distance":
        # ends swapped: key with from/to exchanged
        O2s = {}
        for k, o in O2.items():
            if k[0] == "distance":
                k = (k[0], k[2], k[1]) + k[3:]
            O2s[k] = o
        O2 = O2s
    if tr in ("permute", "swap_distance"):
        # occurrence order may differ: compare as multisets per key via sorting on obs value
        pass
    if len(O1) != len(O2):
        fails.append("%s.observation_count: %d vs %d" % (tr, len(O1), len(O2)))
    sign_flip = tr == "frame" and c["par"]["angles"] != net["angles"]
    ux, uy = nm.axes_vectors(net["axes"])
    ux2, uy2 = nm.axes_vectors(net2["axes"])
    # observations that belong to clusters with a banded (band > 0) covariance matrix
    TAG = {"s-distance": "slope-distance", "z-angle": "zenith-angle", "dh": "height-diff", "x": "coordinate-x",
           "y": "coordinate-y", "z": "coordinate-z"}
    corr_keys = set()
    for ci, oi, comp, t in nm.flat_observations(net):
        cl = net["clusters"][ci]
        if cl.get("cov") is None or cl["cov"]["band"] == 0:
            continue
        ob = cl["obs"][oi]
        tag = TAG.get(t, t)
        if cl["k"] == "obs":
            fr = ob.get("from", cl["from"])
            if t == "angle":
                corr_keys.add((tag, idmap[fr], "", idmap[ob["bs"]], idmap[ob["fs"]], ""))
            else:
                corr_keys.add((tag, idmap[fr], idmap[ob["to"]], "", "", ""))
        elif cl["k"] in ("hdiff", "vectors"):
            corr_keys.add((tag, idmap[ob["from"]], idmap[ob["to"]], "", "", ""))
        else:
            corr_keys.add((tag, "", "", "", "", idmap[ob["id"]]))
    by_key1 = {}
    for k, o in O1.items():
        by_key1.setdefault(k[:-1], []).append(o)
    by_key2 = {}
    for k, o in O2.items():
        by_key2.setdefault(k[:-1], []).append(o)
    for k, l1 in by_key1.items():
        l2 = by_key2.get(k)
        if l2 is None or len(l2) != len(l1):
            fails.append("%s.observation_missing: %s" % (tr, (k,)))
            continue
        ang = k[0] in ("direction", "angle", "zenith-angle", "azimuth")
        def resid(o):
            r = o["adj"] - o["obs"]
            if ang:
                r = ((r + 200.0) % 400.0 - 200.0) * 1e4
            else:
                r *= 1e3
            return r
        r1 = sorted(resid(o) * (-1.0 if (sign_flip and k[0] in ("direction", "angle", "azimuth")) else 1.0) for o in l1)
        r2 = sorted(resid(o) for o in l2)
        s1 = sorted(o["stdev"] for o in l1)
        s2 = sorted(o["stdev"] for o in l2)
        if tr == "frame" and k[0] in ("coordinate-x", "coordinate-y", "dx", "dy"):
            continue      # components are re-expressed; covered by the coordinates
        tolr = 2e-2 if ang else 2e-3
        for a, b in zip(r1, r2):
            stats.ratio("residual", abs(a - b) / tolr)
            if abs(a - b) > tolr:
                fails.append("%s.residual: %s residual %.6g vs %.6g" % (tr, (k,), a, b))
                break
        for a, b in zip(s1, s2):
            if abs(a - b) > rel_s * max(a, b) + 1e-7:
                if k in corr_keys:
                    # known finding corr-obs-stdev (C09): stdev of adjusted observations inside clusters with
                    # a banded covariance depends on the order of the rows; only this sub-assertion is skipped
                    if not any(f.startswith("corr.obs_stdev") for f in fails):
                        fails.append("corr.obs_stdev: %s %s %.9g vs %.9g" % (tr, (k,), a, b))
                    break
                fails.append("%s.obs_stdev: %s %.9g vs %.9g" % (tr, (k,), a, b))
                break
    # ellipses
    E1 = {e["id"]: e for e in x1["ellipses"]}
    E2 = {e["id"]: e for e in x2["ellipses"]}
    for pid, e1 in E1.items():
        e2 = E2.get(idmap[pid])
        if e2 is None:
            fails.append("%s.ellipse_missing: %s" % (tr, pid))
            continue
        for kk in ("major", "minor"):
            if abs(e1[kk] - e2[kk]) > rel_s * max(e1["major"], 1e-6) + 1e-7:
                fails.append("%s.ellipse_%s: %s %.9g vs %.9g" % (tr, kk, pid, e1[kk], e2[kk]))
    # orientations: shifted by -c for a rotated circle
    if tr == "rotate_circle":
        o1 = x1["orientations"]
        o2 = x2["orientations"]
        if len(o1) != len(o2):
            fails.append("rotate_circle.orientation_count: %d vs %d" % (len(o1), len(o2)))
        else:
            # effective turn of each circle (an absolute setting "zero on the first target" included)
            cl_obs = [(cl, (cl2["orient"] - cl["orient"]) % 400.0) for cl, cl2 in zip(net["clusters"], net2["clusters"]) if cl["k"] == "obs"]
            for a, b in zip(o1, o2):
                cands = [cc for cl, cc in cl_obs if cl["from"] == a["id"]]
                d = (b["adj"] - a["adj"]) % 400.0
                ys = 1.0 if nm.consistent(net) else -1.0
                if not any(min((d - ys * cc) % 400.0, (ys * cc - d) % 400.0) < 2e-6 for cc in cands):
                    fails.append("rotate_circle.orientation: station %s adjusted orientation changed by %.7f gon, circle turned by %s" % (a["id"], d, cands))
    return fails


def nontrivial(c):
    net, tr = c["net"], c["tr"]
    has_dirs = any(cl["k"] == "obs" and any(o["t"] == "direction" for o in cl["obs"]) for cl in net["clusters"])
    if tr in ("rotate_circle", "frame", "units"):
        return has_dirs
    if tr == "permute":
        return len(net["clusters"]) >= 2
    if tr == "swap_distance":
        return any(cl["k"] == "obs" and any(o["t"] == "distance" for o in cl["obs"]) for cl in net["clusters"])
    return True


PARTS = [
    Part("equivalent", strategy=case, oracle=oracle, nontrivial=nontrivial, n={"quick": 8000, "thorough": 30000},
         sample=lambda c: {"tr": c["tr"], "par": c["par"], "alg": c["alg"], "gkf": nm.gkf_text(c["net"])[:800]}),
]
