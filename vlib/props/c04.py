"""C04 - solver answers do not depend on the order or history of queries."""
import numpy as np
from hypothesis import strategies as st

from .. import drv, gen_linear, ref_linalg
from ..lin_common import ALGS, reference, val
from ..runner import Part

RULE = ("Model-based history generation: Hypothesis draws a rank-planted problem (regular or singular, n<=9), an object kind "
        "(GNU_gama::Adj or one of the four AdjBase classes), an algorithm and a sequence of 1..30 API calls from "
        "{x, r, rtr, defect, q_xx(i,j), q_bb(i,j), q0_xx(i,j), lindep(i), min_x(S'), min_x(), reset(same input), set_algorithm}; "
        "after every query the answer is compared with that of a fresh object given the same input and the current "
        "regularisation and asked only that question (1e-9 relative), and x/rtr/defect/q_xx additionally with the numpy reference. "
        "Non-trivial = history with >=3 kinds of query and one of {>=4 distinct q_xx keys (cache eviction), min_x change after a "
        "cofactor query, reset after queries, q0_xx interleaved with q_xx on a singular system, algorithm switch}; distinct by sha1. "
        "Part history_large: the same histories on graph-structured sparse problems with 10-22 unknowns (envelope profiles with gaps, several components). "
        "Network part: histories over a LocalNetwork object (see 'net').")
ASSUMPTIONS = ["min_x(S') is issued with subsets that numpy confirms to resolve the defect, or with fewer indexes than the defect (certainly insufficient: the answer is an exception, the same for a fresh object); other non-resolving subsets belong to C02/C20",
               "q_bx is never called (AdjEnvelope documents it as not implemented)"]
REQUIRED_CLASSES = ["kind=adj", "kind=raw", "reused_object", "singular", "evict", "minx_after_q", "reset_after_q", "net.refine", "net.alg_switch", "net.update", "net.free", "svdclass.singular", "svdclass.subset_then_all"]


@st.composite
def history(draw, large=False):
    kind = draw(st.sampled_from(["adj", "raw", "raw"]))
    reuse = kind == "raw" and draw(st.integers(0, 2)) == 0
    if reuse:
        # biased to what makes a reused object interesting: both problems singular, default regularisation (the list of all
        # unknowns is then generated inside the solver and must follow the size of the input)
        kw = {"singular_only": draw(st.booleans()), "minx_mode": draw(st.sampled_from([None, "none", "none"]))}
        case = draw(gen_linear.graph_problem(min_n=10, max_n=22, **kw) if large else gen_linear.linear_problem(max_n=9, max_extra=6, **kw))
    else:
        case = draw(gen_linear.graph_problem(min_n=10, max_n=22) if large else gen_linear.linear_problem(max_n=9, max_extra=6))
    n, m = case["n"], case["m"]
    alg = draw(st.sampled_from(ALGS))
    nops = draw(st.integers(1, 30))
    ops = []
    names = ["x", "r", "rtr", "defect", "qxx", "qxx", "qxx", "qbb", "qbb", "reset"]
    if kind == "raw":
        names += ["q0xx", "q0xx", "lindep", "minx", "minx", "minx_all"]
    else:
        names += ["alg"]
    for _ in range(nops):
        op = draw(st.sampled_from(names))
        if op in ("qxx", "q0xx"):
            ops.append([op, draw(st.integers(1, n)), draw(st.integers(1, n))])
        elif op == "qbb":
            ops.append([op, draw(st.integers(1, m)), draw(st.integers(1, m))])
        elif op == "lindep":
            ops.append([op, draw(st.integers(1, n))])
        elif op == "minx":
            k = draw(st.integers(1, n))       # fewer indexes than the defect: a subset that cannot resolve it
            ops.append([op] + sorted(i + 1 for i in draw(st.permutations(list(range(n))))[:k]))
        elif op == "alg":
            ops.append([op, draw(st.sampled_from(ALGS))])
        else:
            ops.append([op])
    h = {"problem": case, "kind": kind, "alg": alg, "ops": ops}
    if reuse:
        # the object has adjusted another problem (other sizes, other defect) before it is given this one - what LocalNetwork
        # does with its solver when points are removed between two adjustments
        h["prelude"] = {"problem": draw(gen_linear.linear_problem(max_n=9, max_extra=6, minx_mode="none", singular_only=draw(st.booleans()))),
                        "queries": draw(st.lists(st.sampled_from(["x", "defect", "rtr", "qxx 1 1", "r"]), min_size=1, max_size=3))}
    return h


def minx_opt(S):
    """'new' option string for regularisation state S: None (never set), 'all', or list"""
    if S is None:
        return "minx -1"
    if S == "all":
        return "minx -2"
    return "minx %d %s" % (len(S), " ".join(str(i) for i in S))


def is_nontrivial(h):
    ops = h["ops"]
    kinds = set(o[0] for o in ops)
    if len(kinds) < 3:
        return False
    keys = set()
    for o in ops:
        if o[0] == "qxx":
            keys.add(o[1]); keys.add(o[2])
    seen_q = False
    for o in ops:
        if o[0] in ("qxx", "qbb", "q0xx"):
            seen_q = True
        if seen_q and o[0] in ("minx", "minx_all", "reset", "alg"):
            return True
    if len(keys) >= 4:
        return True
    if h["problem"]["d"] > 0 and "qxx" in kinds and "q0xx" in kinds:
        return True
    return False


def close(a, b, rel=1e-9, scale=1.0):
    va, vb = val(a), val(b)
    if va is None or vb is None:
        # exceptions must be the same exception
        return a == b
    if va.shape != vb.shape:
        return False
    if not (np.all(np.isfinite(va)) and np.all(np.isfinite(vb))):
        return False
    if va.size == 0:
        return True
    return float(np.max(np.abs(va - vb))) <= rel * max(scale, float(np.max(np.abs(vb))))


def oracle(h, stats):
    case = h["problem"]
    A, C, R0 = reference(case)
    if R0 is None or not R0.resolving or R0.sg_ratio < 0.05:
        stats.label("discarded_ambiguous")
        return []
    kind, alg = h["kind"], h["alg"]
    n, m = case["n"], case["m"]
    if kind == "raw" and alg != "envelope":
        # the full-matrix AdjBase classes take (A, b) with unit weights; the driver passes A, b as they are
        C = np.eye(m)
        R0 = ref_linalg.solve(A, case["b"], C, None if case["minx"] is None else [i - 1 for i in case["minx"]])
        if R0 is None or not R0.resolving or R0.sg_ratio < 0.05:
            stats.label("discarded_ambiguous")
            return []
    # regularisation state of the model
    S = None if case["minx"] is None else list(case["minx"])
    S0 = S
    plan = []           # (op, index of history answer, index of fresh answer, S at that time, alg)
    pre = h.get("prelude")
    if pre:
        stats.label("reused_object")
        script = [gen_linear.script_problem(pre["problem"]), "new 0 %s %s" % (kind, alg)]
        script += ["0 " + q for q in pre["queries"]]
        script += [gen_linear.script_problem(case).rstrip("\n"), "0 reset"]
        idx = 1 + len(pre["queries"]) + 2
        if case["minx"] is not None:
            script.append("0 minx %d %s" % (len(case["minx"]), " ".join(map(str, case["minx"]))))
            idx += 1
    else:
        script = [gen_linear.script_problem(case)]
        script.append("new 0 %s %s" % (kind, alg))
        idx = 1             # answers: [0] = new
    cur_alg = alg
    skipped = 0
    refs = {}
    seen_q = False
    qkeys = set()
    for op in h["ops"]:
        name = op[0]
        if name == "minx":
            Snew = op[1:]
            Rn = ref_linalg.solve(A, case["b"], C, [i - 1 for i in Snew])
            if Rn is None or not Rn.resolving or Rn.sg_ratio < 0.05:
                # a subset with fewer indexes than the defect is certainly insufficient: every solver must refuse it (and
                # recover when a good one follows); other non-resolving subsets are numerically ambiguous and skipped
                if not (kind == "raw" and R0.d > 0 and len(Snew) < R0.d):
                    skipped += 1
                    continue
                stats.label("minx_insufficient")
            S = list(Snew)
            script.append("0 minx %d %s" % (len(S), " ".join(map(str, S))))
            idx += 1
            if seen_q:
                stats.label("minx_after_q")
            continue
        if name == "minx_all":
            S = "all"
            script.append("0 minx -1")
            idx += 1
            if seen_q:
                stats.label("minx_after_q")
            continue
        if name == "reset":
            script.append("0 reset")
            idx += 1
            if kind == "adj":
                S = S0
            if seen_q:
                stats.label("reset_after_q")
            continue
        if name == "alg":
            cur_alg = op[1]
            script.append("0 alg %s" % cur_alg)
            idx += 1
            stats.label("alg_switch")
            continue
        if name == "q0xx" and kind != "raw":
            continue
        q = " ".join(str(t) for t in op)
        script.append("0 " + q)
        hi = idx
        idx += 1
        script.append("new 1 %s %s %s" % (kind, cur_alg, minx_opt(S)))
        script.append("1 " + q)
        script.append("del 1")
        fi = idx + 1
        idx += 3
        plan.append((op, hi, fi, S if S is None or S == "all" else tuple(S), cur_alg))
        if name in ("qxx", "qbb", "q0xx"):
            seen_q = True
        if name == "qxx":
            qkeys.add(op[1]); qkeys.add(op[2])
    answers, crash = drv.driver("gdrv_adj", "\n".join(script) + "\n")
    stats.label("kind=" + kind, "alg=" + alg, "singular" if R0.d else "regular")
    if len(qkeys) >= 4:
        stats.label("evict")
    fails = []
    if crash is not None:
        return ["%s.%s.crash: %s %s after %d answers" % (kind, alg, crash["kind"], crash["frame"], len(answers))]
    if len(answers) != idx:
        return ["harness.short: %d answers of %d: %s" % (len(answers), idx, answers[-1:])]
    for a in answers:
        if "fatal" in a:
            return ["harness.fatal: %s" % a]
    for op, hi, fi, Sk, a_alg in plan:
        ha, fa = answers[hi], answers[fi]
        name = op[0]
        tag = "%s.%s.%s" % (kind, a_alg, name)
        if not close(ha, fa):
            fails.append("%s.history: after history %s answers %s, a fresh object answers %s (regularisation %s)" %
                         (tag, op, str(ha)[:120], str(fa)[:120], Sk))
            continue
        # reference (so that two equal wrong answers do not pass)
        if Sk not in refs:
            Sl = None if (Sk is None or Sk == "all") else [i - 1 for i in Sk]
            refs[Sk] = ref_linalg.solve(A, case["b"], C, Sl)
        R = refs[Sk]
        if R is None or R.x is None:
            continue
        v = val(ha)
        if v is None:
            fails.append("%s.exception: %s" % (tag, ha))
            continue
        kappa = R.cond / max(R.sg_ratio, 1e-3)
        homog = (kind == "raw")
        if name == "x":
            tol = 1e-8 * kappa * R.scale_x
            if v.shape != (n,) or np.max(np.abs(v - R.x)) > tol:
                fails.append("%s.ref: x differs from reference" % tag)
        elif name == "defect":
            if int(v) != R.d:
                fails.append("%s.ref: defect %d, reference %d" % (tag, int(v), R.d))
        elif name == "rtr":
            b = np.array(case["b"], float)
            tol = 1e-8 * kappa * (float(b @ np.linalg.solve(C, b)) + 1.0)
            if abs(float(v) - R.rtr) > tol:
                fails.append("%s.ref: rtr %.17g reference %.17g" % (tag, float(v), R.rtr))
        elif name == "qxx":
            tol = 1e-8 * kappa * kappa * max(1.0, float(np.max(np.abs(R.Q))))
            if abs(float(v) - R.Q[op[1] - 1, op[2] - 1]) > tol:
                fails.append("%s.ref: q_xx(%d,%d)=%.9g reference %.9g" % (tag, op[1], op[2], float(v), R.Q[op[1] - 1, op[2] - 1]))
    return fails


# ------------------------------------------------------------------ network level: histories on a LocalNetwork object

NET_QUERIES = ["solve", "resid", "vwv", "defect", "dof", "m0", "counts", "conf_int"]


@st.composite
def net_history(draw):
    from .. import gen_net
    free = draw(st.integers(0, 3)) == 0
    net = draw(gen_net.determined_network(noise=1, free=free, n_max=6))
    # approximate coordinates a few cm off: 'refine' then really moves the linearisation point
    if draw(st.booleans()):
        for p in net["points"]:
            if p["xy"] == "adj":
                p["dE"] = draw(st.integers(-30, 30)) / 1000.0
                p["dN"] = draw(st.integers(-30, 30)) / 1000.0
            if p["z"] == "adj":
                p["dH"] = draw(st.integers(-30, 30)) / 1000.0
    alg = draw(st.sampled_from(ALGS))
    ops = []
    for _ in range(draw(st.integers(2, 14))):
        k = draw(st.sampled_from(["q", "q", "q", "q", "qi", "qi", "qij", "update", "update", "refine", "alg", "lindep"]))
        if k == "q":
            ops.append([draw(st.sampled_from(NET_QUERIES))])
        elif k == "qi":
            ops.append([draw(st.sampled_from(["stdev_obs", "wcoef_res", "stdev_res", "stdev_unk"])), draw(st.integers(0, 200))])
        elif k == "qij":
            ops.append([draw(st.sampled_from(["qxx", "qbb"])), draw(st.integers(0, 200)), draw(st.integers(0, 200))])
        elif k == "lindep":
            ops.append(["lindep", draw(st.integers(0, 200))])
        elif k == "update":
            ops.append(["update", draw(st.sampled_from(["points", "observations", "residuals", "adjustment"]))])
        elif k == "refine":
            ops.append(["refine"])
        else:
            ops.append(["alg", draw(st.sampled_from(ALGS))])
    return {"net": net, "alg": alg, "ops": ops}


STATE_OPS = ("update", "refine", "alg")


def run_history(gkf_path, alg, lines):
    from .. import build
    rc, out, err, crash = drv.run([build.exe("gdrv_nethist"), gkf_path, alg], stdin_text="\n".join(lines) + "\n", timeout=120)
    if crash is not None:
        return None, crash
    import json
    rows = []
    for l in out.splitlines():
        try:
            rows.append(json.loads(l))
        except ValueError:
            rows.append({"fatal": l[:100]})
    return rows, None


def oracle_net(h, stats):
    import os
    from .. import gen_net, netmodel as nm, netrun
    from . import c20
    net = h["net"]
    if net.get("free"):
        if not c20.well_posed_free(net):
            stats.label("discarded_free_not_well_posed")
            return []
    elif not gen_net.is_determined(net):
        stats.label("discarded_not_determined")
        return []
    fails = []
    with netrun.TmpDir() as d:
        path = os.path.join(d, "n.gkf")
        with open(path, "w", encoding="utf-8") as f:
            f.write(nm.gkf_text(net))
        # sizes first (indexes of the queries are reduced modulo them)
        rows, crash = run_history(path, h["alg"], ["counts"])
        if crash is not None:
            return ["net.crash: %s %s" % (crash["kind"], crash["frame"])]
        if len(rows) < 2 or "v" not in rows[1]:
            stats.label("net.setup_refused")
            return []
        N, M, _ = rows[1]["v"]
        if N == 0 or M == 0:
            return []

        def line(op):
            if op[0] in ("qxx",):
                return "qxx %d %d" % (op[1] % N + 1, op[2] % N + 1)
            if op[0] == "qbb":
                return "qbb %d %d" % (op[1] % M + 1, op[2] % M + 1)
            if op[0] in ("stdev_obs", "wcoef_res", "stdev_res"):
                return "%s %d" % (op[0], op[1] % M + 1)
            if op[0] in ("stdev_unk", "lindep"):
                return "%s %d" % (op[0], op[1] % N + 1)
            return " ".join(str(t) for t in op)
        lines = [line(op) for op in h["ops"]]
        full, crash = run_history(path, h["alg"], lines)
        if crash is not None:
            return ["net.crash: %s %s (history %s)" % (crash["kind"], crash["frame"], lines)]
        full = full[1:]
        if len(full) != len(lines):
            return ["net.short: %d answers for %d commands: %s" % (len(full), len(lines), str(full[-1:])[:200])]
        kinds = set(op[0] for op in h["ops"])
        if "refine" in kinds:
            stats.label("net.refine")
        if "alg" in kinds:
            stats.label("net.alg_switch")
        if "update" in kinds:
            stats.label("net.update")
        if net.get("free"):
            stats.label("net.free")
        # every query against a fresh object that performs only the state-changing calls made before it
        nq = 0
        for k, op in enumerate(h["ops"]):
            if op[0] in STATE_OPS:
                continue
            nq += 1
            if nq > 8:
                break
            prefix = [lines[j] for j in range(k) if h["ops"][j][0] in STATE_OPS]
            ref, crash = run_history(path, h["alg"], prefix + [lines[k]])
            if crash is not None:
                fails.append("net.fresh.crash: %s %s" % (crash["kind"], crash["frame"]))
                break
            a, b = full[k], ref[-1]
            if ("v" in a) != ("v" in b):
                fails.append("net.history.%s: after the history %s the answer is %s, a fresh object says %s" % (op[0], lines[:k], str(a)[:120], str(b)[:120]))
                break
            if "v" not in a:
                if a.get("exc") != b.get("exc"):
                    fails.append("net.history.%s.exception: %s vs %s" % (op[0], a, b))
                continue
            va, vb = np.atleast_1d(np.array(a["v"], float)), np.atleast_1d(np.array(b["v"], float))
            if va.shape != vb.shape:
                fails.append("net.history.%s.shape: %s vs %s" % (op[0], va.shape, vb.shape))
                break
            scale = max(1.0, float(np.max(np.abs(vb))) if vb.size else 1.0)
            err = float(np.max(np.abs(va - vb))) if va.size else 0.0
            stats.ratio("net.history", err / (1e-7 * scale))
            if not np.all(np.isfinite(va)) or err > 1e-7 * scale:
                fails.append("net.history.%s: after %s the answer differs from a fresh object's by %.3g (scale %.3g)" % (op[0], lines[:k], err, scale))
                break
    return fails


# ------------------------------------------------------------------ the SVD class itself (matvec/svd.h)

@st.composite
def svd_history(draw):
    case = draw(gen_linear.linear_problem(max_n=7, max_extra=5, unit_cov=True))
    n, m = case["n"], case["m"]
    ops = []
    for _ in range(draw(st.integers(2, 16))):
        k = draw(st.sampled_from(["solve", "solve", "nullity", "qxx", "qxx", "qbb", "lindep", "minx", "minx", "minx_all", "reset", "decompose"]))
        if k == "qxx":
            ops.append(["qxx", draw(st.integers(1, n)), draw(st.integers(1, n))])
        elif k == "qbb":
            ops.append(["qbb", draw(st.integers(1, m)), draw(st.integers(1, m))])
        elif k == "lindep":
            ops.append(["lindep", draw(st.integers(1, n))])
        elif k == "minx":
            S = sorted(draw(st.sets(st.integers(1, n), min_size=1, max_size=n)))
            ops.append(["minx", len(S)] + S)
        else:
            ops.append([k])
    return {"case": case, "ops": ops}


SVD_STATE = ("minx", "minx_all", "reset", "decompose")


def run_svd(case, lines):
    import json
    from .. import build
    A = np.array(case["A"], float).reshape(case["m"], case["n"])
    head = "%d %d\n" % (case["m"], case["n"]) + "\n".join(" ".join(repr(float(v)) for v in row) for row in A) + "\n" + \
        " ".join(repr(float(v)) for v in case["b"]) + "\n"
    rc, out, err, crash = drv.run([build.exe("gdrv_svd")], stdin_text=head + "\n".join(lines) + "\n", timeout=60)
    if crash is not None:
        return None, crash
    rows = []
    for l in out.splitlines():
        try:
            rows.append(json.loads(l))
        except ValueError:
            rows.append({"fatal": l[:80]})
    return rows, None


def oracle_svd(h, stats):
    case, ops = h["case"], h["ops"]
    lines = [" ".join(str(t) for t in op) for op in ops]
    full, crash = run_svd(case, lines)
    if crash is not None:
        return ["svdclass.crash: %s %s (history %s)" % (crash["kind"], crash["frame"], lines)]
    if len(full) != len(lines):
        return ["svdclass.short: %d answers for %d commands" % (len(full), len(lines))]
    stats.label("svdclass.singular" if case["d"] > 0 else "svdclass.regular")
    if any(op[0] == "minx" for op in ops) and any(op[0] == "minx_all" for op in ops):
        stats.label("svdclass.subset_then_all")
    fails = []
    nq = 0
    for k, op in enumerate(ops):
        if op[0] in SVD_STATE:
            continue
        nq += 1
        if nq > 8:
            break
        # reset() keeps the regularisation mode: the fresh object replays every state change
        prefix = [lines[j] for j in range(k) if ops[j][0] in SVD_STATE and ops[j][0] != "decompose"]
        ref, crash = run_svd(case, prefix + [lines[k]])
        if crash is not None:
            fails.append("svdclass.fresh.crash: %s %s" % (crash["kind"], crash["frame"]))
            break
        a, b = full[k], ref[-1]
        if ("v" in a) != ("v" in b):
            fails.append("svdclass.history.%s: after %s the answer is %s, a fresh object says %s" % (op[0], lines[:k], a, b))
            break
        if "v" not in a:
            continue
        va, vb = np.atleast_1d(np.array(a["v"], float)), np.atleast_1d(np.array(b["v"], float))
        if va.shape != vb.shape or not np.all(np.isfinite(va)) == np.all(np.isfinite(vb)):
            fails.append("svdclass.history.%s.shape: %s vs %s" % (op[0], a, b))
            break
        scale = max(1.0, float(np.max(np.abs(vb))) if vb.size else 1.0)
        err = float(np.max(np.abs(va - vb))) if va.size else 0.0
        if err > 1e-8 * scale:
            fails.append("svdclass.history.%s: after %s the answer differs from a fresh object's by %.3g" % (op[0], lines[:k], err))
            break
    return fails


PARTS = [
    Part("history", strategy=history, oracle=oracle, nontrivial=is_nontrivial,
         n={"quick": 6000, "thorough": 40000}),
    Part("history_large", strategy=lambda: history(large=True), oracle=oracle, nontrivial=is_nontrivial,
         n={"quick": 1500, "thorough": 12000}),
    Part("svdclass", strategy=svd_history, oracle=oracle_svd, n={"quick": 2000, "thorough": 20000},
         nontrivial=lambda h: h["case"]["d"] > 0 and any(op[0] in SVD_STATE for op in h["ops"])),
    Part("net", strategy=net_history, oracle=oracle_net, n={"quick": 800, "thorough": 8000},
         nontrivial=lambda h: any(op[0] in STATE_OPS for op in h["ops"]),
         sample=lambda h: {"alg": h["alg"], "ops": h["ops"], "free": bool(h["net"].get("free"))}),
]
