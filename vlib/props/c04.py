"""C04 - solver answers do not depend on the order or history of queries."""
import numpy as np
from hypothesis import strategies as st

from .. import drv, gen_linear, ref_linalg
from ..lin_common import ALGS, reference, val
from ..runner import Part

RULE = ("Model-based history generation: Hypothesis draws a rank-planted problem (regular or singular, n<=9), an object kind "
        "(GNU_gama::Adj or one of the four AdjBase classes), an algorithm and a sequence of 1..30 API calls from "
        "{x, r, rtr, defect, q_xx(i,j), q_bb(i,j), q0_xx(i,j), lindep(i), min_x(S'), min_x(), reset(same input), set_algorithm}; "
        "after every query the answer is compared with that of a fresh object given the same input and the current "
        "regularisation and asked only that question (1e-9 relative), and x/rtr/defect/q_xx additionally with the numpy reference. "
        "Non-trivial = history with >=3 kinds of query and one of {>=4 distinct q_xx keys (cache eviction), min_x change after a "
        "cofactor query, reset after queries, q0_xx interleaved with q_xx on a singular system, algorithm switch}; distinct by sha1. "
        "Network part: histories over a LocalNetwork object (see 'net').")
ASSUMPTIONS = ["min_x(S') is only issued with subsets that numpy confirms to resolve the defect (non-resolving subsets belong to C02/C20)",
               "q_bx is never called (AdjEnvelope documents it as not implemented)"]
REQUIRED_CLASSES = ["kind=adj", "kind=raw", "singular", "evict", "minx_after_q", "reset_after_q"]


@st.composite
def history(draw):
    case = draw(gen_linear.linear_problem(max_n=9, max_extra=6))
    n, m = case["n"], case["m"]
    kind = draw(st.sampled_from(["adj", "raw", "raw"]))
    alg = draw(st.sampled_from(ALGS))
    nops = draw(st.integers(1, 30))
    ops = []
    names = ["x", "r", "rtr", "defect", "qxx", "qxx", "qxx", "qbb", "qbb", "reset"]
    if kind == "raw":
        names += ["q0xx", "q0xx", "lindep", "minx", "minx", "minx_all"]
    else:
        names += ["alg"]
    for _ in range(nops):
        op = draw(st.sampled_from(names))
        if op in ("qxx", "q0xx"):
            ops.append([op, draw(st.integers(1, n)), draw(st.integers(1, n))])
        elif op == "qbb":
            ops.append([op, draw(st.integers(1, m)), draw(st.integers(1, m))])
        elif op == "lindep":
            ops.append([op, draw(st.integers(1, n))])
        elif op == "minx":
            k = draw(st.integers(max(1, case["d"]), n))
            ops.append([op] + sorted(i + 1 for i in draw(st.permutations(list(range(n))))[:k]))
        elif op == "alg":
            ops.append([op, draw(st.sampled_from(ALGS))])
        else:
            ops.append([op])
    return {"problem": case, "kind": kind, "alg": alg, "ops": ops}


def minx_opt(S):
    """'new' option string for regularisation state S: None (never set), 'all', or list"""
    if S is None:
        return "minx -1"
    if S == "all":
        return "minx -2"
    return "minx %d %s" % (len(S), " ".join(str(i) for i in S))


def is_nontrivial(h):
    ops = h["ops"]
    kinds = set(o[0] for o in ops)
    if len(kinds) < 3:
        return False
    keys = set()
    for o in ops:
        if o[0] == "qxx":
            keys.add(o[1]); keys.add(o[2])
    seen_q = False
    for o in ops:
        if o[0] in ("qxx", "qbb", "q0xx"):
            seen_q = True
        if seen_q and o[0] in ("minx", "minx_all", "reset", "alg"):
            return True
    if len(keys) >= 4:
        return True
    if h["problem"]["d"] > 0 and "qxx" in kinds and "q0xx" in kinds:
        return True
    return False


def close(a, b, rel=1e-9, scale=1.0):
    va, vb = val(a), val(b)
    if va is None or vb is None:
        # exceptions must be the same exception
        return a == b
    if va.shape != vb.shape:
        return False
    if not (np.all(np.isfinite(va)) and np.all(np.isfinite(vb))):
        return False
    if va.size == 0:
        return True
    return float(np.max(np.abs(va - vb))) <= rel * max(scale, float(np.max(np.abs(vb))))


def oracle(h, stats):
    case = h["problem"]
    A, C, R0 = reference(case)
    if R0 is None or not R0.resolving or R0.sg_ratio < 0.05:
        stats.label("discarded_ambiguous")
        return []
    kind, alg = h["kind"], h["alg"]
    n, m = case["n"], case["m"]
    if kind == "raw" and alg != "envelope":
        # the full-matrix AdjBase classes take (A, b) with unit weights; the driver passes A, b as they are
        C = np.eye(m)
        R0 = ref_linalg.solve(A, case["b"], C, None if case["minx"] is None else [i - 1 for i in case["minx"]])
        if R0 is None or not R0.resolving or R0.sg_ratio < 0.05:
            stats.label("discarded_ambiguous")
            return []
    # regularisation state of the model
    S = None if case["minx"] is None else list(case["minx"])
    S0 = S
    script = [gen_linear.script_problem(case)]
    script.append("new 0 %s %s" % (kind, alg))
    plan = []           # (op, index of history answer, index of fresh answer, S at that time, alg)
    idx = 1             # answers: [0] = new
    cur_alg = alg
    skipped = 0
    refs = {}
    seen_q = False
    qkeys = set()
    for op in h["ops"]:
        name = op[0]
        if name == "minx":
            Snew = op[1:]
            Rn = ref_linalg.solve(A, case["b"], C, [i - 1 for i in Snew])
            if Rn is None or not Rn.resolving or Rn.sg_ratio < 0.05:
                skipped += 1
                continue
            S = list(Snew)
            script.append("0 minx %d %s" % (len(S), " ".join(map(str, S))))
            idx += 1
            if seen_q:
                stats.label("minx_after_q")
            continue
        if name == "minx_all":
            S = "all"
            script.append("0 minx -1")
            idx += 1
            if seen_q:
                stats.label("minx_after_q")
            continue
        if name == "reset":
            script.append("0 reset")
            idx += 1
            if kind == "adj":
                S = S0
            if seen_q:
                stats.label("reset_after_q")
            continue
        if name == "alg":
            cur_alg = op[1]
            script.append("0 alg %s" % cur_alg)
            idx += 1
            stats.label("alg_switch")
            continue
        if name == "q0xx" and kind != "raw":
            continue
        q = " ".join(str(t) for t in op)
        script.append("0 " + q)
        hi = idx
        idx += 1
        script.append("new 1 %s %s %s" % (kind, cur_alg, minx_opt(S)))
        script.append("1 " + q)
        script.append("del 1")
        fi = idx + 1
        idx += 3
        plan.append((op, hi, fi, S if S is None or S == "all" else tuple(S), cur_alg))
        if name in ("qxx", "qbb", "q0xx"):
            seen_q = True
        if name == "qxx":
            qkeys.add(op[1]); qkeys.add(op[2])
    answers, crash = drv.driver("gdrv_adj", "\n".join(script) + "\n")
    stats.label("kind=" + kind, "alg=" + alg, "singular" if R0.d else "regular")
    if len(qkeys) >= 4:
        stats.label("evict")
    fails = []
    if crash is not None:
        return ["%s.%s.crash: %s %s after %d answers" % (kind, alg, crash["kind"], crash["frame"], len(answers))]
    if len(answers) != idx:
        return ["harness.short: %d answers of %d: %s" % (len(answers), idx, answers[-1:])]
    for a in answers:
        if "fatal" in a:
            return ["harness.fatal: %s" % a]
    for op, hi, fi, Sk, a_alg in plan:
        ha, fa = answers[hi], answers[fi]
        name = op[0]
        tag = "%s.%s.%s" % (kind, a_alg, name)
        if not close(ha, fa):
            fails.append("%s.history: after history %s answers %s, a fresh object answers %s (regularisation %s)" %
                         (tag, op, str(ha)[:120], str(fa)[:120], Sk))
            continue
        # reference (so that two equal wrong answers do not pass)
        if Sk not in refs:
            Sl = None if (Sk is None or Sk == "all") else [i - 1 for i in Sk]
            refs[Sk] = ref_linalg.solve(A, case["b"], C, Sl)
        R = refs[Sk]
        if R is None or R.x is None:
            continue
        v = val(ha)
        if v is None:
            fails.append("%s.exception: %s" % (tag, ha))
            continue
        kappa = R.cond / max(R.sg_ratio, 1e-3)
        homog = (kind == "raw")
        if name == "x":
            tol = 1e-8 * kappa * R.scale_x
            if v.shape != (n,) or np.max(np.abs(v - R.x)) > tol:
                fails.append("%s.ref: x differs from reference" % tag)
        elif name == "defect":
            if int(v) != R.d:
                fails.append("%s.ref: defect %d, reference %d" % (tag, int(v), R.d))
        elif name == "rtr":
            b = np.array(case["b"], float)
            tol = 1e-8 * kappa * (float(b @ np.linalg.solve(C, b)) + 1.0)
            if abs(float(v) - R.rtr) > tol:
                fails.append("%s.ref: rtr %.17g reference %.17g" % (tag, float(v), R.rtr))
        elif name == "qxx":
            tol = 1e-8 * kappa * kappa * max(1.0, float(np.max(np.abs(R.Q))))
            if abs(float(v) - R.Q[op[1] - 1, op[2] - 1]) > tol:
                fails.append("%s.ref: q_xx(%d,%d)=%.9g reference %.9g" % (tag, op[1], op[2], float(v), R.Q[op[1] - 1, op[2] - 1]))
    return fails


PARTS = [
    Part("history", strategy=history, oracle=oracle, nontrivial=is_nontrivial,
         n={"quick": 6000, "thorough": 40000}),
]
