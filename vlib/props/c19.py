"""C19 - gama-g3 reproduces consistent global networks, independent of algorithm."""
import math

import numpy as np
from hypothesis import strategies as st

from .. import g3gen, g3model as gm, g3read, g3ref, ref_linalg
from ..runner import Part

ALGS = ["envelope", "gso", "svd", "cholesky"]
EPS = 2.2e-16

RULE = ("Hypothesis generates ECEF networks of 2-8 points placed anywhere on the ellipsoid (equator, mid latitudes both "
        "hemispheres, polar caps, a point exactly on a pole, across the antimeridian, points spread over the globe; five named "
        "ellipsoids and custom a/b, a/inv-f), coordinates from my own closed formulas, given as XYZ, as B-L-H or not at all, "
        "perturbed by 0 / <=3 mm / <=0.5 m / <=500 m for the non-fixed n-e-u components; fixed / free / constrained / unused "
        "status per component written globally or inside <point>; clusters of vectors, xyz, distances, heights, height "
        "differences, zenith angles and angles (instrument heights, deflections of the vertical, d-m-s values) with diagonal, "
        "banded and full covariance matrices or per-observation stdev/variance; networks determined by construction (vector / "
        "xyz / polar / trilateration recipes, rank confirmed by numpy on my own numerically differentiated design matrix) and "
        "free networks with datum defect 3/4/6 and constrained subsets. Oracles: truth (adjusted XYZ = generating XYZ), my own "
        "numpy least-squares reference of the printed corrections, covariances, residuals, sums, dof and defect, the four "
        "algorithms pairwise, permuted records, the --project-equations dump compared with my design matrix, solved by numpy and "
        "by GNU_gama::Adj (driver gdrv_g3adj, four algorithms). Non-trivial = the solution is not the zero vector (perturbed given "
        "coordinates or noisy observations) and the case has a correlated cluster or a constrained component; distinct by sha1.")
ASSUMPTIONS = [
    "gama-g3 has no user documentation: the input grammar is the state table of dataparser_g3.cpp / xml/gnu-gama-data.xsd; units "
    "(mm, cc; covariances mm^2, cc^2, arcsec^2 for d-m-s values), the local frame of the given position and 'observed height = "
    "ellipsoidal height - geoid' are conventions read from the code, everything else (geodesy, derivatives, least squares) is mine",
    "gama-g3 performs ONE linearisation (no iteration): 'adjusted = generating coordinates' is asserted within 1e-6 m + 20*delta^2/d_min "
    "(delta = largest perturbation of a given coordinate, d_min = shortest sight of a non-linear observation) + the numerical term "
    "1e3*eps*cond^2*|x|; exact (1e-7 m + numerical term) for vector/xyz networks, which are linear in the unknowns",
    "in free networks (defect > 0) the adjusted coordinates are asserted to reproduce the error-free observations and to satisfy the "
    "minimum-norm condition on the constrained components (numpy null space), not to equal the generating ones",
    "covariance rows of d-m-s valued angles are written in arcsec^2 divided by gama's own constant 3.0864^2 (exact 3.08642^2): the "
    "6e-6 relative difference of the constant is not asserted",
    "cases whose reference design matrix (whitened) has singular values between 1e-10 and 5e-4 of the largest are discarded as ill-conditioned "
    "(counted): with cond > 2000 the normal-equation algorithms (sqrt(eps) pivot tolerance) cannot be expected to agree on the rank",
]
REQUIRED_CLASSES = [
    "t.vector", "t.xyz", "t.distance", "t.height", "t.hdiff", "t.zenith", "t.angle",
    "mix.all_free_or_constr", "mix.fixed_point", "mix.partial_fixed", "mix.constr", "mix.unused_point",
    "defect.0", "defect.3", "defect.6", "defect.gt0.constr_subset", "defect.gt0.no_constr",
    "lat.equator", "lat.mid_north", "lat.mid_south", "lat.polar_cap", "lat.pole", "lat.antimeridian", "lat.global",
    "obs.consistent", "obs.noisy", "cov.full_vector_3x3", "cov.diagonal", "cov.banded", "cov.multi_vector_full", "cov.own_stdev",
    "shift.exact", "shift.small", "shift.medium", "shift.big", "given.xyz", "given.blh", "given.none",
    "redundancy.0", "redundancy.gt0", "truth.asserted", "truth.reproduces_obs", "dump.adj_driver", "perm.compared", "perm.interleaved",
    "with.dh", "with.deflection", "with.dms", "cluster.mixed_dim", "cov.big_sigma",
    "complete.gnss_fixed", "complete.gnss_free", "complete.dist_fixed", "complete.dist_free",
]


# ---------------------------------------------------------------------------------------------
#  strategies
# ---------------------------------------------------------------------------------------------

@st.composite
def case_truth(draw):
    net = draw(g3gen.network(noisy=False))
    return {"net": net, "mode": "truth"}


@st.composite
def case_noisy(draw):
    net = draw(g3gen.network(noisy=True))
    return {"net": net, "mode": "noisy"}


@st.composite
def case_perm(draw):
    net = draw(g3gen.network())
    return {"net": net, "mode": "perm", "alg": draw(st.sampled_from(ALGS)), "order": draw(g3gen.record_order(net))}


# ---------------------------------------------------------------------------------------------
#  helpers
# ---------------------------------------------------------------------------------------------

def crash_tag(crash):
    """tag of a crash: the source file of the first frame inside gama (an out-of-bounds read is reported by ASan as
    heap-buffer-overflow or heap-use-after-free depending on what lies behind the block: the kind stays in the message)"""
    fr = (crash.get("frame") or "").split("@")[-1].split("/")[-1]
    if not fr:
        fr = crash["kind"].replace(":", "_").replace(" ", "_")[:40]
    return "g3.crash.%s" % fr


def labels_of(net, An, R, stats):
    L = set()
    types = set()
    for ci, oi, off in An.act:
        types.add(net["clusters"][ci]["obs"][oi]["t"])
    for t in types:
        L.add("t." + t)
    pts = [p for p in net["pts"] if p["ne"] != "unused"]
    if all(p["ne"] != "fixed" and p["u"] != "fixed" for p in pts):
        L.add("mix.all_free_or_constr")
    if any(p["ne"] == "fixed" and p["u"] == "fixed" for p in pts):
        L.add("mix.fixed_point")
    if any((p["ne"] == "fixed") != (p["u"] == "fixed") for p in pts):
        L.add("mix.partial_fixed")
    if any(p["ne"] == "constr" or p["u"] == "constr" for p in pts):
        L.add("mix.constr")
    if any(p["ne"] == "unused" for p in net["pts"]):
        L.add("mix.unused_point")
    L.add("defect.%d" % R.d)
    if R.d > 0:
        L.add("defect.gt0.constr_subset" if An.constr else "defect.gt0.no_constr")
    L.add("lat." + net["lat"])
    L.add("scale." + net["scale"])
    L.add("obs.noisy" if net["noisy"] else "obs.consistent")
    for cl in net["clusters"]:
        dims = [gm.OBS_DIM[o["t"]] for o in cl["obs"]]
        m = sum(dims)
        own = cl["cov"]["own"]
        band = min(cl["cov"]["band"], max(m - own - 1, 0))
        if own:
            L.add("cov.own_stdev")
        if cl["cov"].get("sigscale", 1) > 1:
            L.add("cov.big_sigma")
        if m - own > 0:
            if band == 0:
                L.add("cov.diagonal")
            elif band >= m - own - 1:
                if all(o["t"] == "vector" for o in cl["obs"]):
                    L.add("cov.full_vector_3x3" if len(cl["obs"]) == 1 else "cov.multi_vector_full")
                else:
                    L.add("cov.full_other")
            else:
                L.add("cov.banded")
        if len(set(dims)) > 1:
            L.add("cluster.mixed_dim")
        for o in cl["obs"]:
            if o.get("fdh") or o.get("tdh") or o.get("ldh") or o.get("rdh"):
                L.add("with.dh")
            if o.get("dms") and o["t"] in gm.ANGULAR:
                L.add("with.dms")
    if any(p.get("defl") for p in net["pts"]):
        L.add("with.deflection")
    L.add("shift." + net["shift"])
    for p in pts:
        L.add("given." + p["given"])
    L.add("ellipsoid." + net["ell"]["kind"])
    L.add("kind." + net["kind"])
    red = R.m - R.rank
    L.add("redundancy.0" if red == 0 else "redundancy.gt0")
    stats.label(*sorted(L))
    return L


def type_suffix(net, An):
    """short description of the non-linear features of a case, used in failure tags"""
    nl = sorted(set(net["clusters"][ci]["obs"][oi]["t"] for ci, oi, off in An.act) - {"vector", "xyz"})
    s = "+".join(nl) if nl else "lin"
    if any(o.get(k) for cl in net["clusters"] for o in cl["obs"] for k in ("fdh", "tdh", "ldh", "rdh")):
        s += "+dh"
    if any(p.get("defl") for p in net["pts"]):
        s += "+defl"
    return s


def run_alg(text, alg, dump=False):
    """-> (parsed results | None, raw run dict, failure | None)"""
    r = g3read.gama_g3(text, alg, dump=dump)
    if r["crash"] is not None:
        return None, r, "%s: %s gama-g3 --algorithm %s: %s at %s" % (crash_tag(r["crash"]), r["crash"]["kind"], alg,
                                                                   r["crash"]["kind"], r["crash"]["frame"])
    if r["rc"] != 0 or r["out"] is None:
        return None, r, None
    try:
        return g3read.parse_results(r["out"]), r, None
    except g3read.NotWellFormed as e:
        return None, r, "g3.output.not_well_formed: --algorithm %s: %s" % (alg, e)


def num_slack(R):
    # the same numerical allowance as in C01-C03 (1e-8 * condition number, relative): the envelope algorithm is about
    # 1e4 times less accurate than the others in free networks (2e-9 relative in q_xx at cond 20), which is accuracy,
    # not a wrong result
    # gama-g3 neglects the deflections of the vertical in the partial derivatives (they tilt the local horizon by <= 2.5e-5
    # rad in the generated networks): its design matrix differs from the exact one by that relative amount, the
    # solution by cond times it
    return max(1e3 * EPS * R.cond ** 2, 1e-8 * R.cond) + 2.0 * _DEFL[0] * R.cond


_DEFL = [0.0]       # largest deflection of the vertical [rad] of the network being judged (set by _oracle)


def x_noise(An, R):
    """rounding of the right-hand sides (2.6e-5 mm for 6.4e9 mm coordinates) propagated to the unknowns [mm]:
    |dx_i| <= sqrt(Q_ii) |W db|"""
    wmax = 1.0 / max(float(np.linalg.eigvalsh(An.Q)[0]), 1e-300)
    return np.sqrt(np.maximum(np.diag(R.Q), 0.0)) * math.sqrt(R.m * wmax) * rhs_rounding(An)


def rhs_rounding(An):
    """rounding of one right-hand side: 2.6e-5 mm for lengths; gama evaluates angles and zenith angles by acos, which is
    good to 1.5e-8 rad = 0.01 cc near 0 and 200 gon only (the same 0.02 cc that the right-hand sides are compared with)"""
    ang = any(An.net_obs_type(ci, oi) in gm.ANGULAR for (ci, oi, off) in An.act) if hasattr(An, "net_obs_type") else _ANG[0]
    return 0.02 if ang else 2.6e-5


_ANG = [False]


def rtr_floor(An, R):
    """rounding of 6.4e9 mm coordinates (1e-6 mm) in every right-hand side, weighted"""
    w = 1.0 / max(float(np.linalg.eigvalsh(An.Q)[0]), 1e-300)
    rr = 0.02 if _ANG[0] else 5e-6
    return 1e-12 + R.m * w * (rr ** 2) + 2.0 * math.sqrt(max(R.rtr, 0.0) * R.m * w) * rr


def noise_floors(net, R, An=None):
    """absolute floors of comparisons of quantities proportional to an a posteriori variance that is itself rounding noise"""
    if net["const"].get("ref") == "apriori":
        return (0.0, 0.0, 0.0)
    red = max(R.m - R.rank, 1)
    vt = 5.1e-6 * R.rtr / red + (num_slack(R) * max(R.rtr, float(R.bb @ R.bb)) + (rtr_floor(An, R) if An is not None else 1e-12)) / red + 1e-12
    return (vt, float(np.max(np.abs(np.diag(R.Q)))) * vt, float(np.max(np.abs(np.diag(R.AQA)))) * vt)


def param_map(net, An, G):
    """column index (0-based) of gama for each of my parameters, from the <ind> elements; failures"""
    fails = []
    ids = [p["id"] for p in net["pts"]]
    col = {}
    seen = set()
    for (p, c) in An.params:
        gp = G["points"].get(ids[p])
        if gp is None:
            fails.append("g3.points.missing: point %s with adjusted components is not in <adjustment-results>" % ids[p])
            continue
        ind = gp[c]["ind"]
        if ind is None:
            fails.append("g3.points.no_index: %s %s is an unknown of the reference model, no <d%s>/<ind> printed" % (ids[p], c, c))
            continue
        col[(p, c)] = ind - 1
        seen.add(ind)
    npar = G["stats"]["parameters"]
    if not fails and (len(seen) != len(An.params) or seen != set(range(1, len(An.params) + 1))):
        fails.append("g3.points.index_set: printed indices %s, expected 1..%d" % (sorted(seen), len(An.params)))
    for pid, gp in G["points"].items():
        if gp.get("duplicate"):
            fails.append("g3.points.duplicate: point %s printed twice" % pid)
        if pid not in ids:
            fails.append("g3.points.unknown: point %s printed, not in the input" % pid)
            continue
        p = ids.index(pid)
        for c in g3ref.COMPS:
            exp = net["pts"][p]["ne"] if c in "ne" else net["pts"][p]["u"]
            if gp[c]["status"] != exp:
                fails.append("g3.points.status: %s %s printed %s, input %s" % (pid, c, gp[c]["status"], exp))
            if gp[c]["ind"] is not None and (p, c) not in An.pidx:
                fails.append("g3.points.extra_unknown: %s %s has index %s, not an unknown of the reference model" % (pid, c, gp[c]["ind"]))
    return col, fails


def obs_key(o):
    return (o["tag"], o.get("from"), o.get("to"), o.get("id"))


TAGMAP = {"vector": "vector", "xyz": "xyz", "distance": "distance", "height": "height", "hdiff": "height-diff",
          "zenith": "zenith-angle", "angle": "angle", "azimuth": "azimuth"}


def angles_with_blh_point(net, An):
    return [(ci, oi) for ci, oi, off in An.act
            if net["clusters"][ci]["obs"][oi]["t"] == "angle"
            and any(net["pts"][q]["given"] == "blh" for q in gm.obs_points(net["clusters"][ci]["obs"][oi]))]


def _matches(net, act, go):
    ids = [p["id"] for p in net["pts"]]
    if len(act) != len(go):
        return False
    for (ci, oi, off), g in zip(act, go):
        o = net["clusters"][ci]["obs"][oi]
        if g["tag"] != TAGMAP[o["t"]] or any(g.get(kk, ids[o[kk]]) != ids[o[kk]] for kk in ("from", "to", "id") if kk in o):
            return False
    return True


def dropped_observations(net, An, G):
    """observations of the reference model that gama-g3 did not use (silently), by aligning the printed list"""
    ids = [p["id"] for p in net["pts"]]
    go = G["obs"]
    if len(go) == len(An.act):
        return []
    # hypothesis 1: exactly the angles with a point given as B-L-H are missing
    hb = set(angles_with_blh_point(net, An))
    if hb and _matches(net, [a for a in An.act if (a[0], a[1]) not in hb], go):
        o = net["clusters"][sorted(hb)[0][0]]["obs"][sorted(hb)[0][1]]
        return ["g3.obs.dropped.angle.blh_point: %d angle observation(s) between usable points are silently not used (e.g. %s): exactly those "
                "with a point given as B-L-H" % (len(hb), [ids[q] for q in gm.obs_points(o)])]
    k = 0
    missing = []
    for ci, oi, off in An.act:
        o = net["clusters"][ci]["obs"][oi]
        if k < len(go) and go[k]["tag"] == TAGMAP[o["t"]] and all(go[k].get(kk, ids[o[kk]]) == ids[o[kk]] for kk in ("from", "to", "id") if kk in o):
            k += 1
        else:
            missing.append(o)
    if k != len(go) or not missing:
        return ["g3.obs.count: %d adjusted observations printed, %d active in the reference model" % (len(go), len(An.act))]
    out = []
    for t in sorted(set(o["t"] for o in missing)):
        ms = [o for o in missing if o["t"] == t]
        out.append("g3.obs.dropped.%s: %d %s observation(s) between usable points are silently not used (e.g. %s)"
                   % (t, len(ms), t, [ids[q] for q in gm.obs_points(ms[0])]))
    return out


def check_against_reference(net, An, R, G, alg, stats, tsuf):
    """one algorithm's printed results against the numpy reference and the truth"""
    f = []
    pre = "g3.ref"
    ids = [p["id"] for p in net["pts"]]
    dr = dropped_observations(net, An, G)
    if dr:
        return dr
    nonlin = tsuf != "lin"
    nl = 4e-6 * R.cond if nonlin else 0.0
    tsuf = "free" if R.d > 0 else "regular"
    S = G["stats"]
    m, n = R.m, R.n
    red = m - R.rank
    for key, exp in (("parameters", n), ("equations", m), ("defect", R.d), ("redundancy", red)):
        if S[key] != exp:
            f.append("g3.%s.%s: <%s> %s, reference (numpy rank %d of %d x %d, cond %.3g) %d" % (key, alg, key, S[key], R.rank, m, n, R.cond, exp))
    if S["defect"] != R.d:
        return f[:1]          # another rank decision: everything else differs as a consequence
    if S["algorithm"] != alg:
        f.append("g3.stats.algorithm: printed %s, requested %s" % (S["algorithm"], alg))
    col, pf = param_map(net, An, G)
    f += pf
    if pf:
        return f
    sl = num_slack(R)
    x = R.x
    xs = max(float(np.max(np.abs(x))), 1e-3)
    # rounding of the right-hand sides (2.6e-5 mm for 6.4e9 mm coordinates) propagated to the unknowns: |dx_i| <= sqrt(Q_ii) |W db|
    xnoise = x_noise(An, R)
    # sums
    rtr = R.rtr
    tol = 5.1e-6 * abs(rtr) + sl * max(rtr, float(R.bb @ R.bb)) + rtr_floor(An, R)
    stats.ratio("ref.sum_of_squares", abs(S["sum-of-squares"] - rtr) / tol)
    if abs(S["sum-of-squares"] - rtr) > tol:
        f.append("%s.%s.sum_of_squares: printed %.6g, reference %.6g" % (pre, alg, S["sum-of-squares"], rtr))
    s0 = An.s0
    if abs(S["apriori-variance"] - s0 * s0) > 5.1e-6 * s0 * s0:
        f.append("%s.apriori_variance: printed %.6g, input %.6g" % (pre, S["apriori-variance"], s0 * s0))
    apost = rtr / red if red else 0.0
    tol = 5.1e-6 * apost + (sl * max(rtr, float(R.bb @ R.bb)) + rtr_floor(An, R)) / max(red, 1)
    if abs(S["aposteriori-variance"] - apost) > tol:
        f.append("%s.%s.aposteriori_variance: printed %.6g, reference %.6g (redundancy %d)" % (pre, alg, S["aposteriori-variance"], apost, red))
    use_apriori = net["const"].get("ref") == "apriori"
    if (S["variance-factor-used"] == "apriori") != use_apriori:
        f.append("%s.variance_factor_used: printed %s, input asks for %s" % (pre, S["variance-factor-used"], net["const"].get("ref")))
    var = s0 * s0 if use_apriori else apost
    # an a posteriori variance of consistent observations is rounding noise: its uncertainty enters every covariance
    var_tol = 0.0 if use_apriori else tol + 1e-12
    # corrections
    Qx = R.Q * var
    cs = max(float(np.max(np.abs(np.diag(Qx)))), 1e-30)
    qfloor = float(np.max(np.abs(np.diag(R.Q)))) * var_tol
    bfloor = float(np.max(np.abs(np.diag(R.AQA)))) * var_tol
    worst = 0.0
    for (p, c), k in An.pidx.items():
        gp = G["points"][ids[p]]
        d = gp[c]["d"]
        # non-linear observations: my Jacobian is numerical and compared with the dump to 2e-6 of the row scale only
        tol = 5.1e-4 + sl * xs + (4e-6 * xs * R.cond if nonlin else 0.0) + xnoise[k]
        stats.ratio("ref.dneu", abs(d - x[k]) / tol)
        if abs(d - x[k]) > tol:
            f.append("%s.%s.correction.%s: %s d%s printed %.3f mm, reference %.6f mm (cond %.3g)" % (pre, alg, tsuf, ids[p], c, d, x[k], R.cond))
    # XYZ corrections and covariances per point
    for p in sorted(set(pp for pp, c in An.params)):
        gp = G["points"][ids[p]]
        neu = np.array([x[An.pidx[(p, c)]] if (p, c) in An.pidx else 0.0 for c in g3ref.COMPS]) * 1e-3
        dx = An.frames[p] @ neu
        for i, c in enumerate("xyz"):
            if gp[c]["correction"] is None:
                f.append("%s.xyz_missing: %s has adjusted components but no <%s-correction>" % (pre, ids[p], c))
                continue
            tol = (1.6e-9 + 1e-11 * abs(dx[i]) + sl * xs * 1e-3 + 2e-15 * 6.4e6 + (4e-9 * xs * R.cond if nonlin else 0.0)
                   + 1e-3 * math.sqrt(sum(xnoise[An.pidx[(p, cc)]] ** 2 for cc in g3ref.COMPS if (p, cc) in An.pidx)))
            stats.ratio("ref.xyz_correction", abs(gp[c]["correction"] - dx[i]) / tol)
            if abs(gp[c]["correction"] - dx[i]) > tol:
                f.append("%s.%s.xyz_correction.%s: %s %s printed %.9f, reference %.9f" % (pre, alg, tsuf, ids[p], c, gp[c]["correction"], dx[i]))
            if abs(gp[c]["given"] - An.approx[p][i]) > 1.1e-9 + 2e-15 * 6.4e6:
                f.append("%s.given: %s %s-given printed %.9f, input %.9f" % (pre, ids[p], c, gp[c]["given"], An.approx[p][i]))
            if abs(gp[c]["adjusted"] - gp[c]["given"] - gp[c]["correction"]) > 2.1e-9 + 4e-16 * abs(gp[c]["adjusted"]):
                f.append("%s.adjusted_sum: %s %s adjusted != given + correction" % (pre, ids[p], c))
        idx = [An.pidx.get((p, c)) for c in g3ref.COMPS]
        Cn = np.zeros((3, 3))
        for i in range(3):
            for j in range(3):
                if idx[i] is not None and idx[j] is not None:
                    Cn[i, j] = Qx[idx[i], idx[j]]
        Cx = An.frames[p] @ Cn @ An.frames[p].T
        tolc = 6e-8 * max(float(np.max(np.abs(Cn))), 0.0) + (50 * sl + nl) * cs + qfloor + 1e-300
        for key, (i, j) in (("cnn", (0, 0)), ("cne", (0, 1)), ("cnu", (0, 2)), ("cee", (1, 1)), ("ceu", (1, 2)), ("cuu", (2, 2))):
            if gp[key] is None:
                f.append("%s.cov_missing: %s <%s>" % (pre, ids[p], key))
                continue
            stats.ratio("ref.cov_neu", abs(gp[key] - Cn[i, j]) / tolc)
            if abs(gp[key] - Cn[i, j]) > tolc:
                f.append("%s.%s.cov_neu: %s %s printed %.8g, reference %.8g" % (pre, alg, ids[p], key, gp[key], Cn[i, j]))
        for key, (i, j) in (("cxx", (0, 0)), ("cxy", (0, 1)), ("cxz", (0, 2)), ("cyy", (1, 1)), ("cyz", (1, 2)), ("czz", (2, 2))):
            if gp[key] is None:
                continue
            stats.ratio("ref.cov_xyz", abs(gp[key] - Cx[i, j]) / (2 * tolc))
            if abs(gp[key] - Cx[i, j]) > 2 * tolc:
                f.append("%s.%s.cov_xyz: %s %s printed %.8g, reference %.8g" % (pre, alg, ids[p], key, gp[key], Cx[i, j]))
    # observations
    go = G["obs"]
    v = R.v
    sd_obs = g3ref.stdev_obs(An)
    AQA = R.AQA * var
    r = 0
    for k, (ci, oi, off) in enumerate(An.act):
        o = net["clusters"][ci]["obs"][oi]
        g = go[k]
        dim = gm.OBS_DIM[o["t"]]
        if g["tag"] != TAGMAP[o["t"]]:
            f.append("g3.obs.order: adjusted observation %d is <%s>, input order has %s" % (k + 1, g["tag"], o["t"]))
            return f
        if o["t"] in ("zenith", "angle", "azimuth"):
            r += dim
            continue              # gama prints an empty element for angular observations
        exp_ids = {kk: ids[o[kk]] for kk in ("from", "to", "id") if kk in o}
        if any(g.get(kk) != vv for kk, vv in exp_ids.items()):
            f.append("g3.obs.order: adjusted observation %d is %s, input order has %s" % (k + 1, obs_key(g), exp_ids))
            return f
        if g.get("ind") != r + 1:
            f.append("g3.obs.index: observation %d <ind> %s, expected %d" % (k + 1, g.get("ind"), r + 1))
        pref = {"vector": ["dx-", "dy-", "dz-"], "xyz": ["x-", "y-", "z-"]}.get(o["t"], [""])
        l = An.obsval[ci]["vals"][oi]
        for d in range(dim):
            pf_ = pref[d]
            resid = g.get(pf_ + "residual")
            tol = 5.1e-6 + sl * max(float(np.max(np.abs(v))), 1e-3) * 1e-3 + (4e-9 * xs * R.cond if nonlin else 0.0)
            if resid is None or abs(resid - v[r + d] * 1e-3) > tol:
                f.append("%s.%s.residual.%s: %s %sresidual printed %s m, reference %.6f m" % (pre, alg, tsuf, obs_key(g), pf_, resid, v[r + d] * 1e-3))
            if abs(g.get(pf_ + "observed", 1e99) - l[d]) > 5.1e-6:
                f.append("%s.observed: %s %sobserved printed %s, input %.5f" % (pre, obs_key(g), pf_, g.get(pf_ + "observed"), l[d]))
            so = g.get(pf_ + "stdev-obs")
            if so is None or abs(so - sd_obs[r + d]) > 5.1e-4 + 1e-9 * sd_obs[r + d]:
                mixed = len(set(gm.OBS_DIM[oo["t"]] for oo in net["clusters"][ci]["obs"])) > 1
                f.append("g3.obs.stdev_obs%s: %s %sstdev-obs printed %s, input covariance gives %.4f"
                         % (".mixed_cluster" if mixed else "", obs_key(g), pf_, so, sd_obs[r + d]))
            sa = g.get(pf_ + "stdev-adj")
            ea = math.sqrt(max(AQA[r + d, r + d], 0.0))
            tol = 5.1e-4 + (50 * sl + nl) * max(ea, 1e-3) + 1e-7 * ea + math.sqrt(bfloor)
            if sa is None or not abs(sa - ea) <= tol:
                f.append("%s.%s.stdev_adj: %s %sstdev-adj printed %s, reference %.4f" % (pre, alg, obs_key(g), pf_, sa, ea))
        if dim == 3:
            sc = max(float(np.max(np.abs(np.diag(AQA)))), 1e-30)
            for key, (i, j) in (("cxx", (0, 0)), ("cxy", (0, 1)), ("cxz", (0, 2)), ("cyy", (1, 1)), ("cyz", (1, 2)), ("czz", (2, 2))):
                e = AQA[r + i, r + j]
                tol = 6e-8 * abs(e) + (50 * sl + nl) * sc + bfloor + 1e-300
                if g.get(key) is None or not abs(g[key] - e) <= tol:
                    f.append("%s.%s.obs_cov: %s %s printed %s, reference %.8g" % (pre, alg, obs_key(g), key, g.get(key), e))
        r += dim
    return f


def check_truth(net, An, R, G, alg, stats, tsuf):
    """consistent observations: adjusted coordinates = generating ones (regular networks);
    free networks: the adjusted coordinates reproduce the observations and satisfy the minimum-norm condition"""
    f = []
    ids = [p["id"] for p in net["pts"]]
    nt = An.net
    sl = num_slack(R)
    xs = max(float(np.max(np.abs(R.x))), 1e-3) * 1e-3
    delta = 0.0
    for p in set(pp for pp, c in An.params):
        delta = max(delta, float(np.linalg.norm(An.approx[p] - nt.truth[p])))
    nonlinear = tsuf != "lin"
    if R.d > 0:
        delta = max(delta, xs)        # the corrections of a free network contain the datum motion as well
    if nonlinear:
        # second-order remainder of a single linearisation; heights change by delta^2/2R under a horizontal shift
        # and the vertical of a station is held at the given position: an angular error delta/R over the sight d
        # (+ gama evaluates angles by acos: 1.5e-8 rad near 0 and 200 gon, times the sight, times the conditioning)
        tol = 1e-6 + 20.0 * delta * delta / max(An.dmin or 1.0, 1.0) + 4.0 * delta * An.dmax_ang / 6.3e6 + sl * xs \
            + 3e-8 * An.dmax_ang * max(1.0, R.cond)
    else:
        tol = 1e-7 + sl * xs + delta * delta / 6.0e6
    adj = {}
    for p in set(pp for pp, c in An.params):
        gp = G["points"].get(ids[p])
        if gp is None or gp["x"]["adjusted"] is None:
            continue
        adj[p] = np.array([gp[c]["adjusted"] for c in "xyz"])
    if R.d == 0:
        # the reference one-step solution tells whether the geometry amplifies the second-order terms beyond the bound
        pred = 0.0
        for p in adj:
            neu = np.array([R.x[An.pidx[(p, c)]] if (p, c) in An.pidx else 0.0 for c in g3ref.COMPS]) * 1e-3
            pred = max(pred, float(np.max(np.abs(An.approx[p] + An.frames[p] @ neu - nt.truth[p]))))
        if pred > 0.5 * tol:
            stats.label("truth.skipped_amplified_second_order")
            return f
        stats.label("truth.asserted")
        for p, a in adj.items():
            e = float(np.max(np.abs(a - nt.truth[p] - (5e-6 if gm.MUTATE == "truth_shift" else 0.0))))
            stats.ratio("truth.xyz", e / tol)
            if e > tol:
                f.append("g3.truth.%s.%s: %s adjusted XYZ differs from the generating one by %.3g m (tolerance %.3g, perturbation %.3g m, cond %.3g)"
                         % (alg, tsuf, ids[p], e, tol, delta, R.cond))
        return f
    # free network
    stats.label("truth.reproduces_obs")
    pos = list(An.approx)
    for p, a in adj.items():
        pos[p] = a
    for ci, oi, off in An.act:
        o = net["clusters"][ci]["obs"][oi]
        l = An.obsval[ci]["vals"][oi]
        mis = gm.wrap(o, nt.f(o, pos) - l)
        if o["t"] in gm.ANGULAR:
            ps = gm.obs_points(o)
            dd = min(float(np.linalg.norm(pos[a] - pos[b])) for a in ps for b in ps if a < b)
            mis = mis * dd
        e = float(np.max(np.abs(mis)))
        stats.ratio("truth.reproduces_obs", e / (5 * tol))
        if e > 5 * tol:
            f.append("g3.truth_free.%s.%s: observation %s %s recomputed from the adjusted coordinates differs from the consistent value by %.3g m (tolerance %.3g)"
                     % (alg, tsuf, o["t"], [ids[q] for q in gm.obs_points(o)], e, 5 * tol))
            break
    return f


def check_min_norm(net, An, R, G, alg, stats):
    """free networks: the corrections of the regularisation set are orthogonal to the null space restricted to it"""
    f = []
    if R.d == 0:
        return f
    ids = [p["id"] for p in net["pts"]]
    sl = num_slack(R)
    xs = max(float(np.max(np.abs(R.x))), 1e-3) * 1e-3
    col, pf = param_map(net, An, G)
    if not pf:
        xg = np.zeros(R.n)
        for (p, c), k in An.pidx.items():
            xg[k] = G["points"][ids[p]][c]["d"]
        GS = R.G[R.S, :]
        t = GS.T @ xg[R.S]
        tol_n = 5.1e-4 * math.sqrt(len(R.S)) + sl * xs * 1e3 + 1e-5 * xs * 1e3
        stats.ratio("min_norm", float(np.max(np.abs(t))) / tol_n)
        if float(np.max(np.abs(t))) > tol_n:
            f.append("g3.min_norm.%s: corrections of the %s components are not orthogonal to the null space (|G_S' x_S| = %.3g mm, defect %d)"
                     % (alg, "constrained" if An.constr else "all", float(np.max(np.abs(t))), R.d))
    return f


def compare_results(tag, G1, G2, sl, xs, stats, skip_given=(), what1="", what2="", floors=(0.0, 0.0, 0.0), skip_stdev_obs=False, xn=0.0):
    """two printed results (two algorithms / two record orders): everything that is printed must agree"""
    f = []
    S1, S2 = G1["stats"], G2["stats"]
    for k in ("parameters", "equations", "defect", "redundancy", "variance-factor-used", "design-matrix-graph"):
        if S1[k] != S2[k]:
            f.append("%s.%s: %s %s vs %s %s" % (tag, k, what1, S1[k], what2, S2[k]))
    for k in ("sum-of-squares", "aposteriori-variance", "apriori-variance"):
        a, b = S1[k], S2[k]
        tol = 1.1e-5 * max(abs(a), abs(b)) + sl * max(abs(a), abs(b), 1e-6) * 10 + 1e-9 + 2 * floors[0] * max(1, S1["redundancy"] if isinstance(S1["redundancy"], int) else 1)
        if not abs(a - b) <= tol:
            f.append("%s.%s: %s %.6g vs %s %.6g" % (tag, k, what1, a, what2, b))
    if set(G1["points"]) != set(G2["points"]):
        f.append("%s.points: %s vs %s" % (tag, sorted(G1["points"]), sorted(G2["points"])))
    cs = 0.0
    for gp in G1["points"].values():
        for k in ("cnn", "cee", "cuu"):
            if gp[k] is not None:
                cs = max(cs, abs(gp[k]))
    for pid in set(G1["points"]) & set(G2["points"]):
        a, b = G1["points"][pid], G2["points"][pid]
        for c in g3ref.COMPS:
            if a[c]["status"] != b[c]["status"] or (a[c]["d"] is None) != (b[c]["d"] is None):
                f.append("%s.status: %s %s %s vs %s" % (tag, pid, c, a[c], b[c]))
            elif a[c]["d"] is not None and pid not in skip_given:
                tol = 1.1e-3 + sl * xs + xn
                stats.ratio(tag + ".dneu", abs(a[c]["d"] - b[c]["d"]) / tol)
                if abs(a[c]["d"] - b[c]["d"]) > tol:
                    f.append("%s.correction: %s d%s %s %.3f vs %s %.3f mm" % (tag, pid, c, what1, a[c]["d"], what2, b[c]["d"]))
        for c in "xyz":
            for k in ("given", "correction", "adjusted"):
                if (a[c][k] is None) != (b[c][k] is None):
                    f.append("%s.xyz_fields: %s %s-%s" % (tag, pid, c, k))
                elif a[c][k] is not None:
                    if k != "adjusted" and pid in skip_given:
                        continue
                    tol = (2.2e-9 + sl * xs * 1e-3 + xn * 1e-3) if k != "given" else 1e-12
                    if k != "given":
                        stats.ratio(tag + ".xyz", abs(a[c][k] - b[c][k]) / tol)
                    if abs(a[c][k] - b[c][k]) > tol:
                        f.append("%s.xyz_%s: %s %s %s %.9f vs %s %.9f" % (tag, k, pid, c, what1, a[c][k], what2, b[c][k]))
        for k in ("cnn", "cne", "cnu", "cee", "ceu", "cuu", "cxx", "cxy", "cxz", "cyy", "cyz", "czz"):
            if (a[k] is None) != (b[k] is None):
                f.append("%s.cov_fields: %s %s" % (tag, pid, k))
            elif a[k] is not None:
                if k[1] in "neu" and pid in skip_given:
                    continue      # the local frame of a point with derived coordinates depends on the derivation
                tol = 1.2e-7 * max(abs(a[k]), abs(b[k])) + 100 * sl * cs + 2 * floors[1] + 1e-300
                stats.ratio(tag + ".cov", abs(a[k] - b[k]) / tol)
                if not abs(a[k] - b[k]) <= tol:
                    f.append("%s.cov: %s %s %s %.8g vs %s %.8g" % (tag, pid, k, what1, a[k], what2, b[k]))
        for k in ("h",):
            for kk in ("given", "correction", "adjusted"):
                if a[k][kk] is not None and b[k][kk] is not None and pid not in skip_given:
                    if abs(a[k][kk] - b[k][kk]) > 1.1e-5 + sl * xs * 1e-3:
                        f.append("%s.h_%s: %s %.5f vs %.5f" % (tag, kk, pid, a[k][kk], b[k][kk]))
    # observations as multisets keyed by type and points
    def table(G):
        T = {}
        for o in G["obs"]:
            T.setdefault(obs_key(o), []).append(o)
        return T
    T1, T2 = table(G1), table(G2)
    if sorted(T1, key=str) != sorted(T2, key=str) or any(len(T1[k]) != len(T2[k]) for k in T1):
        f.append("%s.obs_set: %s vs %s" % (tag, sorted((str(k), len(v)) for k, v in T1.items()), sorted((str(k), len(v)) for k, v in T2.items())))
        return f
    vs = 0.0
    for o in G1["obs"]:
        for k, v in o.items():
            if k.endswith("residual"):
                vs = max(vs, abs(v))
    for key in T1:
        def srt(lst):
            return sorted(lst, key=lambda o: tuple(o[k] for k in sorted(o) if k.endswith("observed") or (k.endswith("stdev-obs") and not skip_stdev_obs)
                                                   or (skip_stdev_obs and k.endswith("stdev-adj") and False)))
        for o1, o2 in zip(srt(T1[key]), srt(T2[key])):
            for k in o1:
                if k in ("tag", "from", "to", "id", "ind"):
                    continue
                if skip_stdev_obs and k.endswith("stdev-obs"):
                    continue
                if k not in o2:
                    f.append("%s.obs_fields: %s %s" % (tag, key, k))
                    continue
                a, b = o1[k], o2[k]
                if k.endswith("observed"):
                    tol = 1e-12
                elif k.endswith("residual") or k.endswith("adjusted"):
                    tol = 1.1e-5 + sl * max(vs, 1e-6)
                elif "stdev" in k:
                    tol = 1.1e-3 + 100 * sl * max(abs(a), 1e-3) + 2 * math.sqrt(floors[2])
                else:
                    tol = 1.2e-7 * max(abs(a), abs(b)) + 100 * sl * max(abs(o1.get("cxx", 0)), abs(o1.get("cyy", 0)), abs(o1.get("czz", 0))) + 2 * floors[2] + 1e-300
                if not abs(a - b) <= tol:
                    f.append("%s.obs_%s: %s %s %s vs %s %s" % (tag, k.replace("dx-", "").replace("dy-", "").replace("dz-", "").replace("x-", "").replace("y-", "").replace("z-", ""),
                                                                key, what1, a, what2, b))
    if len(G1["rejected"]) != len(G2["rejected"]):
        f.append("%s.rejected: %d vs %d rejected observations" % (tag, len(G1["rejected"]), len(G2["rejected"])))
    return f


def check_dump_structure(net, An, R, G, dump_text, stats):
    """the --project-equations dump equals my design matrix / right-hand side / cofactors / regularisation list.
    -> (parsed dump | None, failures)"""
    f = []
    ids = [p["id"] for p in net["pts"]]
    if dump_text is None:
        return None, ["g3.dump.missing: --project-equations wrote no file"]
    try:
        D = g3read.parse_dump(dump_text)
    except g3read.NotWellFormed as e:
        return None, ["g3.dump.not_well_formed: %s" % e]
    if D["A"].shape != (R.m, R.n):
        return None, ["g3.dump.shape: dump is %d x %d, reference model %d x %d" % (D["A"].shape + (R.m, R.n))]
    col, pf = param_map(net, An, G)
    if pf:
        return None, pf
    perm = [col[pc] for pc in An.params]            # my column k = gama column perm[k]
    Ag = D["A"][:, perm]
    # design matrix rows by type (errors relative to the largest row norm of the type)
    tscale = {}
    r = 0
    for k, (ci, oi, off) in enumerate(An.act):
        o = net["clusters"][ci]["obs"][oi]
        for d in range(gm.OBS_DIM[o["t"]]):
            tscale[o["t"]] = max(tscale.get(o["t"], 0.0), float(np.linalg.norm(An.A[r])))
            r += 1
    r = 0
    for k, (ci, oi, off) in enumerate(An.act):
        o = net["clusters"][ci]["obs"][oi]
        dim = gm.OBS_DIM[o["t"]]
        for d in range(dim):
            rn = tscale[o["t"]] if o["t"] in gm.ANGULAR and tscale[o["t"]] > 0 else max(tscale[o["t"]], 1.0)
            e = float(np.max(np.abs(Ag[r + d] - An.A[r + d]))) / rn
            tol = 1e-8 if o["t"] in ("vector", "xyz") else 2e-6 + 2.0 * _DEFL[0]
            stats.ratio("dump.design." + o["t"], e / tol)
            # (absolute floor: a row whose only free components have coefficients of 1e-4 is judged to 5e-9 [cc/mm], the
            # accuracy of my numerically differentiated reference)
            if e > tol and e * rn > 5e-9 + 100.0 * _DEFL[0]:
                extra = "+dh" if any(o.get(kk) for kk in ("fdh", "tdh", "ldh", "rdh")) else ""
                extra += "+defl" if any(net["pts"][q].get("defl") for q in gm.obs_points(o)) else ""
                f.append("g3.design.%s%s: row %d (%s %s) of the dumped design matrix differs from the numerical Jacobian of the "
                         "observation by %.3g of the row norm; dump %s, reference %s"
                         % (o["t"], extra, r + d + 1, o["t"], [ids[q] for q in gm.obs_points(o)], e,
                            np.array2string(Ag[r + d], precision=6), np.array2string(An.A[r + d], precision=6)))
                break
            # right-hand side
            # mm: rounding of 6.4e9 mm coordinates; cc: rounding of the angle and of the gon text
            # (gama evaluates angles and zenith angles by acos: 1.5e-8 rad = 0.01 cc near 0 and 200 gon)
            sc_r = 1e-12 * abs(An.rhs[r + d]) + (4e-15 * 6.4e9 if o["t"] in ("vector", "xyz", "distance", "height", "hdiff") else 0.02)
            er = abs(D["rhs"][r + d] - An.rhs[r + d])
            stats.ratio("dump.rhs." + o["t"], er / sc_r)
            if er > sc_r:
                extra = ""
                if o["t"] == "angle":
                    extra = ".gt200" if An.obsval[ci]["vals"][oi][0] > math.pi else ".le200"
                    if o.get("ldh") or o.get("rdh"):
                        extra += "+target_dh"
                if o["t"] != "angle" and any(o.get(kk) for kk in ("fdh", "tdh")):
                    extra += "+dh"
                f.append("g3.rhs.%s%s: right-hand side of row %d (%s %s) is %.9g, reference (observed - computed from the given coordinates) %.9g [mm or cc]"
                         % (o["t"], extra, r + d + 1, o["t"], [ids[q] for q in gm.obs_points(o)], D["rhs"][r + d], An.rhs[r + d]))
                break
        r += dim
    eC = float(np.max(np.abs(D["C"] - An.Q))) / max(float(np.max(np.abs(An.Q))), 1e-300)
    stats.ratio("dump.cofactors", eC / 1e-12)
    if eC > 1e-12:
        f.append("g3.dump.cofactors: block-diagonal of the dump differs from covariances / apriori variance (max rel. %.3g)" % eC)
    exp_minx = sorted(col[An.params[k]] + 1 for k in An.constr)
    got = sorted(D["minx"]) if D["minx"] is not None else []
    if got != exp_minx:
        f.append("g3.dump.minx: regularisation list %s, indices of constrained components %s" % (got, exp_minx))
    return D, f


def check_dump_solution(net, An, R, G, D, dump_text, stats):
    """numpy solves the dump to the printed corrections, GNU_gama::Adj (driver) solves it to the same with every algorithm"""
    f = []
    ids = [p["id"] for p in net["pts"]]
    col, pf = param_map(net, An, G)
    if pf:
        return pf
    # numpy on the dump itself
    Rd = ref_linalg.solve(D["A"], D["rhs"], D["C"], None if not D["minx"] else [i - 1 for i in D["minx"]], rank_gap=(5e-4, 1e-10))
    if Rd is None or Rd.x is None:
        stats.label("dump.numpy_rank_ambiguous")
        return f
    sl = num_slack(Rd)
    xs = max(float(np.max(np.abs(Rd.x))), 1e-3)
    if Rd.d != G["stats"]["defect"]:
        f.append("g3.dump.defect: gama-g3 prints defect %s, numpy rank of the dumped matrix gives %d" % (G["stats"]["defect"], Rd.d))
    if Rd.m - Rd.rank != G["stats"]["redundancy"]:
        f.append("g3.dump.redundancy: gama-g3 prints redundancy %s, rows - numpy rank of the dump = %d" % (G["stats"]["redundancy"], Rd.m - Rd.rank))
    for (p, c), k in col.items():
        d = G["points"][ids[p]][c]["d"]
        tol = 5.1e-4 + sl * xs
        stats.ratio("dump.numpy_vs_printed", abs(d - Rd.x[k]) / tol)
        if abs(d - Rd.x[k]) > tol:
            f.append("g3.dump.numpy_x: %s d%s printed %.3f mm, numpy solution of the dump %.6f mm" % (ids[p], c, d, Rd.x[k]))
    # GNU_gama::Adj on the dump
    J, crash = g3read.adj_driver(dump_text)
    if crash is not None:
        return f + ["g3.dump.adj_crash.%s: gdrv_g3adj: %s %s" % (crash["kind"].replace(":", "_"), crash["kind"], crash.get("frame"))]
    if J.get("parse") != "ok":
        return f + ["g3.dump.adj_parse: gama's DataParser refuses the dump written by gama-g3: %s" % J.get("parse")]
    stats.label("dump.adj_driver")
    if (J["rows"], J["cols"]) != (Rd.m, Rd.n):
        f.append("g3.dump.adj_shape: DataParser read %s x %s, the dump has %d x %d" % (J["rows"], J["cols"], Rd.m, Rd.n))
        return f
    if sorted(J["minx"] or []) != sorted(D["minx"] or []):
        f.append("g3.dump.adj_minx: DataParser read regularisation list %s, the dump has %s" % (J["minx"], D["minx"]))
    vs = max(float(np.max(np.abs(Rd.v))), 1e-3)
    qs = max(float(np.max(np.abs(np.diag(Rd.Q)))), 1e-300)
    bs = max(float(np.max(np.abs(np.diag(Rd.AQA)))), 1e-300)
    for alg in ALGS:
        a = J["algs"].get(alg)
        if a is None or "error" in a:
            f.append("g3.dump.adj_error.%s: Adj on the dump: %s" % (alg, a and a.get("error")))
            continue
        if a["defect"] != Rd.d:
            f.append("g3.dump.adj_defect.%s: Adj reports defect %s, numpy %d" % (alg, a["defect"], Rd.d))
            continue
        xa, ra = np.array(a["x"], float), np.array(a["r"], float)
        tol = sl * xs + 1e-7 + 1e-12 * float(np.max(np.abs(D["rhs"])))
        e = float(np.max(np.abs(xa - Rd.x)))
        stats.ratio("dump.adj_x", e / tol)
        if not e <= tol:
            f.append("g3.dump.adj_x.%s: Adj solution of the dump differs from numpy by %.3g mm (cond %.3g)" % (alg, e, Rd.cond))
        e = float(np.max(np.abs(ra - Rd.v)))
        tol = sl * max(vs, xs) + 1e-7 + 1e-12 * float(np.max(np.abs(D["rhs"])))
        stats.ratio("dump.adj_r", e / tol)
        if not e <= tol:
            f.append("g3.dump.adj_r.%s: Adj residuals of the dump differ from numpy by %.3g" % (alg, e))
        tol = sl * max(Rd.rtr, float(Rd.bb @ Rd.bb)) * 10 + 1e-12
        if not abs(a["rtr"] - Rd.rtr) <= tol:
            f.append("g3.dump.adj_rtr.%s: Adj sum of squares %.9g, numpy %.9g" % (alg, a["rtr"], Rd.rtr))
        e = float(np.max(np.abs(np.array(a["qxx"], float) - np.diag(Rd.Q))))
        stats.ratio("dump.adj_qxx", e / (100 * sl * qs + 1e-300))
        if not e <= 100 * sl * qs + 1e-300:
            f.append("g3.dump.adj_qxx.%s: diagonal of Adj q_xx differs from numpy by %.3g (scale %.3g)" % (alg, e, qs))
        e = float(np.max(np.abs(np.array(a["qbb"], float) - np.diag(Rd.AQA))))
        if not e <= 100 * sl * bs + 1e-300:
            f.append("g3.dump.adj_qbb.%s: diagonal of Adj q_bb differs from numpy by %.3g (scale %.3g)" % (alg, e, bs))
        # and the printed corrections of gama-g3 equal Adj's solution of the dump
        for (p, c), k in col.items():
            d = G["points"][ids[p]][c]["d"]
            if abs(d - xa[k]) > 5.1e-4 + sl * xs:
                f.append("g3.dump.adj_vs_printed.%s: %s d%s printed %.3f mm, Adj on the dump %.6f mm" % (alg, ids[p], c, d, xa[k]))
                break
    return f


# ---------------------------------------------------------------------------------------------
#  the oracle
# ---------------------------------------------------------------------------------------------

_SOL = ("sum_of_squares", "aposteriori_variance", "correction", "xyz_correction", "residual", "sum-of-squares", "aposteriori-variance",
        "xyz_adjusted", "h_given", "h_correction", "h_adjusted", "obs_residual", "obs_adjusted")
_COV = ("cov_neu", "cov_xyz", "stdev_adj", "obs_cov", "cov", "obs_stdev-adj", "obs_cxx", "obs_cxy", "obs_cxz", "obs_cyy", "obs_cyz", "obs_czz")


def collapse(tag, cls):
    """one tag per algorithm, network class (regular / free) and group of quantities (solution / covariance): the detailed
    name of the quantity stays in the message"""
    parts = tag.split(".")
    if len(parts) >= 4 and parts[0] == "g3" and parts[1] in ("ref", "algdiff", "perm", "perm_interleaved"):
        head, what = parts[:3], parts[3:]        # g3.<check>.<algorithm>
        what = [w for w in what if w not in ("free", "regular")]
        if what and what[0] in _SOL:
            return ".".join(head + [cls, "solution"])
        if what and what[0] in _COV:
            return ".".join(head + [cls, "covariance"])
    if len(parts) == 4 and parts[:2] == ["g3", "dump"] and parts[2].startswith("adj_"):
        q = parts[2][4:]
        if q in ("x", "r", "rtr", "vs_printed"):
            return "g3.dump.adj.%s.%s.solution" % (parts[3], cls)
        if q in ("qxx", "qbb"):
            return "g3.dump.adj.%s.%s.covariance" % (parts[3], cls)
    if len(parts) >= 3 and parts[1] in ("truth", "truth_free"):
        return "g3.truth.%s.%s" % (parts[2], cls)
    if len(parts) == 3 and parts[:2] == ["g3", "min_norm"]:
        return "g3.ref.%s.free.solution" % parts[2]
    return tag


def prepare(net, stats):
    """-> (An, R, text, labels) or None when the case is discarded"""
    try:
        An = g3ref.analyse(net)
    except g3ref.Discard as e:
        stats.label(str(e))
        return None
    R = g3ref.solve(An)
    if R is None:
        stats.label("discard_ill_conditioned")
        return None
    if R.d > 0 and net["kind"] in ("gnss_fixed", "mixed_fixed", "dist_fixed"):
        stats.label("discard_singular_fixed_network")
        return None
    if R.d > 0 and not R.resolving:
        stats.label("discard_constraints_do_not_fix_datum")
        return None
    if R.x is None:
        stats.label("discard_ill_conditioned")
        return None
    return An, R


def refused_text(r):
    return (r["stderr"] or "").strip().replace("\n", " ")[-200:]


def oracle(case, stats):
    """entry point: an exception of the harness itself is turned into a failure with its own tag, so that the case is
    saved as a replay file instead of aborting the worker"""
    try:
        return _oracle(case, stats)
    except Exception as e:          # pragma: no cover
        import traceback
        stats.label("harness.exception")
        return ["harness.exception: %s: %s | %s" % (type(e).__name__, e, traceback.format_exc()[-700:].replace("\n", " | "))]


def _oracle(case, stats):
    net = case["net"]
    _ANG[0] = any(o["t"] in gm.ANGULAR for cl in net["clusters"] for o in cl["obs"])
    _DEFL[0] = max([abs(v) * 0.01 / 3600.0 * math.pi / 180.0 for p in net["pts"] if p.get("defl") for v in p["defl"]] or [0.0])
    pre = prepare(net, stats)
    if pre is None:
        return []
    An, R = pre
    text = gm.write_xml(net, An.net, An.obsval)
    tsuf = type_suffix(net, An)
    fails = []
    refusals = []
    algs = ALGS if case["mode"] != "perm" else [case["alg"]]
    results = {}
    first_raw = None
    for k, alg in enumerate(algs):
        G, raw, fail = run_alg(text, alg, dump=(k == 0))
        if k == 0:
            first_raw = raw
        if fail:
            fails.append(fail)
            continue
        if G is None:
            hb = angles_with_blh_point(net, An)
            if hb:
                # would the network without the angles that gama-g3 silently drops be singular?
                try:
                    R2 = g3ref.solve(g3ref.analyse(net, skip=set(hb)))
                except g3ref.Discard:
                    R2 = None
                if R2 is None or R2.x is None or R2.d != R.d:
                    refusals.append("g3.obs.dropped.angle.blh_point: gama-g3 --algorithm %s exits %s (%s): without the %d angle(s) that have a point given "
                                 "as B-L-H the network is singular" % (alg, raw["rc"], refused_text(raw), len(hb)))
                    continue
            refusals.append("g3.refused.%s.%s: gama-g3 exits %s on a network the reference finds well posed (rank %d of %d, cond %.3g, defect %d): %s"
                         % (alg, "free" if R.d > 0 else "regular", raw["rc"], R.rank, R.n, R.cond, R.d, refused_text(raw)))
            continue
        results[alg] = G
    if not results:
        labels_of(net, An, R, stats)
        return finish(fails + refusals, R)
    # points whose coordinates gama derived itself: linearise the reference at the printed given coordinates
    G0 = results[algs[0]] if algs[0] in results else list(results.values())[0]
    ids = [p["id"] for p in net["pts"]]
    override = {}
    for i, p in enumerate(net["pts"]):
        if p["given"] == "none" and p["ne"] != "unused" and ids[i] in G0["points"]:
            gp = G0["points"][ids[i]]
            if gp["x"]["given"] is not None:
                xyz = np.array([gp[c]["given"] for c in "xyz"])
                # plausibility: derived from the observations, i.e. near the truth
                far = 10.0 + 3.0 * max([float(np.linalg.norm(An.net.given[q] - An.net.truth[q])) for q in range(len(ids)) if An.net.given[q] is not None] or [0.0])
                if float(np.linalg.norm(xyz - An.net.truth[i])) > far:
                    fails.append("g3.init.far: derived coordinates of %s are %.3g m from the generating position"
                                 % (ids[i], float(np.linalg.norm(xyz - An.net.truth[i]))))
                override[i] = xyz
    if override:
        An = g3ref.analyse(net, approx_override=override)
        R = g3ref.solve(An)
        if R is None or R.x is None:
            stats.label("discard_ill_conditioned")
            return finish(fails, None)
    labels_of(net, An, R, stats)
    stats.ratio("cond/2e3", R.cond / 2e3)
    if G0["rejected"]:
        fails.append("g3.rejected: %d observation(s) rejected in a network without gross errors: %s" % (len(G0["rejected"]), G0["rejected"][:2]))
        return finish(fails, R)
    # root causes first: unused observations, then the linearisation itself
    dr = dropped_observations(net, An, G0)
    if dr:
        return finish(fails + dr, R)
    D = None
    if first_raw is not None and first_raw.get("pe"):
        D, df = check_dump_structure(net, An, R, G0, first_raw["pe"], stats)
        if df:
            return finish(fails + df, R)
    # an algorithm that refuses a network which is what the reference model says it is
    fails += refusals
    for alg, G in results.items():
        fails += check_against_reference(net, An, R, G, alg, stats, tsuf)
        if G["stats"]["defect"] != R.d:
            continue              # another rank decision (reported): everything else differs as a consequence
        fails += check_min_norm(net, An, R, G, alg, stats)
        if not net["noisy"]:
            fails += check_truth(net, An, R, G, alg, stats, tsuf)
    # the four algorithms pairwise; reported against the algorithm that agrees with most of the others
    sl = num_slack(R)
    xs = max(float(np.max(np.abs(R.x))), 1e-3)
    names = [a for a in results if results[a]["stats"]["defect"] == R.d]
    fl = noise_floors(net, R, An)
    if len(names) > 1:
        from ..runner import Stats as _S
        bad = {a: 0 for a in names}
        for i, a in enumerate(names):
            for b in names[i + 1:]:
                if compare_results("x", results[a], results[b], sl, xs, _S(), floors=fl):
                    bad[a] += 1
                    bad[b] += 1
        base = min(names, key=lambda a: bad[a])
        suf = ".free" if R.d > 0 else ""
        for alg in names:
            if alg != base:
                fails += compare_results("g3.algdiff.%s%s" % (alg, suf), results[base], results[alg], sl, xs, stats, what1=base, what2=alg, floors=fl)
    if case["mode"] != "perm":
        if D is not None and names:
            fails += check_dump_solution(net, An, R, results[base if len(names) > 1 else names[0]], D, first_raw["pe"], stats)
    elif G0["stats"]["defect"] == R.d:        # (another rank decision of the original run is reported above)
        order = case["order"]
        text2 = gm.write_xml(net, An.net, An.obsval, order=order)
        G2, raw2, fail = run_alg(text2, case["alg"])
        if fail:
            fails.append(fail.replace("g3.crash", "g3.perm_crash"))
        elif G2 is None:
            fails.append("g3.perm_refused.%s.%s: the permuted input is refused (exit %s), the original is adjusted: %s"
                         % (case["alg"], "free" if R.d > 0 else "regular", raw2["rc"], refused_text(raw2)))
        else:
            stats.label("perm.compared")
            if order.get("interleave"):
                stats.label("perm.interleaved")
            skip = set(ids[i] for i in override)
            tag = ("g3.perm_interleaved." if order.get("interleave") else "g3.perm.") + case["alg"]
            mixed = any(len(set(gm.OBS_DIM[o["t"]] for o in cl["obs"])) > 1 for cl in net["clusters"])
            fails += compare_results(tag, G0, G2, sl, xs, stats, skip_given=skip, what1="original", what2="permuted", floors=fl, skip_stdev_obs=mixed,
                                     xn=float(np.max(x_noise(An, R))))
    stats.label("complete." + net["kind"])
    return finish(fails, R)


def finish(fails, R):
    """collapse the tags, one line per tag"""
    cls = "free" if (R is not None and R.d > 0) else "regular"
    seen, out = set(), []
    for x in fails:
        t, _, msg = x.partition(":")
        ct = collapse(t, cls)
        if ct not in seen:
            seen.add(ct)
            out.append("%s: [%s]%s" % (ct, t, msg) if ct != t else x)
    return out


def nontrivial(case):
    net = case["net"]
    moved = net["noisy"] or any(any(p["d"]) for p in net["pts"])
    corr = any(cl["cov"]["band"] > 0 and sum(gm.OBS_DIM[o["t"]] for o in cl["obs"]) - cl["cov"]["own"] > 1 for cl in net["clusters"])
    constr = any(p["ne"] == "constr" or p["u"] == "constr" for p in net["pts"])
    return bool(moved and (corr or constr))


def sample(case):
    net = case["net"]
    try:
        nt = gm.Net(net)
        txt = gm.write_xml(net, nt, gm.observed(net, nt), order=case.get("order"))
    except Exception as e:          # pragma: no cover
        txt = "writer failed: %s" % e
    return {"mode": case["mode"], "kind": net["kind"], "lat": net["lat"], "shift": net["shift"], "xml": txt[:1500]}


# ------------------------------------------------------------------ <azimuth> (known finding: cannot be read at all)

@st.composite
def azimuth_case(draw):
    return {"lat": draw(st.integers(-80, 80)), "lon": draw(st.integers(-179, 179)), "az": draw(st.integers(0, 3999)) / 10.0,
            "dist": draw(st.integers(50, 3000)), "dms": draw(st.booleans()), "stdev": draw(st.booleans())}


def oracle_azimuth(c, stats):
    """a station, a target determined by azimuth + distance + height difference: gama-g3 must read and adjust it"""
    B, L = math.radians(c["lat"]), math.radians(c["lon"])
    a, b = 6378137.0, 6356752.31425
    e2 = 1 - (b / a) ** 2
    Nn = a / math.sqrt(1 - e2 * math.sin(B) ** 2)
    P = np.array([Nn * math.cos(B) * math.cos(L), Nn * math.cos(B) * math.sin(L), Nn * (1 - e2) * math.sin(B)])
    north = np.array([-math.sin(B) * math.cos(L), -math.sin(B) * math.sin(L), math.cos(B)])
    east = np.array([-math.sin(L), math.cos(L), 0.0])
    az = c["az"] * math.pi / 200.0
    Q = P + c["dist"] * (math.cos(az) * north + math.sin(az) * east)
    if c["dms"]:
        deg = c["az"] * 0.9
        d = int(deg); m = int((deg - d) * 60); sec = (deg - d - m / 60.0) * 3600
        val = "%d-%02d-%013.10f" % (d, m, sec)
    else:
        val = repr(c["az"])
    sd = "<stdev>10</stdev>" if c["stdev"] else ""
    cov = "" if c["stdev"] else "<cov-mat> <dim>1</dim> <band>0</band> <flt>100</flt> </cov-mat>"
    text = ('<?xml version="1.0" ?>\n<gnu-gama-data xmlns="http://www.gnu.org/software/gama/gnu-gama-data">\n<g3-model>\n'
            '<fixed> <n/> <e/> <u/> </fixed>\n<point> <id>P</id> <x>%r</x> <y>%r</y> <z>%r</z> </point>\n'
            '<free> <n/> <e/> </free> <fixed> <u/> </fixed>\n<point> <id>Q</id> <x>%r</x> <y>%r</y> <z>%r</z> </point>\n'
            '<obs> <azimuth> <from>P</from> <to>Q</to> <val>%s</val> %s </azimuth> %s </obs>\n'
            '<obs> <distance> <from>P</from> <to>Q</to> <val>%r</val> </distance> <cov-mat> <dim>1</dim> <band>0</band> <flt>25</flt> </cov-mat> </obs>\n'
            '</g3-model>\n</gnu-gama-data>\n') % (float(P[0]), float(P[1]), float(P[2]), float(Q[0]), float(Q[1]), float(Q[2]), val, sd, cov, float(np.linalg.norm(Q - P)))
    r = g3read.gama_g3(text, "gso")
    stats.label("azimuth.probe")
    if r["crash"] is not None:
        return ["g3.azimuth.crash: %s %s" % (r["crash"]["kind"], r["crash"]["frame"])]
    if r["rc"] != 0 or r["out"] is None:
        msg = ((r["stderr"] or "") + (r["stdout"] or ""))[-300:].replace("\n", " ")
        return ["g3.azimuth.unreadable: a network with an <azimuth> observation is refused (exit %s): %s" % (r["rc"], msg)]
    return []


PARTS = [
    Part("truth", strategy=case_truth, oracle=oracle, nontrivial=nontrivial, n={"quick": 1000, "thorough": 8000}, sample=sample),
    Part("noisy", strategy=case_noisy, oracle=oracle, nontrivial=nontrivial, n={"quick": 1000, "thorough": 8000}, sample=sample),
    Part("permute", strategy=case_perm, oracle=oracle, nontrivial=nontrivial, n={"quick": 1000, "thorough": 8000}, sample=sample),
    Part("azimuth", strategy=azimuth_case, oracle=oracle_azimuth, n={"quick": 40, "thorough": 200}),
]
