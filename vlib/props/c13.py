"""C13 - exported input reproduces the adjustment and is a fixed point."""
import copy
import math

import numpy as np
from hypothesis import strategies as st

from .. import gen_net, netmodel as nm, netrun, adjxml, gkfread
from ..runner import Part

ALGS = ["envelope", "cholesky", "gso", "svd"]

RULE = ("Hypothesis generates noisy determined networks with every cluster type and decorates them with the optional "
        "attributes (from_dh on <obs>, from_dh/to_dh on every observation type, bs_dh/fs_dh on angles, extern, dist instead of "
        "stdev on height differences, angular output unit, cov-band, banded covariance matrices, degree input, perturbed or "
        "omitted approximate coordinates); the real binary writes --export and --xml; the export is read by my own GKF reader and "
        "compared with the original description (points, statuses, observations, values, standard deviations, covariance "
        "matrices, heights, parameters), its coordinates with the final linearisation point of the run, then it is adjusted "
        "again (same results, no linearisation iteration) and exported again (round 2 and 3 must be semantically equal). "
        "Non-trivial = an attribute beyond from/to/val/stdev or a correlated cluster; distinct by sha1.")
ASSUMPTIONS = ["'approximate coordinates updated from the adjustment' is read as: exported coordinates of adjusted points equal the "
               "final linearisation point of the run (the <approximate> block of the same run's XML, printed with 6 decimals)",
               "values are compared after unit conversion (d-m-s <-> gon; arc seconds <-> cc) with 1e-9 relative tolerance"]
REQUIRED_CLASSES = ["with_dh", "with_extern", "with_dist", "with_cov_band", "deg_input", "round3", "export_alone", "with_dist_and_stdev", "implicit_stdev"]


@st.composite
def case(draw):
    ell = draw(st.integers(0, 4)) == 0
    net = draw(gen_net.determined_network(noise=1, box=300.0 if ell else None))
    for cl in net["clusters"]:
        if cl["k"] == "obs":
            if draw(st.integers(0, 3)) == 0:
                cl["from_dh"] = draw(st.integers(1000, 1900)) / 1000.0
            for o in cl["obs"]:
                r = draw(st.integers(0, 9))
                if r == 0 and o["t"] in ("direction", "distance", "azimuth") :
                    o["from_dh"] = draw(st.sampled_from([draw(st.integers(1000, 1900)) / 1000.0, -0.42]))
                    o["to_dh"] = draw(st.integers(-600, 2500)) / 1000.0
                if o["t"] == "angle" and r in (1, 2):
                    o["bs_dh"] = draw(st.integers(100, 2500)) / 1000.0
                    o["fs_dh"] = draw(st.integers(100, 2500)) / 1000.0
                    if r == 2:
                        o["from_dh"] = 1.5
                if draw(st.integers(0, 7)) == 0:
                    o["extern"] = draw(st.sampled_from(["e1", "meas-77", "2020-01-01/5", "x y"]))
        if cl["k"] == "hdiff" and cl.get("cov") is None:
            for o in cl["obs"]:
                r = draw(st.integers(0, 4))
                if r == 0:
                    o["dist"] = draw(st.integers(1, 400)) / 100.0      # km; stdev = sigma-apr*sqrt(dist)
                    o["sd"] = None
                if r == 1:
                    o["dist"] = draw(st.integers(1, 400)) / 100.0      # both given: the explicit stdev is the one in use
                    o["both"] = True
                if draw(st.integers(0, 7)) == 0:
                    o["extern"] = "lev-" + str(draw(st.integers(1, 99)))
    mode = draw(st.sampled_from(["exact", "small", "omit"]))
    for p in net["points"]:
        if p.get("recipe") is None:
            continue
        if mode == "small":
            p["dE"] = draw(st.integers(-20, 20)) / 1000.0
            p["dN"] = draw(st.integers(-20, 20)) / 1000.0
            p["dH"] = draw(st.integers(-20, 20)) / 1000.0
        if mode == "omit" and p["recipe"][0] in ("polar", "intersection", "traverse") and p["xy"] == "adj" and draw(st.booleans()):
            p["give_xy"] = False
    if draw(st.booleans()):
        net["params"]["angular"] = draw(st.sampled_from(["400", "360"]))
    if draw(st.booleans()):
        net["params"]["cov-band"] = draw(st.sampled_from([-1, 0, 1, 3]))
    if draw(st.booleans()):
        net["params"]["algorithm"] = draw(st.sampled_from(ALGS))
    if ell:
        # reductions to the ellipsoid: mean latitude (gons, or d-m-s) and / or a named ellipsoid.  The observations are
        # generated in the plane, so the network is kept small (<= 300 m: curvature effects below the noise)
        k = draw(st.integers(0, 2))
        if k != 1:
            net["params"]["latitude"] = draw(st.sampled_from(["55.5", "33.3333", "-40.25", "99", "49-30-15.5", "0.5"]))
        if k != 0:
            net["params"]["ellipsoid"] = draw(st.sampled_from(["wgs84", "bessel", "grs80", "krassovski"]))
    if draw(st.integers(0, 3)) == 0:
        gen_net.apply_implicit_stdevs(draw, net)
    if draw(st.integers(0, 4)) == 0:
        net["epoch"] = draw(st.sampled_from(["2021.5", "0", "1999.123456789", "-3.25", "2024"]))
    return {"net": net, "alg": draw(st.sampled_from(ALGS + [None])), "mode": mode, "alone": draw(st.integers(0, 2))}


def fl(s):
    return float(s)


def num_eq(a, b, rel=1e-9, ab=1e-12):
    return abs(a - b) <= rel * max(abs(a), abs(b)) + ab


def status_of(p):
    fix = p.get("fix", "")
    adj = p.get("adj", "")
    s = {}
    if "xy" in fix.lower():
        s["xy"] = "fix"
    if "z" in fix.lower():
        s["z"] = "fix"
    if "xy" in adj:
        s["xy"] = "adj"
    if "XY" in adj:
        s["xy"] = "constr"
    if "z" in adj:
        s["z"] = "adj"
    if "Z" in adj:
        s["z"] = "constr"
    return s


PO_ATTR = {"direction": "direction-stdev", "angle": "angle-stdev", "z-angle": "zenith-angle-stdev", "azimuth": "azimuth-stdev"}


def obs_semantic(cl, o, m0apr, po=None):
    """canonical description of one observation element of a parsed GKF (po: attributes of <points-observations>, the
    documented implicit standard deviations)"""
    d = {"tag": o["tag"]}
    for k in ("from", "to", "bs", "fs", "id"):
        if k in o:
            d[k] = o[k]
    if cl["k"] == "obs" and "from" not in d and cl["attrs"].get("from") is not None:
        d["from"] = cl["attrs"]["from"]
    ang = o["tag"] in ("direction", "angle", "z-angle", "azimuth")
    if "val" in o:
        if ang:
            v, deg = gkfread.angle_gon(o["val"])
            d["val"] = v % 400.0 if o["tag"] != "z-angle" else v
            d["deg"] = deg
        else:
            d["val"] = fl(o["val"])
    for k in ("dx", "dy", "dz", "x", "y", "z"):
        if k in o:
            d[k] = fl(o[k])
    sd = None
    if "stdev" in o:
        sd = fl(o["stdev"])
        if ang and d.get("deg"):
            sd = sd / 0.324
    elif "dist" in o:
        sd = m0apr * math.sqrt(fl(o["dist"]))
    elif po and cl["k"] == "obs" and cl.get("cov") is None:
        if ang and PO_ATTR[o["tag"]] in po:
            sd = fl(po[PO_ATTR[o["tag"]]])
            if d.get("deg"):
                sd = sd / 0.324
        elif o["tag"] in ("distance", "s-distance") and "distance-stdev" in po:
            abc = [fl(t) for t in po["distance-stdev"].split()] + [0.0, 1.0]
            a_, b_, c_ = abc[0], (abc[1] if len(po["distance-stdev"].split()) > 1 else 0.0), (abc[2] if len(po["distance-stdev"].split()) > 2 else 1.0)
            sd = a_ + b_ * (d["val"] / 1000.0) ** c_
    d["sd"] = sd
    fdh = o.get("from_dh", cl["attrs"].get("from_dh") if cl["k"] == "obs" else None)
    d["from_dh"] = fl(fdh) if fdh is not None else 0.0
    for k in ("to_dh", "bs_dh", "fs_dh"):
        d[k] = fl(o[k]) if k in o else 0.0
    d["dist"] = fl(o["dist"]) if "dist" in o else None
    d["extern"] = o.get("extern")
    return d


def compare_inputs(tag, A, B, stats, strict_coords=False, cmd_alg=None):
    """semantic comparison of two parsed GKF documents"""
    fails = []
    if A["axes"] != B["axes"] or A["angles"] != B["angles"]:
        fails.append("%s.frame: %s/%s vs %s/%s" % (tag, A["axes"], A["angles"], B["axes"], B["angles"]))
    ea, eb = A.get("epoch"), B.get("epoch")
    if (ea is None) != (eb is None) or (ea is not None and not num_eq(fl(ea), fl(eb), 1e-12, 1e-12)):
        fails.append("%s.epoch: %s vs %s" % (tag, ea, eb))
    if (A["description"] or "").strip() != (B["description"] or "").strip():
        fails.append("%s.description: %r vs %r" % (tag, A["description"], B["description"]))
    pa, pb = A["params"], B["params"]
    m0 = fl(pa.get("sigma-apr", 10))
    for k, dflt in (("sigma-apr", 10.0), ("conf-pr", 0.95), ("tol-abs", 1000.0)):
        if not num_eq(fl(pa.get(k, dflt)), fl(pb.get(k, dflt)), 1e-7):
            fails.append("%s.param_%s: %s vs %s" % (tag, k, pa.get(k), pb.get(k)))
    if pa.get("sigma-act", "aposteriori") != pb.get("sigma-act", "aposteriori"):
        fails.append("%s.param_sigma-act: %s vs %s" % (tag, pa.get("sigma-act"), pb.get("sigma-act")))
    for k in ("algorithm", "cov-band"):
        exp_v = pa.get(k)
        if k == "algorithm" and cmd_alg:
            exp_v = cmd_alg          # --algorithm on the command line overrides the parameter
        if exp_v is not None and str(exp_v) != str(pb.get(k)):
            fails.append("%s.param_%s: %s vs %s" % (tag, k, exp_v, pb.get(k)))
    def lat_gon(v):
        """latitude attribute: gons, or degrees written d-m-s"""
        v = str(v)
        if "-" in v[1:]:
            sgn = -1.0 if v.startswith("-") else 1.0
            f = [float(t) for t in v.lstrip("-").split("-")]
            f += [0.0] * (3 - len(f))
            return sgn * (f[0] + f[1] / 60.0 + f[2] / 3600.0) / 0.9
        return float(v)
    if ("latitude" in pa) != ("latitude" in pb) or ("latitude" in pa and abs(lat_gon(pa["latitude"]) - lat_gon(pb["latitude"])) > 1e-9):
        fails.append("%s.param_latitude: %s vs %s (gons, or degrees as d-m-s)" % (tag, pa.get("latitude"), pb.get("latitude")))
    if (pa.get("ellipsoid") or "").lower() != (pb.get("ellipsoid") or "").lower():
        fails.append("%s.param_ellipsoid: %s vs %s" % (tag, pa.get("ellipsoid"), pb.get("ellipsoid")))
    ang_a = pa.get("angular", pa.get("angles", "400"))
    ang_b = pb.get("angular", pb.get("angles", "400"))
    if str(ang_a) != str(ang_b):
        fails.append("%s.param_angular: %s vs %s" % (tag, ang_a, ang_b))
    # points
    PA = {p["id"]: p for p in A["points"]}
    PB = {p["id"]: p for p in B["points"]}
    used = set(PA)
    if set(PB) != used:
        fails.append("%s.points: %s vs %s" % (tag, sorted(used), sorted(PB)))
    for pid in used & set(PB):
        if status_of(PA[pid]) != status_of(PB[pid]):
            fails.append("%s.point_status: %s %s vs %s" % (tag, pid, status_of(PA[pid]), status_of(PB[pid])))
        st_ = status_of(PA[pid])
        for k, grp in (("x", "xy"), ("y", "xy"), ("z", "z")):
            if st_.get(grp) == "fix" or strict_coords:
                # free points: a further refinement of the linearisation point below gama's own criteria is allowed
                tolp = 1e-5 if st_.get(grp) != "fix" else 1e-9
                if k in PA[pid] and (k not in PB[pid] or not num_eq(fl(PA[pid][k]), fl(PB[pid][k]), 1e-12, tolp)):
                    fails.append("%s.point_coordinate: %s %s %s vs %s" % (tag, pid, k, PA[pid].get(k), PB[pid].get(k)))
    # clusters
    if [c["k"] for c in A["clusters"]] != [c["k"] for c in B["clusters"]]:
        fails.append("%s.clusters: %s vs %s" % (tag, [c["k"] for c in A["clusters"]], [c["k"] for c in B["clusters"]]))
        return fails
    for ci, (ca, cb) in enumerate(zip(A["clusters"], B["clusters"])):
        if ca["k"] == "coords":
            # <point x y/> <point z/> of one point may be merged into <point x y z/>: compare coordinate lists
            def flat(c):
                return [(o["id"], k, fl(o[k])) for o in c["obs"] for k in ("x", "y", "z") if k in o]
            fa, fb = flat(ca), flat(cb)
            if [(i, k) for i, k, v in fa] != [(i, k) for i, k, v in fb] or any(not num_eq(u[2], v[2], 1e-12, 1e-9) for u, v in zip(fa, fb)):
                fails.append("%s.coords: cluster %d observed coordinates %s vs %s" % (tag, ci, fa[:4], fb[:4]))
            if ca["cov"] and cb["cov"]:
                Ma, Mb = gkfread.cov_full(ca["cov"]), gkfread.cov_full(cb["cov"])
                if Ma.shape != Mb.shape or np.max(np.abs(Ma - Mb)) > 1e-9 * max(1.0, np.max(np.abs(Ma))):
                    fails.append("%s.covariance: cluster %d (coords) covariance matrices differ" % (tag, ci))
            if ca["attrs"].get("extern") != cb["attrs"].get("extern"):
                fails.append("%s.coords_extern: %r vs %r" % (tag, ca["attrs"].get("extern"), cb["attrs"].get("extern")))
            continue
        if len(ca["obs"]) != len(cb["obs"]):
            fails.append("%s.cluster_size: cluster %d (%s) %d vs %d" % (tag, ci, ca["k"], len(ca["obs"]), len(cb["obs"])))
            continue
        sds_a, sds_b = [], []
        for oa, ob in zip(ca["obs"], cb["obs"]):
            sa, sb = obs_semantic(ca, oa, m0, A.get("po_attrs")), obs_semantic(cb, ob, m0, B.get("po_attrs"))
            for k in ("tag", "from", "to", "bs", "fs", "id"):
                if sa.get(k) != sb.get(k):
                    fails.append("%s.obs_%s: cluster %d %s vs %s" % (tag, k, ci, sa.get(k), sb.get(k)))
            for k in ("val", "dx", "dy", "dz", "x", "y", "z"):
                if k in sa:
                    # d-m-s values are exported with 4 decimals of arc seconds (5e-5" = 1.6e-8 gon)
                    ab = 2e-8 if (k == "val" and (sa.get("deg") or sb.get("deg"))) else 1e-9
                    if k not in sb or not num_eq(sa[k], sb[k], 1e-11, ab):
                        fails.append("%s.obs_value: cluster %d %s %s->%s %s: %r vs %r" % (tag, ci, sa["tag"], sa.get("from"), sa.get("to"), k, sa.get(k), sb.get(k)))
            for k in ("from_dh", "to_dh", "bs_dh", "fs_dh"):
                if not num_eq(sa[k], sb[k], 1e-9, 1e-9):
                    fails.append("%s.obs_%s: cluster %d %s %s->%s: %r vs %r" % (tag, k, ci, sa["tag"], sa.get("from"), sa.get("to", sa.get("fs")), sa[k], sb[k]))
            if sa["extern"] != sb["extern"]:
                fails.append("%s.obs_extern: cluster %d %s: %r vs %r" % (tag, ci, sa["tag"], sa["extern"], sb["extern"]))
            if (sa["dist"] is None) != (sb["dist"] is None) or (sa["dist"] is not None and not num_eq(sa["dist"], sb["dist"], 1e-9)):
                fails.append("%s.obs_dist: cluster %d: %r vs %r" % (tag, ci, sa["dist"], sb["dist"]))
            sds_a.append(sa["sd"]); sds_b.append(sb["sd"])
        # covariance: full matrices must agree (stdev attributes = diagonal)
        def full(c, sds, obs):
            if c["cov"] is not None:
                M = gkfread.cov_full(c["cov"])
                # rows of d-m-s values are given in arc seconds
                if c["k"] == "obs":
                    f = np.array([(1 / 0.324) if (o["tag"] in ("direction", "angle", "z-angle", "azimuth")
                                                 and gkfread.angle_gon(o["val"])[1]) else 1.0 for o in obs])
                    M = M * np.outer(f, f)
                return M
            if any(s is None for s in sds):
                return None
            return np.diag(np.square(sds))
        Ma, Mb = full(ca, sds_a, ca["obs"]), full(cb, sds_b, cb["obs"])
        if Ma is not None and Mb is not None:
            if Ma.shape != Mb.shape or np.max(np.abs(Ma - Mb)) > 1e-9 * max(1.0, np.max(np.abs(Ma))):
                fails.append("%s.covariance: cluster %d (%s) covariance matrices differ" % (tag, ci, ca["k"]))
        elif (Ma is None) != (Mb is None):
            fails.append("%s.covariance_missing: cluster %d" % (tag, ci))
    return fails


def run(text, alg, outputs=("xml", "export")):
    args = ["--algorithm", alg] if alg else []
    res = netrun.gama_local(text, args, outputs=outputs)
    if res["crash"] is not None:
        return None, None, "crash: %s %s" % (res["crash"]["kind"], res["crash"]["frame"])
    try:
        x = adjxml.parse_adjustment(res["xml"] or "")
    except adjxml.NotWellFormed as e:
        return None, None, "xml: %s" % e
    return x, res.get("export"), None


def compare_results(tag, x1, x2, stats, tolc=2e-5, tol_ang=5e-1):
    fails = []
    S1, S2 = x1["summary"], x2["summary"]
    for k in ("dof", "defect", "equations", "unknowns"):
        if S1[k] != S2[k]:
            fails.append("%s.%s: %s vs %s" % (tag, k, S1[k], S2[k]))
    # the second adjustment starts from another linearisation point: agreement is limited by gama's own
    # iteration criteria (0.0005 mm, 0.1 cc for the dh reductions), as in C08
    vpv = max(S1["sum_of_squares"], 0.0)
    if abs(S1["sum_of_squares"] - S2["sum_of_squares"]) > 2e-3 * vpv + 2e-3 * math.sqrt(vpv) + 1e-7:
        fails.append("%s.sum_of_squares: %r vs %r" % (tag, S1["sum_of_squares"], S2["sum_of_squares"]))
    a1 = {a["id"]: a for a in x1["coordinates"]["adjusted"]}
    a2 = {a["id"]: a for a in x2["coordinates"]["adjusted"]}
    if set(a1) != set(a2):
        fails.append("%s.points: %s vs %s" % (tag, sorted(a1), sorted(a2)))
    for pid in set(a1) & set(a2):
        for k in ("x", "y", "z"):
            if (k in a1[pid]) != (k in a2[pid]):
                fails.append("%s.coordinate_set: %s %s" % (tag, pid, k))
            elif k in a1[pid]:
                e = abs(a1[pid][k] - a2[pid][k])
                stats.ratio(tag + ".coord", e / tolc)
                if e > tolc:
                    fails.append("%s.coordinates: %s %s differ by %.3g m" % (tag, pid, k, e))
    if len(x1["observations"]) != len(x2["observations"]):
        fails.append("%s.observation_count: %d vs %d" % (tag, len(x1["observations"]), len(x2["observations"])))
    else:
        for a, b in zip(x1["observations"], x2["observations"]):
            ang = a["tag"] in ("direction", "angle", "zenith-angle", "azimuth")
            d = a["adj"] - b["adj"]
            d = ((d + 200) % 400 - 200) * 1e4 if ang else d * 1e3
            if abs(d) > (tol_ang if ang else 1e3 * tolc):
                fails.append("%s.adjusted_obs: %s %s->%s differ by %.3g" % (tag, a["tag"], a.get("from", a.get("id")), a.get("to", ""), d))
                break
            if abs(a["stdev"] - b["stdev"]) > 1e-2 * max(a["stdev"], b["stdev"]) + 1e-2:      # (0.01 cc | mm: noise level of error-free cases)
                fails.append("%s.obs_stdev: %s %.6g vs %.6g" % (tag, a["tag"], a["stdev"], b["stdev"]))
                break
    return fails


def oracle(c, stats):
    net = c["net"]
    if not gen_net.is_determined(net):
        stats.label("discarded_not_determined")
        return []
    text0 = nm.gkf_text(net)
    feats = []
    if any(o.get("from_dh") is not None or o.get("to_dh") is not None or o.get("bs_dh") is not None
           for cl in net["clusters"] for o in cl["obs"]) or any(cl.get("from_dh") for cl in net["clusters"]):
        feats.append("with_dh")
    if any(o.get("extern") for cl in net["clusters"] for o in cl["obs"]):
        feats.append("with_extern")
    if any(o.get("dist") for cl in net["clusters"] if cl["k"] == "hdiff" for o in cl["obs"]):
        feats.append("with_dist")
    if any(o.get("both") for cl in net["clusters"] if cl["k"] == "hdiff" for o in cl["obs"]):
        feats.append("with_dist_and_stdev")
    if any(cl.get("cov") and cl["cov"]["band"] > 0 for cl in net["clusters"]):
        feats.append("with_cov_band")
    if net.get("implicit"):
        feats.append("implicit_stdev")
    if net.get("deg"):
        feats.append("deg_input")
    stats.label(*feats) if feats else None
    x0, exp1, err = run(text0, c["alg"])
    if err:
        return ["run0." + err]
    if "error" in x0:
        stats.label("refused")
        return []
    if not exp1:
        return ["export.missing: no export written for an adjusted network"]
    present = set(a["id"] for k in ("fixed", "adjusted") for a in x0["coordinates"][k])
    groups = {}
    for k in ("fixed", "adjusted"):
        for a in x0["coordinates"][k]:
            groups.setdefault(a["id"], set()).update((["xy"] if "x" in a else []) + (["z"] if "z" in a else []))
    partly = any((p["xy"] and "xy" not in groups.get(p["id"], {"xy"})) or (p["z"] and "z" not in groups.get(p["id"], {"z"}))
                 for p in net["points"])
    if partly or any(p["id"] not in present for p in net["points"] if p["xy"] or p["z"]):
        # a point was removed from the adjustment (weak configuration): exclusions are the subject of C14 / C20
        stats.label("skipped_point_removed")
        return []
    if x0["summary"]["iterations"] >= 5:
        # the iteration limit was reached: the run did not converge (weak geometry), the export is not a fixed point yet
        stats.label("skipped_iteration_limit")
        return []
    fails = []
    try:
        I = gkfread.parse(text0)
        E1 = gkfread.parse(exp1)
    except adjxml.NotWellFormed as e:
        return ["export.not_well_formed: %s" % e]
    # the export names the algorithm actually used and the cov-band; do not compare params absent from the input
    fails += compare_inputs("export1", I, E1, stats, cmd_alg=c["alg"])
    # coordinates of adjusted points = final linearisation point of the run
    appr = {a["id"]: a for a in x0["coordinates"]["approximate"]}
    PE = {p["id"]: p for p in E1["points"]}
    for pid, a in appr.items():
        p = PE.get(pid)
        if p is None:
            fails.append("export1.point_missing: %s" % pid)
            continue
        for k in ("x", "y", "z"):
            if k in a:
                if k not in p:
                    fails.append("export1.coordinate_missing: adjusted point %s has no %s in the export" % (pid, k))
                elif abs(fl(p[k]) - a[k]) > 1.1e-6:
                    fails.append("export1.coordinates: %s %s exported %s, final linearisation point %.6f" % (pid, k, p[k], a[k]))
    if fails:
        return fails
    # the export must not depend on which other outputs were requested (XML / Octave writers switch the angular unit)
    if c.get("alone", 0) == 1:
        stats.label("export_alone")
        args = ["--algorithm", c["alg"]] if c["alg"] else []
        other = ("export", "octave") if net["params"].get("angular") == "360" or net.get("deg") else ("export",)
        res = netrun.gama_local(text0, args, outputs=other)
        if res["crash"] is not None:
            return ["run0b.crash: %s %s" % (res["crash"]["kind"], res["crash"]["frame"])]
        if (res.get("export") or "") != exp1:
            try:
                Eb = gkfread.parse(res.get("export") or "")
                fb = compare_inputs("export_alone", I, Eb, stats, cmd_alg=c["alg"])
            except adjxml.NotWellFormed as e:
                fb = ["export_alone.not_well_formed: %s" % e]
            return fb or ["export_alone.differs: the export written without --xml differs from the one written with --xml"]
    # adjust the export: same results, no iteration
    x1, exp2, err = run(exp1, c["alg"])
    if err:
        return ["run1." + err]
    if "error" in x1:
        return ["run1.refused: the exported file is refused: %s" % x1["error"]["descriptions"]]
    # reductions of zenith angles / slope distances with instrument heights are refined only while they change by
    # more than 0.1 cc resp. 0.001 mm: up to 0.1 cc * sight length may remain in a height (as in C06)
    tolc = 2e-5
    P = nm.pmap(net)
    for cl in net["clusters"]:
        if cl["k"] == "obs":
            for o in cl["obs"]:
                if o["t"] == "z-angle" and (o.get("from_dh") or o.get("to_dh") or cl.get("from_dh")):
                    tolc = max(tolc, 2.0 * 1.571e-7 * nm.hdist(P[o.get("from", cl["from"])], P[o["to"]]))
    fails += compare_results("readjust", x0, x1, stats, tolc)
    stats.label("run0.iterations=%d" % min(x0["summary"]["iterations"], 3))
    if x1["summary"]["iterations"] != 0:
        fails.append("readjust.iterations: adjusting the export needed %d further linearisation iteration(s) (the exporting run made %d)"
                     % (x1["summary"]["iterations"], x0["summary"]["iterations"]))
    try:
        E2 = gkfread.parse(exp2 or "")
    except adjxml.NotWellFormed as e:
        return fails + ["export2.not_well_formed: %s" % e]
    fails += compare_inputs("export2", E1, E2, stats)
    x2, exp3, err = run(exp2, c["alg"])
    if err:
        return fails + ["run2." + err]
    if "error" in x2:
        return fails + ["run2.refused: %s" % x2["error"]["descriptions"]]
    stats.label("round3")
    fails += compare_results("readjust2", x1, x2, stats, tolc)
    if x2["summary"]["iterations"] != 0:
        fails.append("readjust2.iterations: adjusting the second export needed %d linearisation iteration(s)" % x2["summary"]["iterations"])
    try:
        E3 = gkfread.parse(exp3 or "")
        fails += compare_inputs("export3", E2, E3, stats, strict_coords=True)
    except adjxml.NotWellFormed as e:
        fails.append("export3.not_well_formed: %s" % e)
    return fails


def nontrivial(c):
    net = c["net"]
    return (any(cl.get("cov") and cl["cov"]["band"] > 0 for cl in net["clusters"]) or
            any(o.get(k) is not None for cl in net["clusters"] for o in cl["obs"] for k in ("from_dh", "to_dh", "bs_dh", "fs_dh", "extern", "dist"))
            or any(cl.get("from_dh") for cl in net["clusters"]))


PARTS = [
    Part("export", strategy=case, oracle=oracle, nontrivial=nontrivial, n={"quick": 6000, "thorough": 40000},
         sample=lambda c: {"alg": c["alg"], "mode": c["mode"], "gkf": nm.gkf_text(c["net"])[:1200]}),
]
