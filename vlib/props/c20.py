"""C20 - ill-posed networks are diagnosed, identically for every algorithm."""
import copy
import math
import re

import numpy as np
from hypothesis import strategies as st

from .. import gen_linear, gen_net, netmodel as nm, netrun, adjxml
from ..lin_common import ALGS, reference, whitened_case, query, val
from ..runner import Part
from . import c10, c13

RULE = ("(lindep) rank-planted singular problems (as C01) with regularisation subsets that resolve or provably cannot resolve the "
        "defect are given to the four AdjBase solvers used by gama-local; after the (expected) bad-regularisation exception every "
        "lindep(i) is read: the flagged unknowns must be exactly defect many and deleting their columns must leave a matrix of full "
        "column rank (numpy). (planted) determined fixed-datum networks get planted indeterminable parts - a point with one distance, "
        "a point seen by one direction, a detached pair joined by a distance, a detached levelling pair - and are adjusted by the real "
        "binary with each algorithm: the removed points must be exactly the planted ones for every algorithm, the results for the rest "
        "equal those of the network without the planted parts and each other, outputs contain no nan/inf. (free) free networks whose "
        "constrained coordinates are too few or do not span the defect (numpy on the dumped design matrix): every algorithm must refuse "
        "or remove the same points with the same results; an adjustment without removals is accepted only when numpy confirms that the "
        "constraints resolve the defect. Non-trivial = defect>0 / a planted part / reduced constraints; distinct by sha1.")
ASSUMPTIONS = ["numpy SVD rank with the gap rule of C01 as reference for 'truly linearly dependent'",
               "planted parts are indeterminable by construction (fewer determining elements than unknowns, no other ties)"]
REQUIRED_CLASSES = ["lindep.nonresolving", "lindep.resolving", "planted.single", "planted.dir_only", "planted.pair", "planted.lev_pair", "planted.free_base",
                    "free.insufficient", "free.refused"]

NONFINITE = re.compile(r"(?<![A-Za-z])[-+]?(nan|inf)(?![A-Za-z])", re.I)


# ------------------------------------------------------------------ (a) lindep flags of the solvers

def oracle_lindep(case, stats):
    A, C, R = reference(case)
    if R is None or R.d == 0:
        stats.label("discarded")
        return []
    if R.resolving and R.sg_ratio < 0.05:
        stats.label("discarded_ambiguous")
        return []
    if not R.resolving and not R.nonresolving_exact:
        stats.label("discarded_ambiguous")
        return []
    stats.label("lindep.resolving" if R.resolving else "lindep.nonresolving", "lindep.d=%d" % R.d)
    n = case["n"]
    queries = ["x"] + ["lindep %d" % i for i in range(1, n + 1)]
    wc = whitened_case(case, R)
    res = query(wc, "raw", ["cholesky", "gso", "svd"], queries)
    res.update(query(case, "raw", ["envelope"], queries))
    fails = []
    Aw = R.Ab
    for alg in ALGS:
        a = res[alg]
        if "crash" in a:
            fails.append("lindep.%s.crash: %s %s" % (alg, a["crash"]["kind"], a["crash"]["frame"]))
            continue
        if not R.resolving and "v" in a["x"]:
            fails.append("lindep.%s.accepted: non-resolving regularisation accepted" % alg)
            continue
        flags = []
        bad = None
        for i in range(1, n + 1):
            v = a["lindep %d" % i]
            if not isinstance(v, dict) or "v" not in v:
                bad = v
                break
            flags.append(int(v["v"]))
        if bad is not None:
            fails.append("lindep.%s.exception: lindep() after the solution attempt raised %s" % (alg, str(bad)[:200]))
            continue
        F = [i for i, f in enumerate(flags) if f]
        if len(F) != R.d:
            fails.append("lindep.%s.count: %d unknowns flagged as linearly dependent %s, defect %d (n=%d, subset %s)"
                         % (alg, len(F), [i + 1 for i in F], R.d, n, case["minx"]))
            continue
        keep = [i for i in range(n) if i not in F]
        sv = np.linalg.svd(Aw[:, keep], compute_uv=False) if keep else np.array([1.0])
        if len(keep) and (sv.size < len(keep) or sv.min() < 1e-9 * sv.max()):
            fails.append("lindep.%s.not_dependent: deleting the flagged unknowns %s leaves a rank deficient system (defect %d, sigma_min/max %.2g)"
                         % (alg, [i + 1 for i in F], R.d, (sv.min() / sv.max()) if sv.size else 0.0))
    return fails


# ------------------------------------------------------------------ (b) planted indeterminable parts

def finite_outputs(tag, res):
    fails = []
    for k in ("xml", "text"):
        m = NONFINITE.search(res.get(k) or "")
        if m:
            ctx = (res[k][max(0, m.start() - 60):m.end() + 20]).replace("\n", " ")
            fails.append("%s.nonfinite: %s output contains '%s': ...%s" % (tag, k, m.group(0), ctx))
    return fails


@st.composite
def planted_case(draw):
    # one case in three on a free network (datum by constrained points): the retry loop of null_space() then runs
    # on a system that is singular anyway
    net = draw(gen_net.determined_network(noise=1, allow_cov=True, free=draw(st.integers(0, 2)) == 0))
    has_xy, has_z = net["dims"] in ("2d", "3d"), net["dims"] in ("3d", "1d")
    kinds = (["single", "dir_only", "pair"] if has_xy else []) + (["lev_pair"] if has_z else [])
    plants = []
    for k in range(draw(st.integers(1, 2))):
        plants.append({"kind": draw(st.sampled_from(kinds)), "a": draw(st.sampled_from([p["id"] for p in net["points"]])),
                       "dx": draw(st.integers(5, 60)) * draw(st.sampled_from([-1, 1])),
                       "dy": draw(st.integers(5, 60)) * draw(st.sampled_from([-1, 1])),
                       "pos": draw(st.integers(0, 50)), "first": draw(st.booleans())})
    return {"net": net, "plants": plants}


def build_planted(c):
    """-> (net with planted parts, planted point ids, labels)"""
    net = copy.deepcopy(c["net"])
    P = nm.pmap(net)
    ids = []
    labels = []
    for k, pl in enumerate(c["plants"]):
        a = P[pl["a"]]
        kind = pl["kind"]

        def newpt(name, dE, dN, xy, z):
            q = {"id": name, "E": a["E"] + dE, "N": a["N"] + dN, "H": a["H"] + 0.5, "xy": "adj" if xy else None,
                 "z": "adj" if z else None, "give_xy": xy, "give_z": z}
            if pl["first"]:
                net["points"].insert(0, q)
            else:
                net["points"].append(q)
            return q
        if kind == "dir_only":
            cls = [cl for cl in net["clusters"] if cl["k"] == "obs" and not cl.get("cov")
                   and sum(1 for o in cl["obs"] if o["t"] == "direction") >= 2]
            if not cls:
                kind = "single"
            else:
                cl = cls[pl["pos"] % len(cls)]
                st_p = P[cl["from"]]
                name = "Qd%d" % k
                q = {"id": name, "E": st_p["E"] + pl["dx"], "N": st_p["N"] + pl["dy"], "H": st_p["H"], "xy": "adj", "z": None,
                     "give_xy": True, "give_z": False}
                net["points"].insert(0, q) if pl["first"] else net["points"].append(q)
                cl["obs"].insert(pl["pos"] % (len(cl["obs"]) + 1), {"t": "direction", "to": name, "sd": 10.0, "e": 0.0})
                ids.append(name)
                labels.append("planted.dir_only")
                continue
        if kind == "single":
            name = "Qs%d" % k
            newpt(name, pl["dx"], pl["dy"], True, False)
            ob = {"t": "distance", "to": name, "sd": 5.0, "e": 0.0}
            cls = [cl for cl in net["clusters"] if cl["k"] == "obs" and not cl.get("cov") and cl["from"] == pl["a"]]
            if cls:
                cls[0]["obs"].insert(pl["pos"] % (len(cls[0]["obs"]) + 1), ob)
            else:
                net["clusters"].insert(pl["pos"] % (len(net["clusters"]) + 1),
                                       {"k": "obs", "from": pl["a"], "from_dh": None, "orient": 0.0, "obs": [ob], "cov": None})
            ids.append(name)
            labels.append("planted.single")
        elif kind == "pair":
            n1, n2 = "Qp%da" % k, "Qp%db" % k
            newpt(n1, pl["dx"], pl["dy"], True, False)
            newpt(n2, pl["dx"] + 17.0, pl["dy"] - 9.0, True, False)
            net["clusters"].insert(pl["pos"] % (len(net["clusters"]) + 1),
                                   {"k": "obs", "from": n1, "from_dh": None, "orient": 0.0, "cov": None,
                                    "obs": [{"t": "distance", "to": n2, "sd": 5.0, "e": 0.0}]})
            ids += [n1, n2]
            labels.append("planted.pair")
        elif kind == "lev_pair":
            n1, n2 = "Ql%da" % k, "Ql%db" % k
            newpt(n1, pl["dx"], pl["dy"], False, True)
            newpt(n2, pl["dx"] + 17.0, pl["dy"] - 9.0, False, True)
            net["clusters"].insert(pl["pos"] % (len(net["clusters"]) + 1),
                                   {"k": "hdiff", "cov": None, "obs": [{"from": n1, "to": n2, "sd": 2.0, "dist": None, "e": 0.0}]})
            ids += [n1, n2]
            labels.append("planted.lev_pair")
    return net, ids, labels


def run_all(text):
    out = {}
    for alg in ALGS:
        res = netrun.gama_local(text, ["--algorithm", alg], outputs=("xml", "text"))
        out[alg] = res
    return out


def removed_in_text(txt):
    rows, lab, removed = __import__("vlib.props.c14", fromlist=["x"]).text_sections(txt or "")
    return removed


def parse(res):
    if res["crash"] is not None:
        return None, "crash: %s %s" % (res["crash"]["kind"], res["crash"]["frame"])
    try:
        return adjxml.parse_adjustment(res["xml"] or ""), None
    except adjxml.NotWellFormed as e:
        return None, "xml: %s" % e


def tolerant_compare(tag, x0, x1, stats, net):
    if "error" in x0 or "error" in x1:
        if ("error" in x0) != ("error" in x1):
            return ["%s.acceptance: %s vs %s" % (tag, x0.get("error"), x1.get("error"))]
        return []
    if x0["summary"]["iterations"] == x1["summary"]["iterations"]:
        return c10.compare(tag, x0, x1, stats)
    tolc = 2e-5
    P = nm.pmap(net)
    for cl in net["clusters"]:
        if cl["k"] == "obs":
            for o in cl["obs"]:
                if o["t"] == "z-angle" and (o.get("from_dh") or o.get("to_dh") or cl.get("from_dh")):
                    tolc = max(tolc, 2.0 * 1.571e-7 * nm.hdist(P[cl["from"]], P[o["to"]]))
    return c13.compare_results(tag, x0, x1, stats, tolc)


def oracle_planted(c, stats):
    net0 = c["net"]
    if net0.get("free"):
        if not well_posed_free(net0):
            stats.label("discarded_free_not_well_posed")
            return []
        stats.label("planted.free_base")
    elif not gen_net.is_determined(net0):
        stats.label("discarded_not_determined")
        return []
    TP = "planted_free" if net0.get("free") else "planted"
    net1, planted, labels = build_planted(c)
    for l in labels:
        stats.label(l)
    x0, err = parse(netrun.gama_local(nm.gkf_text(net0), ["--algorithm", "envelope"], outputs=("xml",)))
    if err:
        return ["base." + err]
    if "error" in x0:
        stats.label("base_refused")
        return []
    base_ids = set(a["id"] for k in ("fixed", "adjusted") for a in x0["coordinates"][k])
    if any(p["id"] not in base_ids for p in net0["points"]):
        stats.label("discarded_base_removes_points")
        return []
    text1 = nm.gkf_text(net1)
    fails = []
    runs = run_all(text1)
    X = {}
    for alg in ALGS:
        res = runs[alg]
        x, err = parse(res)
        if err:
            fails.append("%s.%s.%s" % (TP, alg, err))
            continue
        fails += finite_outputs("%s.%s" % (TP, alg), res)
        if "error" in x:
            if alg == "svd" and any("No convergence in SVD" in (d_ or "") for d_ in x["error"]["descriptions"]):
                # recorded finding: the QR iteration of the SVD stagnates on particular (measure-zero) matrices
                fails.append("%s.svd.no_convergence: the determined rest is not adjusted: %s" % (TP, x["error"]["descriptions"]))
            else:
                fails.append("%s.%s.refused: the determined rest is not adjusted: %s" % (TP, alg, x["error"]["descriptions"]))
            continue
        X[alg] = x
        got = set(a["id"] for k in ("fixed", "adjusted") for a in x["coordinates"][k])
        still = [q for q in planted if q in got]
        lost = sorted(base_ids - got)
        if still:
            fails.append("%s.%s.adjusted: indeterminable point(s) %s appear among the adjusted points" % (TP, alg, still))
        if lost:
            fails.append("%s.%s.lost: determined point(s) %s are missing from the results (planted: %s)" % (TP, alg, lost, planted))
        rem = removed_in_text(res.get("text"))
        miss = [q for q in planted if q not in rem]
        if miss:
            fails.append("%s.%s.not_reported: %s left out without being listed among the removed points %s" % (TP, alg, miss, sorted(rem)))
        if not still and not lost:
            fails += tolerant_compare("%s.%s.rest" % (TP, alg), x0, x, stats, net0)
    if TP == "planted_free" and fails:
        # known finding (algorithm dependent removal from ill-posed free networks): in a free network the first unknown a
        # solver flags may belong to a healthy point; everything except crashes and non-finite output is one symptom
        hard = [f for f in fails if ".crash" in f.split(":", 1)[0] or ".nonfinite" in f.split(":", 1)[0] or ".xml" in f.split(":", 1)[0]]
        soft = [f for f in fails if f not in hard]
        if soft:
            hard.append("planted_free.cascade: planted %s in a free network: %s" % (planted, " | ".join(x_[:160] for x_ in soft[:3])))
        return hard
    return fails



# ------------------------------------------------------------------ (c) free networks with deficient constraints

@st.composite
def free_case(draw):
    net = draw(gen_net.determined_network(noise=1, free=True, allow_cov=draw(st.booleans())))
    cons = [p for p in net["points"] if p["xy"] == "constr" or p["z"] == "constr"]
    mode = draw(st.sampled_from(["insufficient", "insufficient", "no_z", "no_xy", "one_xy_one_z", "keep"]))
    keep = draw(st.integers(0, max(0, len(cons) - 1)))
    return {"net": net, "mode": mode, "keep": keep, "which": draw(st.integers(0, 50))}


def reduce_constraints(c):
    net = copy.deepcopy(c["net"])
    cons = [p for p in net["points"] if p["xy"] == "constr" or p["z"] == "constr"]
    mode = c["mode"]
    if mode == "insufficient":
        # one constrained point only (1 or 2 or 3 coordinates)
        k = c["which"] % len(cons)
        for i, p in enumerate(cons):
            if i != k:
                if p["xy"] == "constr":
                    p["xy"] = "adj"
                if p["z"] == "constr":
                    p["z"] = "adj"
    elif mode == "no_z":
        for p in cons:
            if p["z"] == "constr" and p["xy"] == "constr":
                p["z"] = "adj"
    elif mode == "no_xy":
        for p in cons:
            if p["xy"] == "constr" and p["z"] == "constr":
                p["xy"] = "adj"
    elif mode == "one_xy_one_z":
        for i, p in enumerate(cons):
            if i == 0:
                if p["z"] == "constr" and p["xy"] == "constr":
                    p["z"] = "adj"
            else:
                if p["xy"] == "constr":
                    p["xy"] = "adj"
    return net


def datum_analysis(net):
    """-> (defect d, sigma_d of the null space restricted to the constrained coordinates | None when ambiguous)"""
    A, cols = gen_net.truth_jacobian(net)
    if A.shape[1] == 0:
        return None
    U, sv, Vt = np.linalg.svd(A, full_matrices=True)
    n = A.shape[1]
    s = np.zeros(n)
    s[:len(sv)] = sv
    smax = s.max() if n else 1.0
    r = int(np.sum(s > 1e-7 * smax))
    if r < n and r > 0 and not (s[r - 1] > 1e-3 * smax and (s[r:] < 1e-10 * smax).all()):
        return None                    # no clear gap
    if r == n and s[-1] < 1e-3 * smax:
        return None
    d = n - r
    if d == 0:
        return 0, None, 0
    G = Vt[r:, :].T                    # n x d
    S = [j for (pid, cname), j in cols.items() if pid != "orient" and
         any(p["id"] == pid and ((cname in ("E", "N") and p["xy"] == "constr") or (cname == "H" and p["z"] == "constr"))
             for p in net["points"])]
    if len(S) == 0:
        return d, "none", 0
    if len(S) < d:
        return d, 0.0, len(S)
    sg = np.linalg.svd(G[S, :], compute_uv=False)
    return d, float(sg[d - 1]), len(S)


def datum_defect(net):
    types = set(o["t"] for cl in net["clusters"] if cl["k"] == "obs" for o in cl["obs"])
    has_vec = any(cl["k"] == "vectors" for cl in net["clusters"])
    dd = 0
    if net["dims"] in ("2d", "3d"):
        dd += 2
        if "azimuth" not in types and not has_vec:
            dd += 1
        if not ({"distance", "s-distance"} & types) and not has_vec:
            dd += 1
    if net["dims"] in ("1d", "3d"):
        dd += 1
    return dd


def well_posed_free(net):
    """free network whose defect is the datum defect and whose constrained coordinates fix it"""
    an = datum_analysis(net)
    if an is None:
        return False
    d, sg, nS = an
    return d > 0 and d == datum_defect(net) and sg != "none" and sg >= 0.05


def icgs_unpivoted_defect(text):
    """Exact model of the recorded gso finding: ICGS orthogonalises the columns in their given order without pivoting and
    calls a column dependent when its residual is below the absolute 2.2e-11.  After a small but legitimate residual (1e-4:
    two nearly parallel columns that the later ones separate) the rounding residue of a truly dependent column is amplified
    above that tolerance and the defect comes out too small although the matrix has a clear numerical rank.
    -> (defect the model predicts for gso, defect by numpy's singular values with a clear gap) or None"""
    from .. import netlin
    dump, crash = netrun.net_driver(text, "svd")
    if crash is not None or not dump or dump.get("stage") != "adjusted":
        return None
    A, b, C, minx, R = netlin.reference(dump)
    if R is None or not R.resolving:
        return None
    try:
        L = np.linalg.cholesky(C)
        Ah = np.linalg.solve(L, A)
    except np.linalg.LinAlgError:
        return None
    Q = []
    dep = 0
    for k in range(Ah.shape[1]):
        pk = Ah[:, k].copy()
        for _ in range(2):
            r = [q @ pk for q in Q]
            for q, rj in zip(Q, r):
                pk = pk - q * rj
        rkk = float(np.linalg.norm(pk))
        if rkk > 2.220446049250313e-11:
            Q.append(pk / rkk)
        else:
            Q.append(pk)
            dep += 1
    return dep, R.d


def oracle_free(c, stats):
    net = reduce_constraints(c)
    an = datum_analysis(net)
    if an is None:
        stats.label("discarded_ambiguous")
        return []
    d, sg, nS = an
    if d == 0:
        stats.label("free.defect0")
        return []
    # datum defect of the observation types (as in C08); a larger defect is a configuration defect (e.g. a point
    # with a single determining element), which no choice of constrained coordinates makes determinable
    dd = datum_defect(net)
    config = d != dd
    if config:
        stats.label("free.configuration_defect")
        resolving = False
    elif sg == "none":
        stats.label("free.no_constraints")      # regularisation over all coordinates: a legitimate free network
        resolving = True
    elif sg >= 0.05:
        resolving = True
        stats.label("free.resolving")
    elif sg < 1e-9:
        resolving = False
        stats.label("free.insufficient" if nS < d else "free.nonspanning")
    else:
        stats.label("discarded_ambiguous")
        return []
    runs = run_all(nm.gkf_text(net))
    fails = []
    X = {}
    for alg in ALGS:
        res = runs[alg]
        x, err = parse(res)
        if err:
            fails.append("free.%s.%s" % (alg, err))
            continue
        # (ill-posed networks: non-finite numbers printed by envelope are part of the recorded finding on ill-posed free
        # networks and get a tag of their own; in a well-posed network they are a violation)
        fails += finite_outputs(("free.%s" if resolving or alg != "envelope" else "free.illposed.%s") % alg, res)
        X[alg] = x
    if fails:
        return fails
    all_groups = set((p["id"], g) for p in net["points"] for g in ("xy", "z") if p[g])
    outcome = {}
    for alg, x in X.items():
        if "error" in x:
            outcome[alg] = ("refused",)
        else:
            got = set()
            for k in ("fixed", "adjusted"):
                for a in x["coordinates"][k]:
                    if "x" in a:
                        got.add((a["id"], "xy"))
                    if "z" in a:
                        got.add((a["id"], "z"))
            outcome[alg] = ("adjusted", tuple(sorted(all_groups - got)))
    if not resolving:
        for alg, o in outcome.items():
            if o[0] == "adjusted" and not o[1] and not config:
                fails.append("free.%s.adjusted: defect %d, the %d constrained coordinates cannot fix the datum (sigma_d(G_S)=%.2g), "
                             "but an adjustment of the whole network is printed" % (alg, d, nS, sg))
        if all(o[0] == "refused" for o in outcome.values()):
            stats.label("free.refused")
    else:
        for alg, o in outcome.items():
            if o[0] == "refused":
                fails.append("free.%s.refused: defect %d is resolved by the constrained coordinates (sigma_d(G_S)=%s) but the network is refused: %s"
                             % (alg, d, sg, X[alg]["error"]["descriptions"]))
            elif o[1]:
                fails.append("free.%s.removed: well-posed free network, points %s removed" % (alg, list(o[1])))
    kinds = set(outcome.values())
    others = set(o for a, o in outcome.items() if a != "gso")
    if resolving and len(kinds) > 1 and len(others) == 1 and outcome.get("gso") not in others:
        # gso alone deviates on a well-posed network: the recorded finding only if its exact model predicts a smaller defect
        md = icgs_unpivoted_defect(nm.gkf_text(net))
        if md is not None and md[0] < md[1]:
            return ["free.gso.unpivoted_rank: gso finds defect %d, the matrix has defect %d with a clear gap (ICGS without pivoting, "
                    "absolute tolerance after a small legitimate pivot); outcome %s, the other algorithms %s"
                    % (md[0], md[1], outcome["gso"], list(others)[0])]
    if len(kinds) > 1:
        fails.append("free.%s.algorithms_differ: %s" % ("wellposed" if resolving else "illposed", {a: o for a, o in outcome.items()}))
    elif outcome and list(kinds)[0][0] == "adjusted":
        stats.label("free.adjusted_same_points")
        pf = []
        for alg in ALGS[1:]:
            pf += tolerant_compare("free.pair.envelope.%s" % alg, X["envelope"], X[alg], stats, net)
        if pf and all(".cov:" in f for f in pf):
            # only covariances differ, and only between envelope and the others: the recorded accuracy finding of the
            # envelope solver on free networks (C02 net.envelope_free) - if the other three agree among themselves
            rest = tolerant_compare("free.pair.gso.svd", X["gso"], X["svd"], stats, net) + \
                tolerant_compare("free.pair.gso.cholesky", X["gso"], X["cholesky"], stats, net)
            if not rest:
                pf = ["free.envelope_free.cov: covariances of envelope differ from gso / svd / cholesky, which agree: %s" % pf[0]]
        fails += pf
    return fails


PARTS = [
    Part("lindep", strategy=lambda: gen_linear.linear_problem(singular_only=True, minx_mode="nonres"),
         oracle=oracle_lindep, n={"quick": 1500, "thorough": 15000}),
    Part("lindep_large", strategy=lambda: gen_linear.graph_problem(singular_only=True, minx_mode="nonres"),
         oracle=oracle_lindep, n={"quick": 500, "thorough": 6000},
         sample=lambda c: {"m": c["m"], "n": c["n"], "d": c["d"], "minx": c["minx"]}),
    Part("lindep_res_large", strategy=lambda: gen_linear.graph_problem(singular_only=True),
         oracle=oracle_lindep, n={"quick": 500, "thorough": 6000},
         sample=lambda c: {"m": c["m"], "n": c["n"], "d": c["d"], "minx": c["minx"]}),
    Part("lindep_res", strategy=lambda: gen_linear.linear_problem(singular_only=True),
         oracle=oracle_lindep, n={"quick": 1500, "thorough": 15000}),
    Part("planted", strategy=planted_case, oracle=oracle_planted, n={"quick": 2000, "thorough": 8000},
         sample=lambda c: {"plants": c["plants"], "gkf": nm.gkf_text(c["net"])[:600]}),
    Part("free", strategy=free_case, oracle=oracle_free, n={"quick": 2000, "thorough": 8000},
         sample=lambda c: {"mode": c["mode"], "gkf": nm.gkf_text(c["net"])[:600]}),
]
