"""C09 - reported statistics are consistent with the adjustment they describe."""
import copy
import math

import numpy as np
from hypothesis import strategies as st
from scipy import stats as sps

from .. import gen_net, netmodel as nm, netrun, adjxml
from ..runner import Part

ALGS = ["envelope", "cholesky", "gso", "svd"]

RULE = ("Hypothesis generates noisy determined networks (recipes of C06, errors of about one sigma, banded covariances, all "
        "conventions) x sigma-act x conf-pr x sigma-apr x algorithm; every statistic of the XML result is recomputed: "
        "dof = equations - unknowns + defect, aposteriori = sqrt(v'Pv/dof), confidence scale = scipy normal/Student quantile, "
        "chi-square bounds and passed/failed, coordinate variances and error ellipses from the printed covariance matrix, "
        "standard deviations of adjusted observations = m0 * sqrt(a Q a') with Q from the library and a from the design matrix, "
        "qrr = 1/p - q_L and the standardised residual for uncorrelated observations. Metamorphic step: sigma-apr * k "
        "changes v'Pv by k^2 (and the a posteriori deviation by k) and nothing else. "
        "Non-trivial = every case (all fields recomputed); classes dof in {0,1,2}, apriori/aposteriori, correlated counted.")
ASSUMPTIONS = ["scipy.stats quantiles as reference with the tolerances of C17 (1e-6, 5e-4, 5e-3 relative)",
               "printed precision: 3 decimals for ratio/lower/upper/qrr/std-residual, 8 significant digits for the covariance matrix",
               "Q and the design matrix rows are taken from the driver running the same library code on the same input; "
               "they are cross-checked against the printed covariance matrix"]
REQUIRED_CLASSES = ["defect>0", "used=apriori", "used=aposteriori", "correlated", "dof=0", "dof>2"]


@st.composite
def case(draw):
    # one case in four is a free network (defect > 0, datum by constrained points): degrees of freedom include the defect
    free = draw(st.integers(0, 3)) == 0
    net = draw(gen_net.determined_network(noise=1, free=free))
    net["params"]["conf-pr"] = draw(st.sampled_from([0.95, 0.9, 0.99, 0.5, 0.999, 0.683, 0.05, 0.9995, 0.001]))
    net["params"]["sigma-apr"] = draw(st.sampled_from([0.5, 1, 2.5, 10, 10, 25, 50]))
    return {"net": net, "alg": draw(st.sampled_from(ALGS)), "k": draw(st.sampled_from([0.5, 2.0, 3.0, 10.0, 1e-4, 1e-3, 1e3]))}


def rel_close(a, b, rel, ab=0.0):
    return abs(a - b) <= rel * abs(b) + ab


def sds_of(net):
    """a priori standard deviation (cc / mm) per observation row, None for rows of correlated clusters"""
    out = []
    for ci, oi, comp, t in nm.flat_observations(net):
        cl = net["clusters"][ci]
        if cl.get("cov") is not None:
            C = np.array(cl["cov"]["C"])
            # position within the cluster
            pos = sum(1 for (c2, o2, k2, _) in nm.flat_observations(net) if c2 == ci and (o2, k2) < (oi, comp))
            band = cl["cov"]["band"]
            out.append((math.sqrt(C[pos, pos]), band > 0))
        else:
            out.append((cl["obs"][oi]["sd"], False))
    return out


def oracle(c, stats):
    net, alg = c["net"], c["alg"]
    if net.get("free"):
        from . import c20
        if not c20.well_posed_free(net):
            stats.label("discarded_free_not_well_posed")
            return []
    elif not gen_net.is_determined(net):
        stats.label("discarded_not_determined")
        return []
    gkf = nm.gkf_text(net)
    res = netrun.gama_local(gkf, ["--algorithm", alg])
    if res["crash"] is not None:
        return ["run.crash: %s %s" % (res["crash"]["kind"], res["crash"]["frame"])]
    try:
        x = adjxml.parse_adjustment(res["xml"] or "")
    except adjxml.NotWellFormed as e:
        return ["run.xml: %s" % e]
    if "error" in x:
        stats.label("refused")
        if net.get("free") and alg == "envelope":
            # known finding (C02): the envelope algorithm misjudges the rank of some well-posed free networks
            return ["run.error.envelope_free: well-posed free network refused by envelope: %s" % x["error"]["descriptions"]]
        return ["run.error: determined network refused: %s" % x["error"]["descriptions"]]
    dump, crash = netrun.net_driver(gkf, alg)
    if crash is not None:
        return ["driver.crash: %s %s" % (crash["kind"], crash["frame"])]
    if dump.get("stage") != "adjusted":
        return ["driver.stage: %s" % str(dump)[:200]]
    S = x["summary"]
    if net.get("free"):
        from . import c20
        dd = c20.datum_defect(net)
        if S["defect"] != dd:
            if alg == "envelope":
                return ["run.error.envelope_free: well-posed free network adjusted by envelope with defect %d instead of %d" % (S["defect"], dd)]
            return ["summary.defect: %d reported, datum defect %d" % (S["defect"], dd)]
    fails = []
    p = net["params"]
    m0apr = float(p["sigma-apr"])
    dof = S["dof"]
    stats.label("used=" + S["used"], "dof=%d" % dof if dof <= 2 else "dof>2")
    stats.label("defect>0" if S["defect"] > 0 else "defect=0")
    correlated = any(cl.get("cov") and cl["cov"]["band"] > 0 for cl in net["clusters"])
    if correlated:
        stats.label("correlated")
    # --- summary identities
    if dof != S["equations"] - S["unknowns"] + S["defect"]:
        fails.append("summary.dof: %d != %d - %d + %d" % (dof, S["equations"], S["unknowns"], S["defect"]))
    if not rel_close(S["apriori"], m0apr, 1e-7):
        fails.append("summary.apriori: %r vs input %r" % (S["apriori"], m0apr))
    apost = math.sqrt(S["sum_of_squares"] / dof) if dof > 0 else 0.0
    if not rel_close(S["aposteriori"], apost, 2e-7, 1e-12):
        fails.append("summary.aposteriori: %r, sqrt(v'Pv/dof) = %r" % (S["aposteriori"], apost))
    if S["used"] != p["sigma-act"]:
        fails.append("summary.used: %s, input sigma-act %s" % (S["used"], p["sigma-act"]))
    m0 = S["apriori"] if S["used"] == "apriori" else S["aposteriori"]
    prob = float(p["conf-pr"])
    a2 = (1 - prob) / 2
    if S["used"] == "apriori":
        cs = sps.norm.isf(a2)
        tol = 1e-6
    else:
        cs = sps.t.isf(a2, dof) if dof > 0 else 0.0
        tol = 5e-4
    if not rel_close(S["confidence_scale"], cs, tol, 1e-9):
        fails.append("summary.confidence_scale: %r, reference %r (used %s, dof %d, p %r)" % (S["confidence_scale"], cs, S["used"], dof, prob))
    if dof > 0:
        ratio = S["aposteriori"] / S["apriori"]
        if abs(S["ratio"] - ratio) > 6e-4 + 1e-6 * ratio:
            fails.append("summary.ratio: %r vs %r" % (S["ratio"], ratio))
        lo = math.sqrt(sps.chi2.isf(1 - a2, dof) / dof)
        up = math.sqrt(sps.chi2.isf(a2, dof) / dof)
        for name, got, ref in (("lower", S["lower"], lo), ("upper", S["upper"], up)):
            if abs(got - ref) > 6e-4 + 2.6e-3 * ref:       # sqrt halves the 5e-3 of the chi-square quantile
                fails.append("summary.%s: %r, reference %r (dof %d, p %r)" % (name, got, ref, dof, prob))
        margin = min(abs(ratio - lo), abs(ratio - up))
        if margin > 1e-3 + 3e-3 * max(lo, up):
            inside = lo < ratio < up
            if inside != S["passed"] or inside == S["failed"]:
                fails.append("summary.test: ratio %r in (%r, %r) is %s but passed=%s failed=%s" % (ratio, lo, up, inside, S["passed"], S["failed"]))
    # --- covariance matrix, coordinate stdev, ellipses (from the XML alone + Q of the library)
    Q = np.array(dump["qxx"], float)
    N = dump["N"]
    if "cov" in x and x["cov"]["dim"] > 0:
        M, used = adjxml.cov_band_matrix(x["cov"])
        idx = x.get("original_index", [])
        if len(idx) != x["cov"]["dim"]:
            fails.append("cov.original_index: %d indexes for dim %d" % (len(idx), x["cov"]["dim"]))
        elif used != len(x["cov"]["flt"]):
            fails.append("cov.count: %d elements printed, %d expected" % (len(x["cov"]["flt"]), used))
        else:
            ii = [i - 1 for i in idx]
            ref = m0 * m0 * Q[np.ix_(ii, ii)]
            band = x["cov"]["band"]
            dmax = 0.0
            for i in range(len(ii)):
                for j in range(i, min(len(ii), i + band + 1)):
                    t = 4e-7 * max(abs(ref[i, j]), math.sqrt(abs(ref[i, i] * ref[j, j]))) + 1e-12
                    dmax = max(dmax, abs(M[i, j] - ref[i, j]) / t)
            stats.ratio("cov", dmax)
            if dmax > 1:
                fails.append("cov.values: printed covariance differs from m0^2 Q (ratio %.3g)" % dmax)
            # ellipses
            pos = 0
            where = {}
            for a in x["coordinates"]["adjusted"]:
                if "x" in a:
                    where[a["id"]] = pos
                    pos += 2
                if "z" in a:
                    pos += 1
            if band >= 1 or len(ii) == 1:
                for e in x["ellipses"]:
                    k = where.get(e["id"])
                    if k is None:
                        fails.append("ellipse.unknown_point: %s" % e["id"])
                        continue
                    cxx, cyy, cxy = M[k, k], M[k + 1, k + 1], M[k, k + 1]
                    ev = np.linalg.eigvalsh(np.array([[cxx, cxy], [cxy, cyy]]))
                    a_ref, b_ref = math.sqrt(max(ev[1], 0)), math.sqrt(max(ev[0], 0))
                    sc = max(a_ref, 1e-9)
                    if abs(e["major"] - a_ref) > 1e-6 * sc + 1e-9 or abs(e["minor"] - b_ref) > 3e-4 * sc + 1e-9:
                        fails.append("ellipse.axes: %s printed (%.9g, %.9g), eigen-decomposition (%.9g, %.9g)" %
                                     (e["id"], e["major"], e["minor"], a_ref, b_ref))
                    if a_ref - b_ref > 1e-3 * sc:
                        # direction of the major axis: (cos alpha, sin alpha) in (x, y_internal); y_internal = y_sign*y
                        al = e["alpha"]
                        v = np.array([math.cos(al), math.sin(al)])   # same frame as the printed covariance
                        Cm = np.array([[cxx, cxy], [cxy, cyy]])
                        lam = float(v @ Cm @ v)
                        if abs(lam - ev[1]) > 1e-5 * ev[1] + 1e-12:
                            fails.append("ellipse.bearing: %s alpha %.9g does not point along the major axis (%.9g vs %.9g)" %
                                         (e["id"], al, lam, ev[1]))
    # --- observations
    sds = sds_of(net)
    obs_d = dump["obs"]
    if len(obs_d) != len(x["observations"]):
        fails.append("obs.count: %d in XML, %d in the library" % (len(x["observations"]), len(obs_d)))
    elif len(obs_d) == len(sds):
        for i, (ox, od) in enumerate(zip(x["observations"], obs_d)):
            a = np.zeros(N)
            for j, cf in zip(od["idx"], od["coef"]):
                a[j - 1] += cf
            qL = float(a @ Q @ a)
            sd_ref = m0 * math.sqrt(max(qL, 0.0))
            sd, corr = sds[i]
            tag = "corr" if corr else "uncorr"
            t = 1e-6 * max(sd_ref, 1e-6 * sd) + 1e-9
            stats.ratio("obs_stdev." + tag, abs(ox["stdev"] - sd_ref) / t)
            if abs(ox["stdev"] - sd_ref) > t:
                msg = ("obs.stdev.%s: %s %s->%s printed %.9g, m0*sqrt(a Q a') = %.9g" %
                       (tag, ox["tag"], ox.get("from", ox.get("id")), ox.get("to", ""), ox["stdev"], sd_ref))
                if corr:
                    # known finding (see known_findings.json): only this sub-assertion is affected,
                    # everything else of the case is still checked
                    if not any(f.startswith("obs.stdev.corr") for f in fails):
                        fails.append(msg)
                    continue
                fails.append(msg)
                break
            if not corr:
                qrr_ref = max((sd / m0apr) ** 2 - qL, 0.0)
                if abs(ox["qrr"] - qrr_ref) > 6e-4 + 1e-6 * qrr_ref:
                    fails.append("obs.qrr: %s printed %.6g, 1/p - q_L = %.6g" % (ox["tag"], ox["qrr"], qrr_ref))
                    break
                if "std-residual" in ox and qrr_ref > 1e-3 and m0 > 0:
                    v = od_resid(dump, i)
                    sr = abs(v) / (m0 * math.sqrt(qrr_ref))
                    if abs(ox["std-residual"] - sr) > 1e-3 + 2e-3 * sr:
                        fails.append("obs.std_residual: %s printed %.6g, |v|/(m0 sqrt(qrr)) = %.6g" % (ox["tag"], ox["std-residual"], sr))
                        break
    if any(not f.startswith("obs.stdev.corr") for f in fails):
        return fails
    # --- metamorphic: sigma-apr * k
    net2 = copy.deepcopy(net)
    net2["params"]["sigma-apr"] = m0apr * c["k"]
    res2 = netrun.gama_local(nm.gkf_text(net2), ["--algorithm", alg])
    if res2["crash"] is not None:
        return ["scaled.crash: %s %s" % (res2["crash"]["kind"], res2["crash"]["frame"])]
    try:
        x2 = adjxml.parse_adjustment(res2["xml"] or "")
    except adjxml.NotWellFormed as e:
        return ["scaled.xml: %s" % e]
    if "error" in x2:
        if net.get("free") and alg == "envelope":
            return ["run.error.envelope_free: well-posed free network refused by envelope after scaling sigma-apr: %s" % x2["error"]["descriptions"]]
        return ["scaled.error: %s" % x2["error"]["descriptions"]]
    k = c["k"]
    S2 = x2["summary"]
    # weights are (m0apr/sd)^2: v'Pv scales by k^2; documented factor
    if not rel_close(S2["sum_of_squares"], S["sum_of_squares"] * k * k, 1e-5, 1e-10):
        fails.append("scaled.sum_of_squares: %r vs %r * %g^2" % (S2["sum_of_squares"], S["sum_of_squares"], k))
    if not rel_close(S2["aposteriori"], S["aposteriori"] * k, 1e-5, 1e-10):
        fails.append("scaled.aposteriori: %r vs %r * %g" % (S2["aposteriori"], S["aposteriori"], k))
    if S2["dof"] != S["dof"] or S2["defect"] != S["defect"]:
        fails.append("scaled.dof: changed")
    for a1, a2_ in zip(x["coordinates"]["adjusted"], x2["coordinates"]["adjusted"]):
        for key in ("x", "y", "z"):
            if key in a1 and abs(a1[key] - a2_.get(key, 1e99)) > 1e-8:
                fails.append("scaled.coordinates: %s %s changed by %.3g" % (a1["id"], key, a1[key] - a2_.get(key, 1e99)))
    for o1, o2 in zip(x["observations"], x2["observations"]):
        if abs(o1["adj"] - o2["adj"]) > 1e-8:
            fails.append("scaled.adjusted_obs: %s changed" % o1["tag"])
            break
        if S["used"] == "aposteriori" and not rel_close(o2["stdev"], o1["stdev"], 1e-5, 1e-9):
            fails.append("scaled.obs_stdev: %r vs %r" % (o2["stdev"], o1["stdev"]))
            break
    return fails


def od_resid(dump, i):
    return dump["r"][i]


PARTS = [
    Part("statistics", strategy=case, oracle=oracle, n={"quick": 6000, "thorough": 30000},
         sample=lambda c: {"alg": c["alg"], "k": c["k"], "gkf": nm.gkf_text(c["net"])[:1200]}),
]
