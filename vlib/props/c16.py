"""C16 - sparse kernels (SparseMatrix, graph, RCM ordering, Envelope, BlockDiagonal, Homogenization)
equal their dense definitions."""
import numpy as np
import scipy.linalg
import scipy.sparse
import scipy.sparse.csgraph
from hypothesis import strategies as st

from .. import drv, gen_linear
from ..runner import Part

RULE = ("Part 'planted': rank-planted problems of gen_linear (n<=9, exact integer column dependencies, defect 0..3, zero "
        "columns, banded covariance blocks); part 'patterns': explicit sparsity shapes with m<=12, n<=10 - dense, banded, "
        "single column, block patterns with 2..3 components, empty rows, zero columns, one entry per row, arrow, random "
        "density, no columns - with unordered column indices inside a row and occasionally explicitly stored zeros; part "
        "'blocks': block-diagonal matrices of 1..6 blocks (dim 1..6, every band width) of which one may be indefinite or "
        "singular.  Every case runs ONE driver process: build/replicate/transpose/extend, Homogenization, graph and "
        "connected(), ReverseCuthillMcKee, Envelope::set (RCM or identity ordering, original or homogenised matrix), copy, "
        "cholDec, partial and full triangular solves, solve, inverse, Envelope(BlockDiagonal), BlockDiagonal "
        "replicate/cholDec; each answer is compared with numpy/scipy (dense A, A'A, permutation, LDL' with the same "
        "pivot rule, dense inverse, Cholesky per block, scipy connected_components).  Non-trivial = the column graph has "
        ">= 2 components, or the matrix is rank deficient, or a covariance block has band >= 1; distinct by sha1 of the case.")
ASSUMPTIONS = ["the graph of a sparse matrix is defined on stored elements (an explicitly stored zero is an edge)",
               "rank decisions are only judged when numpy finds every pivot of the reference LDL' outside (1e-11, 1e-5): "
               "Envelope::cholDec: first pivot dependent iff exactly zero, later pivots iff |d| <= sqrt(eps) * |diagonal element| (the rule in the code, relative since the pivot repair)",
               "the structure of the homogenised matrix is taken from the driver (exact zeros produced by cancellation are "
               "dropped by gama); its values are compared with inv(chol(C)) A",
               "covariance blocks given to Homogenization are positive definite (its caller checks that before)"]
REQUIRED_CLASSES = ["disconnected", "rank_deficient", "band>0", "empty_rows", "single_column", "dense", "banded",
                    "zero_columns", "defect=0", "bd_not_pd", "homogenised", "identity_ordering", "inverse_checked"]

EPS = 2.220446049250313e-16
PIVOT_TOL = float(np.sqrt(EPS))


def amax(a):
    a = np.asarray(a)
    return float(np.max(np.abs(a))) if a.size else 0.0


def tofloat(x):
    if x is None:
        return np.nan
    if isinstance(x, str):
        return {"nan": np.nan, "inf": np.inf, "-inf": -np.inf}[x]
    return float(x)


# ---------------------------------------------------------------------------------------------
# generators
# ---------------------------------------------------------------------------------------------

def rows_from_dense(A, scramble=True):
    rows = []
    for i, r in enumerate(A):
        nz = [[j + 1, float(v)] for j, v in enumerate(r) if v != 0.0]
        if scramble and i % 2:
            nz.reverse()
        rows.append(nz)
    return rows


@st.composite
def extras(draw, m, n):
    """right-hand sides and ranges for the solves, ordering, matrix choice"""
    rhs = [float(draw(st.integers(-9, 9))) for _ in range(n)]
    a = draw(st.integers(1, max(n, 1)))
    b = draw(st.integers(a, max(n, 1)))
    return {"rhs": rhs, "range": [a, b], "ordering": draw(st.sampled_from(["rcm", "rcm", "id"])),
            "use": draw(st.sampled_from(["H", "H", "A"])),
            "extend": [[draw(st.integers(1, n)), float(draw(st.integers(1, 9)))] for _ in range(draw(st.integers(0, 3)))] if n else []}


@st.composite
def planted(draw):
    c = draw(gen_linear.linear_problem(max_n=9, max_extra=6))
    case = {"m": c["m"], "n": c["n"], "rows": rows_from_dense(c["A"]), "b": c["b"], "blocks": c["blocks"],
            "d": c["d"], "shape": "planted"}
    case["x"] = draw(extras(c["m"], c["n"]))
    return case


@st.composite
def graph_cases(draw):
    """larger sparse patterns with the structure of real networks (gen_linear.graph_problem: up to 40 unknowns, several
    connected components in random numbering, floating components = exact rank defects, zero columns, blocks up to 10)"""
    c = draw(gen_linear.graph_problem(min_n=10, max_n=40))
    case = {"m": c["m"], "n": c["n"], "rows": rows_from_dense(c["A"]), "b": c["b"], "blocks": c["blocks"],
            "d": c["d"], "shape": "graph"}
    case["x"] = draw(extras(c["m"], c["n"]))
    return case


SHAPES = ["dense", "banded", "single_column", "components", "empty_rows", "zero_columns", "one_per_row", "arrow",
          "random", "random", "no_columns"]


@st.composite
def patterns(draw):
    shape = draw(st.sampled_from(SHAPES))
    m = draw(st.integers(1, 12))
    n = draw(st.integers(1, 10))
    if shape == "single_column":
        n = 1
    if shape == "no_columns":
        n = 0
    mask = np.zeros((m, n), dtype=bool)
    if shape in ("dense", "single_column"):
        mask[:] = True
    elif shape == "banded":
        w = draw(st.integers(0, 2))
        for i in range(m):
            c0 = (i * n) // m
            mask[i, max(0, c0 - w):min(n, c0 + w + 1)] = True
    elif shape == "components":
        k = draw(st.integers(2, 3))
        grp = [draw(st.integers(0, k - 1)) for _ in range(n)]
        for i in range(m):
            g = draw(st.integers(0, k - 1))
            for j in range(n):
                if grp[j] == g and draw(st.integers(0, 3)) > 0:
                    mask[i, j] = True
    elif shape == "one_per_row":
        for i in range(m):
            mask[i, draw(st.integers(0, n - 1))] = True
    elif shape == "arrow":
        hub = draw(st.integers(0, n - 1))
        for i in range(m):
            mask[i, hub] = True
            mask[i, draw(st.integers(0, n - 1))] = True
    elif shape != "no_columns":
        dens = draw(st.sampled_from([15, 30, 60, 90]))
        for i in range(m):
            for j in range(n):
                mask[i, j] = draw(st.integers(0, 99)) < dens
    if shape == "empty_rows" and n:
        for i in range(m):
            if draw(st.booleans()):
                mask[i, :] = False
    if shape == "zero_columns" and n:
        for j in range(n):
            if draw(st.integers(0, 2)) == 0:
                mask[:, j] = False
    half = draw(st.booleans())
    explicit_zero = draw(st.integers(0, 9)) == 0
    rows = []
    for i in range(m):
        r = []
        for j in range(n):
            if mask[i, j]:
                v = draw(st.integers(-6, 6))
                if v == 0 and not explicit_zero:
                    v = 3
                r.append([j + 1, v / 2.0 if half else float(v)])
        if len(r) > 1 and draw(st.booleans()):
            r = list(draw(st.permutations(r)))
        rows.append(r)
    b = [float(draw(st.integers(-20, 20))) for _ in range(m)]
    blocks = draw(gen_linear.blocks_for(m, unit=draw(st.integers(0, 3)) == 0))
    case = {"m": m, "n": n, "rows": rows, "b": b, "blocks": blocks, "d": None, "shape": shape}
    case["x"] = draw(extras(m, n))
    return case


@st.composite
def block_cases(draw):
    nb = draw(st.integers(1, 6))
    bad = draw(st.integers(0, nb)) if draw(st.booleans()) else 0      # 1-based index of a non positive definite block
    blocks = []
    for k in range(1, nb + 1):
        dim = draw(st.integers(1, 6))
        if k == bad:
            w = draw(st.integers(0, dim - 1))
            kind = draw(st.sampled_from(["indefinite", "negative", "singular", "zero"]))
            L = np.zeros((dim, dim))
            for i in range(dim):
                L[i, i] = draw(st.integers(1, 3))
                for j in range(max(0, i - w), i):
                    L[i, j] = draw(st.integers(-2, 2))
            p = draw(st.integers(0, dim - 1))
            D = np.ones(dim)
            D[p] = {"indefinite": -1.0, "negative": -2.0, "singular": 0.0, "zero": 0.0}[kind]
            C = (L * D) @ L.T
            if kind == "zero":
                C = np.zeros((dim, dim))
            blocks.append({"dim": dim, "width": w, "band": gen_linear.band_from_full(C, w), "bad": kind})
        else:
            blocks.append(draw(gen_linear.cov_block(dim)))
    m = sum(b["dim"] for b in blocks)
    case = {"m": m, "n": 1, "rows": [[[1, 1.0]] for _ in range(m)], "b": [1.0] * m, "blocks": blocks, "d": None,
            "shape": "blocks", "bad": bad}
    case["x"] = {"rhs": [1.0], "range": [1, 1], "ordering": "rcm", "use": "A", "extend": []}
    return case


# ---------------------------------------------------------------------------------------------
# reference
# ---------------------------------------------------------------------------------------------

def dense_of(rows, m, n):
    A = np.zeros((m, n))
    S = np.zeros((m, n), dtype=bool)
    for i, r in enumerate(rows):
        for c, v in r:
            A[i, c - 1] += tofloat(v)
            S[i, c - 1] = True
    return A, S


def ldl_ref(N):
    """dense LDL' with Envelope::cholDec's pivot rule -> d = 0 and the column of L is 0.
    Returns L, D, ambiguous (a pivot close to the threshold)"""
    n = N.shape[0]
    L = np.eye(n)
    D = np.zeros(n)
    amb = False
    for i in range(n):
        y = np.zeros(i)
        for j in range(i):
            y[j] = N[i, j] - L[j, :j] @ y[:j]
        x = np.where(D[:i] != 0, y / np.where(D[:i] != 0, D[:i], 1.0), 0.0)
        L[i, :i] = x
        d = N[i, i] - np.sum(x * x * D[:i])
        # the rule of Envelope::cholDec as it is now (relative since the pivot repair): the first pivot is dependent only
        # when it is exactly zero, a later one when |d| <= sqrt(eps) * |diagonal element|
        sc = abs(N[i, i])
        if i > 0 and sc > 0 and 1e-11 < abs(d) / sc < 1e-5:
            amb = True
        D[i] = 0.0 if (d == 0.0 if i == 0 else abs(d) <= PIVOT_TOL * sc) else d
    return L, D, amb


def env_arrays(e):
    """dump_env -> (D, LOW with NaN outside the profile, widths)"""
    n = e["dim"]
    D = np.array([tofloat(x) for x in e["diag"]], dtype=float)
    LOW = np.full((n, n), np.nan)
    for i, r in enumerate(e["low"]):
        for j, v in enumerate(r):
            LOW[i, j] = tofloat(v)
    return D, LOW, list(e["width"])


def profile_ok(e):
    """widths consistent with the nulls of element()"""
    n = e["dim"]
    for i in range(n):
        w = e["width"][i]
        for j in range(i):
            inside = j >= i - w
            if inside != (e["low"][i][j] is not None):
                return False
    return True


def script_of(case):
    out = ["problem %d %d" % (case["m"], case["n"])]
    for r in case["rows"]:
        out.append(" ".join([str(len(r))] + ["%d %r" % (c, float(v)) for c, v in r]))
    out.append(" ".join(repr(float(v)) for v in case["b"]))
    out.append(str(len(case["blocks"])))
    for b in case["blocks"]:
        out.append("%d %d %s" % (b["dim"], b["width"], " ".join(repr(float(v)) for v in b["band"])))
    out.append("-1")
    return out


def oracle(case, stats):
    m, n = case["m"], case["n"]
    x = case["x"]
    A, S = dense_of(case["rows"], m, n)
    C = gen_linear.cov_matrix(case)
    bad = case.get("bad", 0)
    cov_pd = not bad
    use_h = cov_pd and x["use"] == "H"
    cmds = ["sparse", "replicate", "transpose", "transpose2"]
    if x["extend"] or n:
        cols = sorted(set(c for c, _ in x["extend"]))
        ext = [[c, dict((cc, vv) for cc, vv in x["extend"])[c]] for c in cols]
    else:
        ext = []
    cmds.append("extend %d %s" % (len(ext), " ".join("%d %r" % (c, v) for c, v in ext)))
    if cov_pd:
        cmds.append("homog")
    cmds.append("use " + ("H" if use_h else "A"))
    cmds += ["graph", "rcm", "envelope" + (" id" if x["ordering"] == "id" else ""), "envcopy", "choldec"]
    a, b = x["range"]
    rng = x["rhs"][a - 1:b]
    if n:
        for s in ("lsolve", "dsolve"):
            cmds.append("%s %d %d %s" % (s, a, b, " ".join(repr(v) for v in rng)))
            cmds.append("%s 1 %d %s" % (s, n, " ".join(repr(v) for v in x["rhs"])))
        cmds.append("usolve %d %d %s" % (a, b, " ".join(repr(v) for v in x["rhs"])))
        cmds.append("usolve 1 %d %s" % (n, " ".join(repr(v) for v in x["rhs"])))
        cmds.append("solve " + " ".join(repr(v) for v in x["rhs"]))
    cmds += ["inverse", "inverse_self", "envcov", "bd", "bd_replicate", "bd_choldec"]
    answers, crash = drv.driver("gdrv_sp", "\n".join(script_of(case) + cmds) + "\n")
    stats.label("shape=" + case["shape"])
    if crash is not None:
        k = len(answers)
        pre = []
        if "rcm" in cmds and cmds.index("rcm") < k and "perm" in answers[cmds.index("rcm")]:
            o = answers[cmds.index("rcm")]        # a broken ordering explains a later crash: report it first
            if sorted(o["perm"]) != list(range(1, n + 1)):
                pre.append("rcm.perm: not a permutation of 1..%d: %s" % (n, o["perm"]))
            elif [o["invp"][p - 1] for p in o["perm"]] != list(range(1, n + 1)):
                pre.append("rcm.invp: invp %s is not the inverse of perm %s" % (o["invp"], o["perm"]))
        return pre + ["%s.crash: %s %s (shape %s)" % (cmds[k].split()[0] if k < len(cmds) else "exit", crash["kind"], crash["frame"], case["shape"])]
    if len(answers) != len(cmds):
        return ["harness.short: %d answers for %d commands" % (len(answers), len(cmds))]
    R = {}
    for c, ans in zip(cmds, answers):
        if "fatal" in ans:
            return ["harness.fatal: %s -> %s" % (c, ans)]
        if "exc" in ans:
            return ["%s.exception: %s" % (c.split()[0], str(ans)[:200])]
        R.setdefault(c.split()[0], []).append(ans)
    fails = []

    # ---- build / replicate / transpose ---------------------------------------------------------
    def same_rows(tag, d, rows, mm, nn, ordered=True):
        if d["m"] != mm or d["n"] != nn or d["nnz"] != sum(len(r) for r in rows) or d["check"] != 1:
            fails.append("%s: dimensions/nonzeroes %s" % (tag, {k: d[k] for k in ("m", "n", "nnz", "check")}))
            return
        for i, (got, want) in enumerate(zip(d["rows"], rows)):
            g = [(c, tofloat(v)) for c, v in got]
            w = [(c, float(v)) for c, v in want]
            if (g != w) if ordered else (sorted(g) != sorted(w)):
                fails.append("%s: row %d is %s, expected %s" % (tag, i + 1, g, w))
                return
    same_rows("sparse.entries", R["sparse"][0], case["rows"], m, n)
    same_rows("replicate.entries", R["replicate"][0], case["rows"], m, n)
    trows = [[] for _ in range(n)]
    for i, r in enumerate(case["rows"]):
        for c, v in r:
            trows[c - 1].append([i + 1, v])
    same_rows("transpose.entries", R["transpose"][0], trows, n, m)
    same_rows("transpose2.entries", R["transpose2"][0], case["rows"], m, n, ordered=False)
    same_rows("extend.entries", R["extend"][0], case["rows"] + [ext], m + 1, n)
    if any(len(r) == 0 for r in case["rows"]):
        stats.label("empty_rows")
    if n == 1:
        stats.label("single_column")
    if n and S.all():
        stats.label("dense")
    if case["shape"] == "banded":
        stats.label("banded")
    if n and (~S.any(axis=0)).any():
        stats.label("zero_columns")
    if any(tofloat(v) == 0.0 for r in case["rows"] for _, v in r):
        stats.label("explicit_zero")
    if any(bl["width"] > 0 for bl in case["blocks"]):
        stats.label("band>0")

    # ---- homogenisation ------------------------------------------------------------------------
    Acur, Scur = A, S
    if cov_pd:
        h = R["homog"][0]
        Lc = np.linalg.cholesky(C)
        kc = float(np.linalg.cond(C))
        Href = scipy.linalg.solve_triangular(Lc, A, lower=True) if n else np.zeros((m, 0))
        bref = scipy.linalg.solve_triangular(Lc, np.array(case["b"], dtype=float), lower=True)
        H, SH = dense_of(h["mat"]["rows"], m, n)
        if h["mat"]["m"] != m or h["mat"]["n"] != n or h["mat"]["check"] != 1:
            fails.append("homog.dims: %s" % {k: h["mat"][k] for k in ("m", "n", "nnz", "check")})
        else:
            tol = 100 * m * EPS * kc * max(amax(Href), 1.0)
            e = amax(H - Href)
            if e <= tol:
                stats.ratio("homog.mat", e / tol)
            else:
                fails.append("homog.mat: |mat() - inv(chol(C)) A| = %.3g, tolerance %.3g" % (e, tol))
            hb = np.array([tofloat(v) for v in h["rhs"]], dtype=float)
            tol = 100 * m * EPS * kc * max(amax(bref), 1.0)
            e = amax(hb - bref) if hb.shape == bref.shape else np.inf
            if e <= tol:
                stats.ratio("homog.rhs", e / tol)
            else:
                fails.append("homog.rhs: |rhs() - inv(chol(C)) b| = %.3g, tolerance %.3g" % (e, tol))
            for r in h["mat"]["rows"]:
                cs = [c for c, _ in r]
                if len(cs) != len(set(cs)):
                    fails.append("homog.duplicate: a row of mat() holds a column twice: %s" % cs)
                    break
        if use_h:
            Acur, Scur = H, SH
            stats.label("homogenised")
    if fails:
        return fails

    # ---- graph, connectivity, ordering -----------------------------------------------------------
    g = R["graph"][0]
    adj = (Scur.T.astype(int) @ Scur.astype(int)) > 0 if n else np.zeros((0, 0), dtype=bool)
    if n:
        np.fill_diagonal(adj, False)
    want = [[j + 1 for j in range(n) if adj[i, j]] for i in range(n)]
    if g["nodes"] != n or g["adj"] != want or g["degree"] != [len(w) for w in want]:
        fails.append("graph.adjacency: %s, expected %s" % (str(g["adj"])[:200], str(want)[:200]))
    ncomp = scipy.sparse.csgraph.connected_components(scipy.sparse.csr_matrix(adj.astype(int)), directed=False)[0] if n else 0
    conn = ncomp <= 1
    stats.label("connected" if conn else "disconnected", "components=%d" % min(ncomp, 4))
    if bool(g["connected"]) != conn:
        fails.append("graph.connected: connected() = %s with %d components (n=%d)" % (g["connected"], ncomp, n))
    for tag, o in (("rcm", R["rcm"][0]), ("envelope.ordering", R["envelope"][0])):
        perm, invp = o["perm"], o["invp"]
        if sorted(perm) != list(range(1, n + 1)):
            fails.append("%s.perm: not a permutation of 1..%d: %s" % (tag, n, perm))
        elif [invp[p - 1] for p in perm] != list(range(1, n + 1)) or sorted(invp) != list(range(1, n + 1)):
            fails.append("%s.invp: invp %s is not the inverse of perm %s" % (tag, invp, perm))
    if x["ordering"] == "id":
        stats.label("identity_ordering")
        if R["envelope"][0]["perm"] != list(range(1, n + 1)):
            fails.append("harness.identity: %s" % R["envelope"][0]["perm"])
    elif R["envelope"][0]["perm"] != R["rcm"][0]["perm"]:
        fails.append("rcm.deterministic: two orderings of the same graph differ")
    if fails:
        return fails

    # ---- envelope: P N P' inside the profile, profile holds every non-zero ---------------------------
    perm = np.array(R["envelope"][0]["perm"], dtype=int) - 1
    e0 = R["envelope"][0]["env"]
    N = Acur.T @ Acur
    Np = N[np.ix_(perm, perm)] if n else N
    adjp = adj[np.ix_(perm, perm)] if n else adj
    D0, LOW0, W0 = env_arrays(e0)
    if e0["dim"] != n or not profile_ok(e0) or e0["sym"] != 1:
        fails.append("envelope.profile: widths %s inconsistent with element()" % W0)
        return fails
    inside = ~np.isnan(LOW0)
    low = np.tril(np.ones((n, n), dtype=bool), -1)
    if (adjp & low & ~inside).any():
        i, j = np.argwhere(adjp & low & ~inside)[0]
        fails.append("envelope.profile: non-zero (%d,%d) of P N P' lies outside the profile (widths %s)" % (i + 1, j + 1, W0))
        return fails
    tolN = 64 * EPS * (m + 2) * (np.abs(Acur).T @ np.abs(Acur))[np.ix_(perm, perm)] + 1e-300 if n else np.zeros((0, 0))
    err = np.where(inside, np.abs(np.where(inside, LOW0, 0.0) - Np), 0.0)
    errd = np.abs(D0 - np.diag(Np)) if n else np.zeros(0)
    if n:
        rat = max(float(np.max(err / tolN)), float(np.max(errd / np.diag(tolN))))
        if rat <= 1:
            stats.ratio("envelope.set", rat)
        else:
            fails.append("envelope.set: differs from P N P' (worst error/tolerance %.3g)" % rat)
    cp = R["envcopy"][0]
    if cp["ctor"] != e0 or cp["assign"] != e0:
        fails.append("envelope.copy: copy constructor / assignment changed the contents")
    if fails:
        return fails

    # ---- cholDec -------------------------------------------------------------------------------------
    e1 = R["choldec"][0]
    D1, LOW1, W1 = env_arrays(e1)
    if W1 != W0 or e1["dim"] != n:
        fails.append("choldec.profile: profile changed")
        return fails
    Lg = np.where(np.isnan(LOW1), 0.0, LOW1) + np.eye(n)
    Lr, Dr, amb = ldl_ref(Np)
    rank = int(np.linalg.matrix_rank(Acur)) if n and m else 0
    sv = np.linalg.svd(Acur, compute_uv=False) if n and m else np.zeros(0)
    planted_ok = True
    if sv.size and sv[0] > 0:
        rel = sv / sv[0]
        planted_ok = bool(np.all((rel > 1e-4) | (rel < 1e-12)))
        rank = int(np.sum(rel > 1e-4))
    if amb or not planted_ok:
        stats.label("rank_ambiguous")
    else:
        dep_ref = Dr == 0
        defect = n - rank
        stats.label("defect=%d" % min(defect, 4))
        if defect:
            stats.label("rank_deficient")
        if e1["defect"] != defect or int(np.sum(D1 == 0)) != defect:
            fails.append("choldec.defect: defect %d with %d exact zero pivots, rank is %d of %d" %
                         (e1["defect"], int(np.sum(D1 == 0)), rank, n))
        elif not np.array_equal(D1 == 0, dep_ref):
            fails.append("choldec.pivots: zero pivots at %s, dense LDL' has them at %s" %
                         (np.flatnonzero(D1 == 0).tolist(), np.flatnonzero(dep_ref).tolist()))
        else:
            ind = ~dep_ref
            kap = float(np.linalg.cond(Np[np.ix_(ind, ind)])) if ind.any() else 1.0
            # backward: L D L' reproduces P N P'
            tol = 100 * (n + 1) * EPS * max(amax(Np), 1e-300) * (n + 1) * max(1.0, amax(Lg)) ** 2
            e = amax((Lg * D1) @ Lg.T - Np)
            if e <= tol:
                stats.ratio("choldec.reproduce", e / tol)
            else:
                fails.append("choldec.reproduce: |L D L' - P N P'| = %.3g, tolerance %.3g" % (e, tol))
            # forward: equal to the dense factorisation, zero outside the profile in the dense one too
            tol = 1000 * (n + 1) * EPS * kap
            if amax(np.where(np.isnan(LOW1) & low, Lr, 0.0)) > tol * max(1.0, amax(Lr)):
                fails.append("choldec.fill: dense L has entries outside the profile")
            e = max(amax(np.where(inside, Lg - Lr, 0.0)) / max(1.0, amax(Lr)), amax(D1 - Dr) / max(amax(Dr), 1e-300))
            if e <= tol:
                stats.ratio("choldec.dense", e / tol)
            else:
                fails.append("choldec.dense: factors differ from the dense LDL' by %.3g (relative), tolerance %.3g, cond %.3g" % (e, tol, kap))
    if fails:
        return fails

    # ---- solves (with gama's own factors as the triangular matrices) -----------------------------------
    if n:
        rhs = np.array(x["rhs"], dtype=float)
        for (name, ranges) in (("lsolve", 0), ("dsolve", 1), ("usolve", 2)):
            for k, (s0, s1) in enumerate(((a, b), (1, n))):
                got = np.array([tofloat(v) for v in R[name][k]["v"]], dtype=float)
                v = rhs[s0 - 1:s1]
                Ls = Lg[s0 - 1:s1, s0 - 1:s1]
                if name == "lsolve":
                    ref = scipy.linalg.solve_triangular(Ls, v, lower=True, unit_diagonal=True)
                    kl = float(np.linalg.cond(Ls))
                elif name == "usolve":
                    # rows s1..s0 of the unit upper triangular L' are eliminated from the FULL vector
                    ref = rhs.copy()
                    for r in range(s1 - 1, s0 - 2, -1):
                        ref[:r] -= ref[r] * Lg[r, :r]
                    kl = float(np.linalg.cond(Ls))
                else:
                    d = D1[s0 - 1:s1]
                    ref = np.where(d != 0, v / np.where(d != 0, d, 1.0), 0.0)
                    kl = 1.0
                tol = 100 * (n + 1) * EPS * kl * max(amax(ref), 1e-300) + 1e-300
                e = amax(got - ref) if got.shape == ref.shape and np.all(np.isfinite(got)) else np.inf
                if e <= tol:
                    stats.ratio("solve." + name, e / tol)
                else:
                    fails.append("%s.value: rows %d..%d differ from the dense triangular solve by %.3g, tolerance %.3g" %
                                 (name, s0, s1, e, tol))
        if not amb and planted_ok and not (D1 == 0).any():
            kap = float(np.linalg.cond(Np))
            ref = np.linalg.solve(Np, rhs)
            got = np.array([tofloat(v) for v in R["solve"][0]["v"]], dtype=float)
            tol = 1000 * (n + 1) * EPS * kap * max(amax(ref), 1e-300)
            e = amax(got - ref) if np.all(np.isfinite(got)) else np.inf
            stats.label("solve_checked")
            if e <= tol:
                stats.ratio("solve.full", e / tol)
            else:
                fails.append("solve.value: differs from the dense solve by %.3g, tolerance %.3g (cond %.3g)" % (e, tol, kap))

    # ---- sparse inverse --------------------------------------------------------------------------------
    for name in ("inverse", "inverse_self"):
        q = R[name][0]
        Dq, LOWq, Wq = env_arrays(q)
        if q["dim"] != n or Wq != W0 or not profile_ok(q):
            fails.append("%s.profile: profile of the inverse %s differs from %s" % (name, Wq, W0))
            continue
        if amb or not planted_ok:
            continue
        ind = D1 != 0
        Z = np.zeros((n, n))
        kap = 1.0
        if ind.any():
            sub = Np[np.ix_(ind, ind)]
            kap = float(np.linalg.cond(sub))
            Z[np.ix_(ind, ind)] = np.linalg.inv(sub)
        tol = 1000 * (n + 1) * EPS * kap * max(amax(Z), 1e-300) + 1e-300
        Zg = np.where(np.isnan(LOWq), 0.0, LOWq)
        e = max(amax(np.where(inside, Zg - Z, 0.0)), amax(Dq - np.diag(Z)) if n else 0.0)
        if not (np.all(np.isfinite(Dq)) and np.all(np.isfinite(Zg))):
            e = np.inf
        stats.label("inverse_checked")
        if e <= tol:
            stats.ratio("inverse", e / tol)
        else:
            fails.append("%s.value: differs from the dense inverse on the profile by %.3g, tolerance %.3g (cond %.3g, defect %d)" %
                         (name, e, tol, kap, int(np.sum(~ind))))

    # ---- block diagonal ----------------------------------------------------------------------------------
    fails += check_blocks(case, R, stats, C)
    return fails


def check_blocks(case, R, stats, C):
    fails = []
    blocks = case["blocks"]
    m = case["m"]
    for name in ("bd", "bd_replicate"):
        d = R[name][0]
        if d["blocks"] != len(blocks) or d["dim"] != m or d["nnz"] != sum(len(b["band"]) for b in blocks):
            fails.append("%s.dims: %s" % (name, {k: d[k] for k in ("blocks", "dim", "nnz")}))
            continue
        for k, (g, w) in enumerate(zip(d["b"], blocks)):
            if g["dim"] != w["dim"] or g["width"] != w["width"] or [tofloat(v) for v in g["v"]] != [float(v) for v in w["band"]]:
                fails.append("%s.entries: block %d differs" % (name, k + 1))
                break
    # Envelope(BlockDiagonal): the band of every block is the profile, values are the covariances
    ec = R["envcov"][0]
    Dc, LOWc, Wc = env_arrays(ec)
    wantw = []
    for b in blocks:
        wantw += [min(i, b["width"]) for i in range(b["dim"])]
    # (not part of the property statement and unused inside gama: counted, not judged.  For band >= 2
    # Envelope::set(BlockDiagonal) reads the upper-band-by-rows storage as if it were lower-band-by-rows)
    if ec["dim"] != m or Wc != wantw or not profile_ok(ec):
        stats.label("observed:envcov_profile_differs")
    else:
        ins = ~np.isnan(LOWc)
        if not (np.array_equal(Dc, np.diag(C)) and np.array_equal(LOWc[ins], C[ins])):
            stats.label("observed:envcov_entries_differ")
    # cholDec
    ch = R["bd_choldec"][0]
    first_bad = 0
    ambiguous = False
    refs = []
    for k, b in enumerate(blocks):
        Ck = gen_linear.full_from_band(b["dim"], b["width"], b["band"])
        ev = np.linalg.eigvalsh(Ck)
        mx = max(abs(ev[0]), abs(ev[-1]), 1e-300)
        if ev[0] > 1e-8 * mx:
            refs.append((Ck, np.linalg.cholesky(Ck).T, float(ev[-1] / ev[0])))
            continue
        if ev[0] > -1e-8 * mx and amax(Ck) > 0 and b.get("bad") not in ("singular", "zero"):
            ambiguous = True
        first_bad = k + 1
        break
    if first_bad:
        stats.label("bd_not_pd")
    else:
        stats.label("bd_pd")
    if ambiguous:
        stats.label("bd_ambiguous")
        return fails
    if ch["rc"] != first_bad:
        fails.append("bd_choldec.rc: cholDec() returned %d, first non positive definite block is %d" % (ch["rc"], first_bad))
        return fails
    for k, (Ck, U, kap) in enumerate(refs):
        b = blocks[k]
        got = np.array([tofloat(v) for v in ch["bd"]["b"][k]["v"]], dtype=float)
        ref = np.array(gen_linear.band_from_full(U, b["width"]), dtype=float)
        tol = 100 * (b["dim"] + 1) * EPS * kap * max(amax(ref), 1e-300)
        e = amax(got - ref) if got.shape == ref.shape and np.all(np.isfinite(got)) else np.inf
        if e <= tol:
            stats.ratio("bd_choldec", e / tol)
        else:
            fails.append("bd_choldec.value: block %d differs from numpy's Cholesky factor by %.3g, tolerance %.3g" % (k + 1, e, tol))
            break
    return fails


def nontrivial(case):
    m, n = case["m"], case["n"]
    if any(b["width"] >= 1 for b in case["blocks"]):
        return True
    A, S = dense_of(case["rows"], m, n)
    if n == 0:
        return False
    adj = (S.T.astype(int) @ S.astype(int)) > 0
    if scipy.sparse.csgraph.connected_components(scipy.sparse.csr_matrix(adj.astype(int)), directed=False)[0] >= 2:
        return True
    return bool(np.linalg.matrix_rank(A) < n)


def sample(case):
    return {k: case[k] for k in ("m", "n", "rows", "blocks", "shape", "d")}


PARTS = [
    Part("planted", strategy=planted, oracle=oracle, nontrivial=nontrivial, n={"quick": 1200, "thorough": 30000}, sample=sample),
    Part("patterns", strategy=patterns, oracle=oracle, nontrivial=nontrivial, n={"quick": 1600, "thorough": 40000}, sample=sample),
    Part("graphs", strategy=graph_cases, oracle=oracle, nontrivial=nontrivial, n={"quick": 400, "thorough": 6000}, sample=sample),
    Part("blocks", strategy=block_cases, oracle=oracle, nontrivial=nontrivial, n={"quick": 600, "thorough": 10000}, sample=sample),
]
