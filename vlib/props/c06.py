"""C06 - consistent observations reproduce the network they were derived from."""
import copy

import math

import numpy as np
from hypothesis import strategies as st

from .. import gen_net, netmodel as nm, netrun, adjxml
from ..runner import Part

ALGS = ["envelope", "cholesky", "gso", "svd"]

RULE = ("Hypothesis builds geometrically determined 1D/2D/3D networks by recipes (polar, traverse leg, intersection, "
        "trilateration, azimuth+distance, observed coordinates, vectors, levelling, trigonometric heights; redundant "
        "observations of every type; optional banded covariances; all axes/angle conventions; gon/degree input; national-grid "
        "offsets) with ERROR-FREE observations computed from the truth; approximate coordinates of the unknown points are "
        "exact, perturbed (<= 2 cm or <= 0.5 m) or omitted where the documented strategy resolves them; the real gama-local is "
        "run with a generated algorithm and the XML result read by my own reader: every unknown point adjusted to the truth, "
        "every residual ~ 0, no observation lost. Augmentation: the same network plus further consistent observations. "
        "Non-trivial = approximate coordinates perturbed or omitted, or instrument heights attached; distinct by sha1.")
ASSUMPTIONS = ["numpy confirms full column rank of the truth Jacobian before a case counts as 'determined'",
               "approximate coordinates are omitted only for points reached by outer bearing + distance, bearing intersection, "
               "distances, azimuth + distance (doc/gama-local-adj.texi 'Approximate coordinates') or observed coordinates / a vector or "
               "height difference from a point with given coordinates",
               "tolerances: 1e-5 m on coordinates (20*delta^2/d_min second-order allowance for the 0.5 m class), 0.01 mm / 0.1 cc on residuals"]
REQUIRED_CLASSES = ["approx=exact", "approx=small", "approx=big", "approx=omit", "dims=2d", "dims=3d", "dims=1d", "with_dh", "steep_terrain", "pure_survey.polar3d", "pure_survey.intersection", "pure_survey.trilateration", "pure_survey.traverse"]

XY_OMIT_OK = {"polar", "intersection", "trilateration", "traverse", "azdist", "coords", "polar3d"}


def trilateration_resolvable(net, p):
    """distances to (nearly) collinear stations leave the mirror image: no unique approximate position.  Only stations
    that are determined before this point count (points are listed in the order of their construction; a distance from a
    later point was derived from this one); every triple of them must span a proper triangle."""
    P0 = nm.pmap(net)
    sts = [cl["from"] if o["to"] == p["id"] else o["to"] for cl in net["clusters"] if cl["k"] == "obs"
           for o in cl["obs"] if o["t"] == "distance" and (o["to"] == p["id"] or cl["from"] == p["id"])]
    ids = [q["id"] for q in net["points"]]
    earlier = ids[:ids.index(p["id"])]
    sts = [q for q in dict.fromkeys(sts) if q != p["id"] and q in earlier]
    ok = len(sts) >= 3
    for i1 in range(len(sts)):
        for i2 in range(i1 + 1, len(sts)):
            for i3 in range(i2 + 1, len(sts)):
                (x1, y1), (x2, y2), (x3, y3) = [(P0[q]["E"], P0[q]["N"]) for q in (sts[i1], sts[i2], sts[i3])]
                area = abs((x2 - x1) * (y3 - y1) - (x3 - x1) * (y2 - y1))
                size = max(math.hypot(x2 - x1, y2 - y1), math.hypot(x3 - x1, y3 - y1), math.hypot(x3 - x2, y3 - y2))
                ok = ok and area > 0.1 * size * size
    return ok


@st.composite
def case(draw):
    pure = draw(st.integers(0, 5)) == 0
    if pure:
        # a survey of one kind without redundant observations of other kinds (e.g. a pure total-station survey:
        # direction + slope distance + zenith angle): the approximate coordinates can only come from the one algorithm
        # made for it, nothing else covers up for it
        kind = draw(st.sampled_from(["polar3d", "polar3d", "polar", "intersection", "trilateration", "traverse", "azdist", "vector"]))
        net = draw(gen_net.determined_network(noise=0, dims="3d" if kind in ("polar3d", "vector") else draw(st.sampled_from(["2d", "3d"])),
                                              only_recipe=kind))
        net["pure_polar3d"] = kind
    else:
        net = draw(gen_net.determined_network(noise=0))
    mode = draw(st.sampled_from(["exact", "small", "big", "omit", "omit"] if not pure else ["omit"]))
    omit_all = pure and draw(st.booleans())      # a survey computed from scratch: no approximate position at all
    alg = draw(st.sampled_from(ALGS))
    given_ids = set(p["id"] for p in net["points"] if p.get("xy") == "fix" or p.get("z") == "fix")
    resolved = set(given_ids)
    for p in net["points"]:
        if p.get("recipe") is None:
            continue
        rxy, rz = p["recipe"]
        if mode == "small":
            d = 0.02
        elif mode == "big":
            d = 0.5
        else:
            d = 0.0
        if d:
            p["dE"] = draw(st.integers(-100, 100)) / 100.0 * d
            p["dN"] = draw(st.integers(-100, 100)) / 100.0 * d
            p["dH"] = draw(st.integers(-100, 100)) / 100.0 * d
        if mode == "omit":
            if p["xy"] == "adj" and (omit_all or draw(st.booleans())):
                ok = rxy in XY_OMIT_OK
                if rxy == "trilateration":
                    ok = trilateration_resolvable(net, p)
                if rxy == "vector":
                    ok = any(v["to"] == p["id"] and v["from"] in given_ids
                             for cl in net["clusters"] if cl["k"] == "vectors" for v in cl["obs"])
                if ok:
                    p["give_xy"] = False
            if p["z"] == "adj" and draw(st.booleans()):
                ok = False
                if rz == "dh" or rz is None:
                    ok = any((h["to"] == p["id"] and h["from"] in given_ids) or (h["from"] == p["id"] and h["to"] in given_ids)
                             for cl in net["clusters"] if cl["k"] == "hdiff" for h in cl["obs"])
                if rz == "coords" or (rxy == "coords" and rz is None):
                    ok = True
                if rz == "trig" or rxy == "polar3d":
                    # height from a zenith angle observed at a point of known height (AcordZderived)
                    ok = ok or any(o["t"] == "z-angle" and o["to"] == p["id"] and cl["from"] in given_ids
                                   for cl in net["clusters"] if cl["k"] == "obs" for o in cl["obs"])
                if rxy == "vector" or rz == "vector":
                    ok = ok or any(v["to"] == p["id"] and v["from"] in given_ids
                                   for cl in net["clusters"] if cl["k"] == "vectors" for v in cl["obs"])
                if ok:
                    p["give_z"] = False
    if mode == "big":
        # approximate coordinates that far off produce absolute terms above the default tol-abs
        net["params"]["tol-abs"] = 10000
    aug = draw(st.booleans())
    return {"net": net, "mode": mode, "alg": alg, "augment": aug,
            "extra": draw(st.integers(0, 10 ** 6))}


def min_sight(net):
    P = nm.pmap(net)
    d = 1e9
    ids = list(P)
    for i in range(len(ids)):
        for j in range(i + 1, len(ids)):
            d = min(d, nm.hdist(P[ids[i]], P[ids[j]]))
    return d


def local_system_constant_points(net):
    """ids of points whose approximate position computed by gama lies at 1000.000 m from another point of the network
    while the true distance is a different one: the signature of the recorded finding (solve_insertion places a point of a
    local system without any distance at const_distance = 1000 m and the result is taken for real)"""
    dump, crash = netrun.net_driver(nm.gkf_text(net), "gso", "lin")
    if crash is not None or not dump or "points" not in dump:
        return set()
    truth = nm.pmap(net)
    pts = [q for q in dump["points"] if q.get("has_xy")]
    out = set()
    for a in pts:
        for b in pts:
            if a["id"] == b["id"] or a["id"] not in truth or b["id"] not in truth:
                continue
            d0 = math.hypot(a["x0"] - b["x0"], a["y0"] - b["y0"])
            dt = nm.hdist(truth[a["id"]], truth[b["id"]])
            if abs(d0 - 1000.0) < 1e-6 and abs(dt - 1000.0) > 0.5:
                out.add(a["id"]); out.add(b["id"])
    return out


def check_result(tag, net, res, mode, stats):
    fails = []
    if res["crash"] is not None:
        return ["%s.crash: %s %s" % (tag, res["crash"]["kind"], res["crash"]["frame"])]
    try:
        x = adjxml.parse_adjustment(res["xml"] or "")
    except adjxml.NotWellFormed as e:
        return ["%s.xml: %s" % (tag, e)]
    if "error" in x:
        return ["%s.error: a determined consistent network was refused: %s" % (tag, x["error"]["descriptions"])]
    truth = nm.pmap(net)
    adj = {a["id"]: a for a in x["coordinates"]["adjusted"]}
    # gama iterates until the positional linearisation error of distances, directions, angles and
    # slope distances is below 0.0005 mm; zenith angles and azimuths are not part of that test,
    # so a second-order term delta^2/d of the perturbation may remain when they are present
    delta = max([0.0] + [float(np.linalg.norm([p.get("dE", 0.0), p.get("dN", 0.0), p.get("dH", 0.0)]))
                         for p in net["points"]])
    untested = any(o["t"] in ("z-angle", "azimuth") for cl in net["clusters"] if cl["k"] == "obs" for o in cl["obs"])
    tolc = 1e-5
    if untested and delta > 0:
        tolc = max(1e-5, 4.0 * delta * delta / max(min_sight(net), 1.0))
    # reductions of zenith angles with instrument heights are refined only when they change by more
    # than 0.1 cc (refine_obsdh_reductions): up to 0.1 cc * sight length may remain in a height
    P = nm.pmap(net)
    for cl in net["clusters"]:
        if cl["k"] != "obs":
            continue
        for o in cl["obs"]:
            omitted_any = any((q["xy"] == "adj" and not q["give_xy"]) or (q["z"] == "adj" and not q["give_z"]) for q in net["points"])
            # (computed approximate coordinates are as inexact as perturbed ones)
            if o["t"] == "z-angle" and (o.get("from_dh") or o.get("to_dh") or cl.get("from_dh")) and (delta > 0 or omitted_any):
                sight = nm.hdist(P[o.get("from", cl["from"])], P[o["to"]])
                tolc = max(tolc, 2.0 * 1.571e-7 * sight)
    for p in net["points"]:
        if p["xy"] == "adj" or p["z"] == "adj":
            a = adj.get(p["id"])
            if a is None:
                # known finding: a total-station target (direction + slope distance + zenith angle, no horizontal distance)
                # whose station is itself a computed point gets its approximate position from the local-system constant
                # The finding is recognised by its signature, not by the shape of the network: gama's own approximate position
                # of the point lies exactly 1000 m (const_distance of the local system) from its station, far from the truth
                kf = False
                if (p.get("recipe") or [None])[0] == "polar3d" and not p["give_xy"]:
                    kf = p["id"] in local_system_constant_points(net)
                if kf:
                    return ["%s.polar3d_from_computed_station: point %s (direction + slope distance + zenith angle from a station whose own "
                            "coordinates are computed) is not among the adjusted points" % (tag, p["id"])]
                fails.append("%s.missing_point: unknown point %s (recipe %s, xy given %s, z given %s) is not among the adjusted points" %
                             (tag, p["id"], p.get("recipe"), p["give_xy"], p["give_z"]))
                continue
            if p["xy"] == "adj":
                if "x" not in a:
                    fails.append("%s.missing_xy: %s" % (tag, p["id"]))
                else:
                    ex, ey = nm.to_input(net, p["E"], p["N"])
                    e = max(abs(a["x"] - ex), abs(a["y"] - ey))
                    stats.ratio("coord", e / tolc)
                    if e > tolc:
                        fails.append("%s.coords: %s adjusted xy differs from the truth by %.3g m (tol %.3g, recipe %s)" %
                                     (tag, p["id"], e, tolc, p.get("recipe")))
            if p["z"] == "adj":
                if "z" not in a:
                    fails.append("%s.missing_z: %s" % (tag, p["id"]))
                else:
                    e = abs(a["z"] - p["H"])
                    stats.ratio("coord", e / tolc)
                    if e > tolc:
                        fails.append("%s.height: %s adjusted z differs from the truth by %.3g m (recipe %s)" % (tag, p["id"], e, p.get("recipe")))
    nobs = len(nm.flat_observations(net))
    if len(x["observations"]) != nobs:
        fails.append("%s.observations_lost: %d observations in the input, %d in the result" % (tag, nobs, len(x["observations"])))
    scale = tolc / 1e-5
    for o in x["observations"]:
        ang = o["tag"] in ("direction", "angle", "zenith-angle", "azimuth")
        r = o["adj"] - o["obs"]
        if ang:
            r = (r + 200.0) % 400.0 - 200.0
            r *= 1e4   # cc
            tol = 0.1 * scale * max(1.0, 50.0 / max(min_sight(net), 1.0))
        else:
            r *= 1e3   # mm
            tol = 0.02 * scale      # (two stopping criteria may add up: 0.1 cc on the zenith reduction, 0.001 mm on the slope reduction)
        stats.ratio("residual", abs(r) / tol)
        if abs(r) > tol:
            fails.append("%s.residual: %s %s->%s adjusted-observed = %.4g (tol %.3g)" % (tag, o["tag"], o.get("from", o.get("id")), o.get("to", ""), r, tol))
            break
    if x["summary"]["sum_of_squares"] > 1e-4 * scale * scale * max(1, nobs):
        fails.append("%s.sum_of_squares: %.3g for error-free observations" % (tag, x["summary"]["sum_of_squares"]))
    return fails


def oracle(c, stats):
    net = c["net"]
    if not gen_net.is_determined(net):
        stats.label("discarded_not_determined")
        return []
    if any(p.get("recipe") and p["recipe"][0] == "trilateration" and p["xy"] == "adj" and not p["give_xy"]
           and not trilateration_resolvable(net, p) for p in net["points"]):
        stats.label("discarded_trilateration_mirror")       # (cases saved before the rule was tightened)
        return []
    if gen_net.weak_geometry(net):
        # gama's documented protection: a coordinate with an a priori standard deviation above 10 m is removed as
        # indeterminable (e.g. a point 9 mm off the line of three collinear stations of its distances)
        stats.label("discarded_weak_geometry")
        return []
    mode = c["mode"]
    omitted = any((p["xy"] == "adj" and not p["give_xy"]) or (p["z"] == "adj" and not p["give_z"]) for p in net["points"])
    if mode == "omit" and not omitted:
        mode = "exact"
    stats.label("approx=" + mode, "dims=" + net["dims"], "alg=" + c["alg"])
    if net.get("steep"):
        stats.label("steep_terrain")
    if net.get("pure_polar3d"):
        stats.label("pure_survey", "pure_survey." + str(net["pure_polar3d"]))
    if any(o.get("from_dh") is not None for cl in net["clusters"] if cl["k"] == "obs" for o in cl["obs"]):
        stats.label("with_dh")
    for p in net["points"]:
        if p.get("recipe"):
            stats.label("recipe_xy=%s" % p["recipe"][0], "recipe_z=%s" % p["recipe"][1])
    res = netrun.gama_local(nm.gkf_text(net), ["--algorithm", c["alg"]])
    fails = check_result("base", net, res, mode, stats)
    if fails or not c["augment"]:
        return fails
    # augmentation: further consistent observations never make a determined point undetermined
    net2 = copy.deepcopy(net)
    ids = [p["id"] for p in net2["points"]]
    k = c["extra"]
    extra = []
    has_xy = net["dims"] in ("2d", "3d")
    for j in range(3):
        a = ids[(k + j) % len(ids)]
        b = ids[(k // 7 + j + 1) % len(ids)]
        if a == b:
            continue
        if has_xy:
            extra.append({"k": "obs", "from": a, "from_dh": None, "orient": 0.0, "cov": None,
                          "obs": [{"t": "distance", "to": b, "sd": 5.0, "e": 0.0}]})
        else:
            extra.append({"k": "hdiff", "cov": None, "obs": [{"from": a, "to": b, "sd": 2.0, "dist": None, "e": 0.0}]})
    net2["clusters"] += extra
    stats.label("augmented")
    res2 = netrun.gama_local(nm.gkf_text(net2), ["--algorithm", c["alg"]])
    return check_result("augmented", net2, res2, mode, stats)


def nontrivial(c):
    return c["mode"] != "exact" or any(o.get("from_dh") is not None for cl in c["net"]["clusters"] if cl["k"] == "obs" for o in cl["obs"])


PARTS = [
    Part("consistent", strategy=case, oracle=oracle, nontrivial=nontrivial, n={"quick": 8000, "thorough": 60000},
         sample=lambda c: {"mode": c["mode"], "alg": c["alg"], "gkf": nm.gkf_text(c["net"])[:1200]}),
]
