"""Run gdrv_net / gama-local on generated GKF text."""
import json
import os
import tempfile

from . import build, drv

TMP = "/dev/shm" if os.path.isdir("/dev/shm") else None


class TmpDir:
    def __enter__(self):
        self.d = tempfile.mkdtemp(prefix="gv_", dir=TMP)
        return self.d

    def __exit__(self, *a):
        for fn in os.listdir(self.d):
            try:
                os.unlink(os.path.join(self.d, fn))
            except OSError:
                pass
        try:
            os.rmdir(self.d)
        except OSError:
            pass


def net_driver(gkf, alg="-", mode=None, timeout=60):
    """returns (dump dict | None, crash | None)"""
    with TmpDir() as d:
        path = os.path.join(d, "in.gkf")
        with open(path, "w", encoding="utf-8") as f:
            f.write(gkf)
        argv = [build.exe("gdrv_net"), path, alg] + ([mode] if mode else [])
        rc, out, err, crash = drv.run(argv, timeout=timeout)
    if crash is not None:
        return None, crash
    try:
        return json.loads(out), None
    except ValueError:
        return None, drv.Crash(kind="undecodable", frame="", text=(out[-500:] + err[-500:]))


def gama_local(gkf, args=(), outputs=("xml",), timeout=60, stdin_input=False, raw=False):
    """Run the real gama-local binary.  outputs: subset of xml,text,html,octave,svg,export.
    Returns dict(rc=..., crash=..., stdout=..., stderr=..., <output name>: text)."""
    res = {}
    with TmpDir() as d:
        path = os.path.join(d, "in.gkf")
        mode = "wb" if isinstance(gkf, bytes) else "w"
        with open(path, mode, **({} if mode == "wb" else {"encoding": "utf-8"})) as f:
            f.write(gkf)
        argv = [build.exe("gama-local"), path] + list(args)
        for o in outputs:
            argv += ["--" + o, os.path.join(d, "out." + o)]
        rc, out, err, crash = drv.run(argv, timeout=timeout, cwd=d)
        res.update(rc=rc, crash=crash, stdout=out, stderr=err)
        for o in outputs:
            p = os.path.join(d, "out." + o)
            if os.path.exists(p):
                with open(p, "rb") as f:
                    b = f.read()
                res[o] = b if raw else b.decode("utf-8", "replace")
            else:
                res[o] = None
    return res
