#!/usr/bin/env python3
"""Evaluate one seeded change (a patch produced by a sub-agent) against the checks.

  tools/seed_eval.py <dir with patch.diff, meta.json, demo/> <name> <check ids,comma> [--tier quick] [--skip-tests]

Steps (all in scratch directories outside /repo and /verif):
  1. scratch worktree of /repo HEAD (/tmp/seedwt): apply the patch, build with the repository's own CMake build,
     run the pinned suite (ctest, the stable tests of /root/.vp/BASELINE.json must pass; two attempts for flaky ones)
  2. run the demonstration on the patched and the clean build and keep both outputs (they must differ)
  3. run the named checks with VERIF_REPO=<scratch worktree> (same code path as for /repo: mirror + sanitizer build),
     record exit code and VIOLATION lines
  4. store everything as /verif/seeded/<name>/ (patch.diff, demo/, meta.json with the verdicts)
The change is never applied to /repo by this tool.
"""
import json
import os
import shutil
import subprocess
import sys
import xml.etree.ElementTree as ET

VERIF = os.path.dirname(os.path.dirname(os.path.abspath(__file__)))
WT = os.environ.get("SEED_WT", "/tmp/seedwt")
SB = os.environ.get("SEED_SB", "/tmp/seed_build")
JUNIT = WT.rstrip("/") + "_junit.xml"


def sh(cmd, cwd=None, env=None, timeout=7200):
    p = subprocess.run(cmd, shell=True, cwd=cwd, env=env, stdout=subprocess.PIPE, stderr=subprocess.STDOUT, timeout=timeout)
    return p.returncode, p.stdout.decode("utf-8", "replace")


def ensure_wt():
    head = sh("git -C /repo rev-parse HEAD")[1].strip()
    if not os.path.isdir(WT):
        sh("git -C /repo worktree add -q --detach %s HEAD" % WT)
    sh("git checkout -q -- . && git clean -fdq -e _build && git checkout -q --detach %s" % head, cwd=WT)
    if not os.path.isdir(os.path.join(WT, "_build")):
        rc, out = sh("cmake -G Ninja -B _build -S . -DCMAKE_BUILD_TYPE=Release", cwd=WT)
    return head


def build_wt():
    return sh("cmake --build _build -j12", cwd=WT)


def run_suite():
    base = json.load(open("/root/.vp/BASELINE.json"))
    stable = [s.split("::")[0] for s in base["stable_pass"]]
    bad_total = None
    for attempt in range(2):
        sh("ctest --test-dir _build -j8 --timeout 900 --output-junit %s" % JUNIT, cwd=WT)
        t = ET.parse(JUNIT).getroot()
        status = {}
        for tc in t.iter("testcase"):
            ok = tc.find("failure") is None and tc.find("error") is None and tc.get("status", "run") in ("run", "passed")
            status[tc.get("name")] = ok
        bad = [s for s in stable if not status.get(s, False)]
        bad_total = bad if bad_total is None else [b for b in bad if b in bad_total]
        if not bad_total:
            break
    if bad_total:
        # the *_cmp tests read files written by other tests and race under parallel ctest (more so on a loaded machine):
        # what still fails is run once more, serially
        sh("ctest --test-dir _build --rerun-failed -j1 --timeout 900 --output-junit %s" % JUNIT, cwd=WT)
        t = ET.parse(JUNIT).getroot()
        ok_now = set()
        for tc in t.iter("testcase"):
            if tc.find("failure") is None and tc.find("error") is None and tc.get("status", "run") in ("run", "passed"):
                ok_now.add(tc.get("name"))
        bad_total = [b for b in bad_total if b not in ok_now]
    return bad_total


def main():
    src, name, checks = sys.argv[1], sys.argv[2], sys.argv[3].split(",")
    tier = "quick"
    if "--tier" in sys.argv:
        tier = sys.argv[sys.argv.index("--tier") + 1]
    skip_tests = "--skip-tests" in sys.argv
    dst = os.path.join(VERIF, "seeded", name)
    patch = os.path.abspath(os.path.join(src, "patch.diff"))
    meta = json.load(open(os.path.join(src, "meta.json")))
    head = ensure_wt()
    verdict = {"head": head, "checks": {}}
    # clean build + demo on the clean tree
    rc, out = build_wt()
    if rc:
        print("clean build failed\n" + out[-2000:]); return 2
    demo = os.path.join(src, "demo", "demo.sh")
    demo_clean = demo_patched = None
    if os.path.exists(demo):
        shutil.rmtree(os.path.join(WT, "demo"), ignore_errors=True)
        shutil.copytree(os.path.join(src, "demo"), os.path.join(WT, "demo"))
        demo_clean = sh("bash demo/demo.sh", cwd=WT, timeout=600)[1]
    rc, out = sh("git apply %s" % patch, cwd=WT)
    if rc:
        print("patch does not apply: " + out); verdict["applies"] = False
        sh("git checkout -q -- .", cwd=WT)
        return 2
    verdict["applies"] = True
    rc, out = build_wt()
    verdict["compiles"] = rc == 0
    if rc:
        print("patched build failed\n" + out[-1500:])
    else:
        if os.path.exists(demo):
            demo_patched = sh("bash demo/demo.sh", cwd=WT, timeout=600)[1]
            verdict["demo_differs"] = demo_clean != demo_patched
        if not skip_tests:
            bad = run_suite()
            verdict["suite_failures"] = bad
            print("suite: %d stable tests failing" % len(bad), bad[:5])
        env = dict(os.environ, VERIF_REPO=WT, VERIF_BUILD=SB)
        for cid in checks:
            rc, out = sh("./check %s %s" % (cid, tier), cwd=VERIF, env=env)
            viol = [l for l in out.splitlines() if l.startswith("VIOLATION") or l.startswith("  ")][:12]
            verdict["checks"][cid] = {"tier": tier, "exit": rc, "caught": rc == 1 and any(l.startswith("VIOLATION") for l in out.splitlines()),
                                      "lines": [l[:300] for l in viol if not l.startswith("  worst")][:8]}
            print(cid, "exit", rc, "CAUGHT" if verdict["checks"][cid]["caught"] else "missed")
    sh("git checkout -q -- . && rm -rf demo", cwd=WT)
    # replays written while testing a seeded change are not findings on the real tree
    os.makedirs(dst, exist_ok=True)
    same = os.path.abspath(src) == os.path.abspath(dst)          # re-evaluation of a stored change
    if not same:
        shutil.copy(patch, os.path.join(dst, "patch.diff"))
    if os.path.isdir(os.path.join(src, "demo")) and not same:
        shutil.rmtree(os.path.join(dst, "demo"), ignore_errors=True)
        shutil.copytree(os.path.join(src, "demo"), os.path.join(dst, "demo"))
        if demo_clean is not None:
            open(os.path.join(dst, "demo", "verified_output_clean.txt"), "w").write(demo_clean[-20000:])
        if demo_patched is not None:
            open(os.path.join(dst, "demo", "verified_output_patched.txt"), "w").write(demo_patched[-20000:])
    # keep the verdicts of earlier evaluations (suite run, other checks); newer check results replace older ones
    old_meta = os.path.join(dst, "meta.json")
    if os.path.exists(old_meta):
        try:
            prev = json.load(open(old_meta)).get("verification", {})
            if "suite_failures" in prev and "suite_failures" not in verdict:
                verdict["suite_failures"] = prev["suite_failures"]
                verdict["suite_head"] = prev.get("suite_head", prev.get("head"))
            merged = dict(prev.get("checks", {}))
            for cid, r in verdict["checks"].items():
                if cid in merged and merged[cid].get("caught") != r.get("caught"):
                    r["earlier"] = {"caught": merged[cid].get("caught"), "head": prev.get("head")}
                merged[cid] = r
            verdict["checks"] = merged
        except Exception:
            pass
    meta["verification"] = verdict
    json.dump(meta, open(os.path.join(dst, "meta.json"), "w"), indent=1)
    print(json.dumps(verdict)[:1500])
    return 0


if __name__ == "__main__":
    sys.exit(main())
