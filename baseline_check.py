#!/usr/bin/env python3
"""Build /repo/_build and run the pinned suite; report stable_pass tests of BASELINE.json that do not pass."""
import json, subprocess, sys, xml.etree.ElementTree as ET
subprocess.run(["cmake", "--build", "/repo/_build"], stdout=subprocess.DEVNULL, stderr=subprocess.DEVNULL)
bad_total = None
for attempt in range(2):
    subprocess.run(["ctest", "--test-dir", "/repo/_build", "-j8", "--timeout", "900", "--output-junit", "/tmp/baseline_junit.xml"],
                   stdout=subprocess.DEVNULL, stderr=subprocess.DEVNULL)
    t = ET.parse("/tmp/baseline_junit.xml").getroot()
    status = {}
    for tc in t.iter("testcase"):
        ok = tc.find("failure") is None and tc.find("error") is None and tc.get("status", "run") in ("run", "passed")
        status[tc.get("name")] = ok
    base = json.load(open("/root/.vp/BASELINE.json"))
    stable = [s.split("::")[0] for s in base["stable_pass"]]
    bad = [s for s in stable if not status.get(s, False)]
    bad_total = bad if bad_total is None else [b for b in bad if b in bad_total]
    if not bad_total:
        break
print("stable tests: %d, not passing (in both of two runs): %d" % (len(stable), len(bad_total)))
for b in bad_total:
    print("  FAIL", b)
sys.exit(1 if bad_total else 0)
