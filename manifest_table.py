CHECKS = {
 "C01": {
  "text": "Generated-input search: thousands of rank-planted weighted LS problems (banded covariance blocks, regularisation subsets, defect 0..3) are solved by all four algorithms through both Adj and the AdjBase classes and compared with an independent numpy SVD reference; failures shrink to a replay JSON. Exploration, not proof: bounded sizes (n<=9).",
  "note": "Trusted: numpy/LAPACK as reference, my rank-planting generator (re-verified by numpy per case), sanitizer build flags. Sizes n<=9, m<=19, defect<=3.",
  "technique": "property-based testing (Hypothesis) with differential oracle against numpy reference, under ASan/UBSan",
 },
}
