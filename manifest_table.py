CHECKS = {
 "C01": {
  "text": "Generated-input search: thousands of rank-planted weighted LS problems (banded covariance blocks, regularisation subsets, defect 0..3) are solved by all four algorithms through both Adj and the AdjBase classes and compared with an independent numpy SVD reference; failures shrink to a replay JSON. A second generator gives graph-structured sparse problems with 10-40 unknowns (exact defects from floating components, blocks up to dimension 10); every generator also draws large absolute terms with small residuals and the same problem in other units (2^k). Exploration, not proof: bounded sizes (n<=40).",
  "note": "Trusted: numpy/LAPACK as reference, my rank-planting generator (re-verified by numpy per case), sanitizer build flags. Sizes n<=9 (dense) / n<=40, m<=~130 (graph-structured), defect<=3. The sum of squares is judged against the rounding of the residuals, not relative to b'Pb. Known finding (exact tag): gso on matrices upscaled by >= 2^14.",
  "technique": "property-based testing (Hypothesis) with differential oracle against numpy reference, under ASan/UBSan",
 },
 "C02": {
  "text": "Generated-input search: the four algorithms are run on the same rank-planted problems through GNU_gama::Adj and compared pairwise (defect, x, r, v'Pv, every q_xx and q_bb) with a conditioning-proportional tolerance; provably non-resolving regularisation subsets must be refused by all four; also on graph-structured problems with up to 40 unknowns. Exploration with bounded sizes.",
  "note": "Trusted: numpy condition numbers for tolerances and for classifying subsets as resolving / non-resolving; n<=9 (dense), n<=40 (graph-structured).",
  "technique": "property-based differential testing between the four solvers (Hypothesis), sanitized",
 },
 "C03": {
  "text": "Generated-input search: all q_xx(i,j), q_bb(i,j) and (cholesky, gso, svd) q_bx(i,j) index pairs of every algorithm are checked against algebraic identities (symmetry, PSD, NQN=N, QNQ=Q, projector, trace=rank) and a numpy reference for the chosen regularisation.",
  "note": "Trusted: numpy reference; tolerance 1e-8*cond^2; n<=9, m<=19 and graph-structured problems with n<=32 (all index pairs).",
  "technique": "property-based testing (Hypothesis) with algebraic-invariant and reference oracles",
 },
 "C04": {
  "text": "Model-based history generation: sequences of up to 30 API calls against one solver object (one history in three on an object that has adjusted another problem before, graph-structured problems up to 22 unknowns in a second part); every answer is compared with a fresh object asked only that question and with the numpy reference. The sequence shrinks as one value; sanitizer aborts are violations.",
  "note": "Trusted: driver gdrv_adj (pure function of its command stream), numpy to admit resolving min_x subsets; subsets with fewer indexes than the defect are admitted as certainly insufficient (the answer is an exception, the same for a fresh object).",
  "technique": "stateful / model-based property testing (Hypothesis-generated call histories vs fresh-object oracle)",
 },
 "C05": {
  "text": "Generated-input search: every row of the design matrix produced by the real parser + LocalLinearization for generated small networks (all axes/angle conventions, statuses, observation types, large misclosures) is compared with analytic derivatives and misclosures from an independent observation model written from the documentation.",
  "note": "Trusted: vlib/netmodel.py (documented semantics), the driver's re-run of LocalLinearization on the active observations. Slope observations with instrument heights are compared with the mark-to-mark derivative (gama reduces them to the marks). Singular sights excluded by construction.",
  "technique": "property-based testing (Hypothesis) against an analytic reference model of the observation functions",
 },
 "C06": {
  "text": "Generated-input search over determined networks built by recipes with error-free observations: the real gama-local binary (generated algorithm, axes/angle conventions, gon/degree input, grid offsets, exact / perturbed / omitted approximate coordinates, instrument heights) must return the generating coordinates with zero residuals and lose no point or observation; augmentation with further consistent observations is a second metamorphic step.",
  "note": "Trusted: vlib/netmodel.py truth model (validated against gama by C05), numpy rank test for 'determined', my XML reader. Omission only for points the documented approximate-coordinate strategy resolves. Networks of 3-8 points.",
  "technique": "property-based testing (Hypothesis) of the real binary against a constructive truth model; metamorphic augmentation",
 },
 "C09": {
  "text": "Generated-input search over noisy determined networks x sigma-act x conf-pr x sigma-apr x algorithm: every statistic printed in the XML result (dof, a posteriori deviation, confidence scale, chi-square test, covariance matrix, ellipses, standard deviations of adjusted observations, qrr, standardised residuals) is recomputed from other fields, from scipy quantiles and from the library's Q; metamorphic sigma-apr scaling.",
  "note": "Trusted: scipy.stats, my XML reader, Q and design rows dumped by the driver (cross-checked against the printed covariance). One known finding (correlated-cluster observation stdev) is excluded by tag and reported as KNOWN-FINDING.",
  "technique": "property-based testing (Hypothesis) with recomputation oracle and a metamorphic relation on the real binary",
 },
 "C07": {
  "text": "Metamorphic generated-input search: a noisy determined network and a transformed description of the same physical survey (translation, circle rotation incl. zero next to a target on a coordinate axis, permutation, renaming incl. numeric-looking and digit-leading ids, gon/degree, swapped distance ends, another of the 16 axes/angle frames with full covariance matrices transformed, implicit standard deviations spelled out) are both adjusted by the real binary; results mapped back to the physical frame must agree.",
  "note": "Trusted: the truth model defines equivalence (same physical errors re-expressed; covariance signs follow the angle sense). Standard deviations of adjusted observations inside banded clusters are excluded (known finding shared with C09). 3-8 points.",
  "technique": "metamorphic property-based testing (Hypothesis) on the real binary",
 },
 "C08": {
  "text": "Metamorphic generated-input search over noisy free networks: two numpy-verified admissible constrained-point subsets are adjusted by the real binary; residuals, v'Pv, dof, adjusted observations, their standard deviations and the shape of the adjusted network must agree; within each run the corrections of the constrained coordinates are orthogonal to the null space of the dumped design matrix and equal numpy's minimal-norm solution.",
  "note": "Trusted: truth Jacobian and its null space (numpy), driver dump of the design matrix. Agreement between two datums is limited by gama's own linearisation criterion (tolerances 5e-3 mm / 5e-2 cc / 1e-5 m, 2e-3 relative on v'Pv). Near-singular configurations (singular value ratio < 1e-2) are discarded as ambiguous.",
  "technique": "metamorphic property-based testing (Hypothesis) + differential check against numpy minimal-norm solution",
 },
 "C17": {
  "text": "Deterministic dense grids (2011 probabilities x dof 1..1000 and 2000, 1e4, 1e6; x in [-40,40]) plus monotonicity/finiteness scans down to 1e-12 and Hypothesis pairs, compared with scipy.stats isf/cdf using exactly the bounds of the property (1e-6, 5e-4, 5e-3 relative); symmetry, monotonicity, NormalDistribution(Normal(a)) = 1-a.",
  "note": "Trusted: scipy.stats as reference (two-term series for Student next to alpha = 0.5). Three known findings about the approximation formulas are excluded by region-specific tags and printed as KNOWN-FINDING.",
  "technique": "exhaustive grid enumeration + property-based testing (Hypothesis) against scipy reference",
  "engine": "hypothesis+gdrv",
 },
 "C18": {
  "text": "Grids over all 48 ellipsoids x latitude (poles exact) x longitude x height for the blh<->xyz round trip with the documented bound, angle-format round trips with field-range checks at every precision, EXHAUSTIVE enumeration of all literal strings up to length 5 (quick) / 6 (thorough) over {0,1,9,+,-,.,e,E,space,x} through IsFloat/IsInteger/toDouble/toInteger/toIndex/deg2gon with must-accept / must-reject sets, bearing/distance antisymmetry on point pairs in all quadrants; Hypothesis parts beyond the grids.",
  "note": "Trusted: closed-form ellipsoid formulas in Python, Python float() as literal reference; grey-zone literals (e.g. '1.') are not asserted.",
  "technique": "exhaustive bounded enumeration + property-based testing (Hypothesis) with round-trip oracles",
  "level": "fault_enumeration",
 },
 "C10": {
  "text": "Generated-input search with four relations: diagonal cov-mat vs per-observation stdev attributes; (A,b,C) vs numpy-whitened formulation through Adj for all algorithms and bands; banded clusters with inserted observations to unusable points vs the reduced input with the explicit sub-matrix; malformed matrices (indefinite, zero/negative variance, wrong dim, wrong element count, band>=dim) must be refused by every algorithm with the same located diagnostic; the exclusion relation also compares the statistics per observation.",
  "note": "Trusted: numpy Cholesky for whitening, my GKF writer; ghost observations are constructed so that the target point is unusable (undeclared, or declared without determinable coordinates); in <coordinates> / <vectors> clusters whole units (1-3 rows) of undeclared points drop out.",
  "technique": "metamorphic / differential property-based testing (Hypothesis) on the real binary and the Adj API",
 },
 "C11": {
  "text": "Bounded exhaustive enumeration plus coverage-guided fuzzing under ASan/UBSan with the semantic oracle inside the targets (well-formed XML output, located non-empty diagnostics, return from main): all element forests up to 3/4 elements over the tag alphabet, every prefix and every two-chunk split of every archived input, all archived inputs x option combinations through the in-process main(), libFuzzer campaigns on gama-local's main(), on the gama-g3 / adj-input-data parser with the g3 pipeline behind it and on the XML/HTML adjustment-result readers, and grammar-derived valid documents that must be accepted.",
  "note": "Trusted: sanitizer runtime, expat as well-formedness judge. Leaks and pointer-overflow/nonnull-attribute UB classes are out of scope (DESIGN 5). libFuzzer campaigns are stochastic; saved units are the reproducible objects and are replayed at the start of every run. Numeric-literal enumeration is part of C18. Two Hypothesis parts on generated valid documents: lexical (equivalent spellings must be accepted with the same results; equivalence self-checked by an infoset comparison) and malformed (15 kinds of semantic damage, oracle of DESIGN 4.4); results files with integers beyond int must be refused by the tools.",
  "technique": "coverage-guided fuzzing (libFuzzer) + bounded exhaustive enumeration with in-target semantic oracle",
  "level": "fault_enumeration",
  "engine": "libFuzzer",
 },
 "C15": {
  "text": "Model-based operation sequences over registers of Mat, Vec, SymMat, CovMat, BandMat, TransMat, TransVec (construct, copy, assign between sizes, move, reset, arithmetic with conforming and non-conforming operands, inverses, Cholesky, SVD, pinv, GSO, norms, stream round trip): after every step every live register is compared with a numpy model; plus EXHAUSTIVE enumeration of all matrices over {-1,0,1} up to 3x3 and {-2..2} 2x2 through inv, SVD and pinv.",
  "note": "Trusted: numpy model of each operation (written from the headers), driver gdrv_mv. One known finding (SymMat*SymMat) is excluded by tag.",
  "technique": "stateful model-based property testing (Hypothesis) + exhaustive enumeration of tiny matrices, under ASan/UBSan",
 },
 "C16": {
  "text": "Generated sparsity patterns (rank-planted problems, explicit shapes incl. empty rows, single column, dense, banded, disconnected, zero columns; block layouts with bands) through SparseMatrix build/replicate/transpose, graph connectivity, RCM ordering, Envelope set / LDL' / triangular solves / sparse inverse, BlockDiagonal Cholesky and Homogenization, each compared with its dense numpy/scipy definition (exact zeros on dependent pivots, defect = n - rank).",
  "note": "Trusted: numpy/scipy dense references, driver gdrv_sp. Sizes up to 12x10 for explicit shapes, up to ~130x40 for graph-structured patterns; matrices also in other units (2^k).",
  "technique": "property-based testing (Hypothesis) against dense reference implementations",
 },
 "C13": {
  "text": "Generated-input search: noisy determined networks with every cluster type decorated with from_dh/to_dh/bs_dh/fs_dh, extern, dist, angular unit, cov-band, degree input, banded covariances, latitude / ellipsoid parameters, epoch, implicit standard deviations, negative heights, perturbed or omitted approximate coordinates; the real binary writes --export (+ --xml); my own GKF reader compares export and original semantically (points, statuses, values, stdev / full covariance matrices in the unit of the values, heights, parameters), the exported coordinates with the run's final linearisation point, the export written without --xml with the one written with it; the export is adjusted again (same coordinates, adjusted observations, v'Pv, no linearisation iteration) and exported again (round 2 = round 3).",
  "note": "Trusted: my GKF reader / XML result reader. Re-adjustment tolerances are tied to gama's own stopping criteria (0.0005 mm per observation, 0.1 cc on dh reductions times sight length). Cases in which gama removes a point (weak configuration) are left to C14/C20.",
  "technique": "property-based round-trip / fixed-point testing (Hypothesis) of gama-local --export through the real binary",
 },
 "C14": {
  "text": "Generated-input search: error-free determined networks (all cluster types, 1D/2D/3D, all axes orientations, degrees, correlated clusters, exact or perturbed approximate coordinates) with injected blunders of f*tol-abs positional misclosure (f 0.3..40, never within 2 % of the threshold) on every observation type, declared points without coordinates, points with a single determining distance, observations to undeclared points, single-direction stations. Oracle: the set gama flags equals the prediction of my own misclosure model (incl. the median orientation of direction sets); the text output lists every excluded observation (row count and types) and every removed point with its reason; the XML counts equal the predicted kept observations; the XML results equal those of the input with the excluded items deleted.",
  "note": "Trusted: my misclosure model and readers; C10 covers the sub-matrix rule used when an observation is deleted from a correlated cluster. One known finding (angular observations are removed with the weighted term) is excluded by tag; equivalence is then checked against what gama really excluded.",
  "technique": "property-based metamorphic testing (Hypothesis): defect injection + reference misclosure model + delete-equivalence through the real binary and a library driver",
 },
 "C19": {
  "text": "Generated-input search on gama-g3: ECEF networks anywhere on the ellipsoid (equator, poles, antimeridian, global), points given as XYZ / B-L-H / not at all, fixed / free / constrained / unused n-e and u components, vectors (full, banded, multi-vector covariances), xyz, distances, heights, height differences, zenith angles, angles, instrument heights, deflections, d-m-s values, consistent and noisy, exact or perturbed given coordinates. Oracles: dumped design matrix and right-hand sides against my own (numerically differentiated) observation model; adjusted coordinates equal the generating ones for consistent observations; every algorithm against a numpy reference (parameters, equations, defect, redundancy, v'Pv, corrections, covariances, residuals, standard deviations) and pairwise; any permutation of points / clusters / observations (with their covariance rows) gives the same results; the --project-equations dump re-solved by numpy and by GNU_gama::Adj with the four algorithms (driver gdrv_g3adj) gives the printed corrections.",
  "note": "Built by a sub-agent inside the framework, reviewed and calibrated by me. Trusted: my own geodesy (numpy), numpy SVD. Tolerances: half a printed digit plus 1e-8*cond (as C01) plus stated physical allowances (single linearisation, acos accuracy 1.5e-8 rad, neglected deflections in the partials). <azimuth> is not generated (the parser cannot read it: known finding). Two known findings (envelope rank / accuracy, gso defect with a dependent row) are excluded by their tags.",
  "technique": "property-based testing (Hypothesis) of the real gama-g3 binary against a truth model, a numpy reference, metamorphic permutations and a differential re-solution of its dump",
 },
 "C20": {
  "text": "Generated-input search at two levels. Library: rank-planted singular systems with resolving and provably non-resolving regularisation subsets through the four AdjBase solvers; after the expected bad-regularisation exception every lindep(i) is read and checked with numpy (exactly defect many, deleting them leaves full column rank). Network: (planted) determined networks with planted indeterminable parts (one-distance point, one-direction point, detached distance pair, detached levelling pair) through the real binary with all four algorithms: exactly the planted points are removed and reported, the rest equals the network without them, outputs hold no nan/inf; (free) free networks whose constrained coordinates are reduced until numpy says they cannot fix the datum: no algorithm may print an adjustment of the whole network, outcomes (refused / removed coordinate groups / results) must agree between algorithms.",
  "note": "Trusted: numpy SVD rank with the gap rule of C01; my network Jacobian for the datum analysis. Library level also on graph-structured problems with up to 40 unknowns. Known finding: for ill-posed free networks the algorithms remove different points (excluded by tag, well-posed disagreement is still reported).",
  "technique": "property-based differential testing (Hypothesis) of the four solvers against a numpy rank oracle and of the real binary on networks with planted rank deficiencies",
 },
 "C12": {
  "text": "Generated-input search: noisy networks with identifiers / descriptions / extern values containing XML specials, non-ASCII and long strings, generated --cov-band, angular unit, language and encoding; one run of the real binary writes XML, HTML, text and Octave; checks: well-formed XML with exact identifiers, gama's own XML reader equal to my reader field by field, HTML reader to HTML precision, text (table of adjusted coordinates block by block, constrained marks) and Octave (coordinates, v'Pv, status counts, Indexes / Constrained matrices) carrying the same adjustment, compare-xyz and gama-local-deformation on identical and translated epochs.",
  "note": "Trusted: Python expat + my reader as reference, small purpose-built readers of the text/Octave layouts. An integer field beyond int must be refused by the reader. Two known findings about the HTML reader (entity-split identifiers, non-English labels) are excluded by tag.",
  "technique": "property-based round-trip / differential testing (Hypothesis) across gama's writers, readers and companion tools",
 },
}
