// libFuzzer target: the real main() of gama-local, in process.
//   byte 0..1 of the unit select command line options, the rest is the input document.
// Oracle inside the target (DESIGN 4.4): no sanitizer report, main() returns, the XML
// output is well formed, an input rejected by the parser is reported with a non-empty
// message and a line number inside the input.
#include <gnu_gama/local/xmlerror.h>
#include <gnu_gama/local/observation.h>
#include <gnu_gama/xml_expat.h>
#include <cstdint>
#include <cstdio>
#include <cstdlib>
#include <cstring>
#include <string>
#include <vector>
#include <unistd.h>
#include <sys/mman.h>
#include <fcntl.h>

int gama_local_main(int argc, char** argv);
extern GNU_gama::local::XMLerror xmlerr;

namespace {

int fd_in = -1, fd_xml = -1, fd_exp = -1;
char p_in[64], p_xml[64], p_exp[64];

void init()
{
  fd_in  = memfd_create("gkf_in", 0);
  fd_xml = memfd_create("xml_out", 0);
  fd_exp = memfd_create("exp_out", 0);
  snprintf(p_in,  sizeof p_in,  "/proc/self/fd/%d", fd_in);
  snprintf(p_xml, sizeof p_xml, "/proc/self/fd/%d", fd_xml);
  snprintf(p_exp, sizeof p_exp, "/proc/self/fd/%d", fd_exp);
}

void put(int fd, const uint8_t* d, size_t n)
{
  if (ftruncate(fd, 0)) {}
  lseek(fd, 0, SEEK_SET);
  while (n) { ssize_t w = write(fd, d, n); if (w <= 0) break; d += w; n -= w; }
}

std::string get(int fd)
{
  std::string s;
  lseek(fd, 0, SEEK_SET);
  char buf[65536];
  ssize_t r;
  while ((r = read(fd, buf, sizeof buf)) > 0) s.append(buf, r);
  return s;
}

[[noreturn]] void violation(const char* what, const std::string& detail)
{
  fprintf(stderr, "\nORACLE-VIOLATION: %s\n%s\n", what, detail.substr(0, 1500).c_str());
  fflush(stderr);
  __builtin_trap();
}

const char* ALGS[] = {"envelope", "gso", "svd", "cholesky"};

} // namespace

extern "C" int LLVMFuzzerTestOneInput(const uint8_t* data, size_t size)
{
  if (fd_in < 0) init();
  if (size < 2) return 0;
  const unsigned o0 = data[0], o1 = data[1];
  data += 2; size -= 2;
  if (size > 16384) return 0;

  // process-wide state of gama-local
  xmlerr.clear();
  GNU_gama::local::Observation::gons = true;

  put(fd_in, data, size);
  put(fd_xml, nullptr, 0);
  put(fd_exp, nullptr, 0);

  std::vector<std::string> a = {"gama-local", p_in, "--xml", p_xml};
  a.push_back("--algorithm"); a.push_back(ALGS[o0 & 3]);
  if (o0 & 4)  { a.push_back("--text");   a.push_back("/dev/null"); }
  if (o0 & 8)  { a.push_back("--html");   a.push_back("/dev/null"); }
  if (o0 & 16) { a.push_back("--octave"); a.push_back("/dev/null"); }
  if (o0 & 32) { a.push_back("--svg");    a.push_back("/dev/null"); }
  if (o0 & 64) { a.push_back("--export"); a.push_back(p_exp); }
  if (o0 & 128){ a.push_back("--angular"); a.push_back("360"); }
  if (o1 & 1)  { a.push_back("--cov-band"); a.push_back(std::to_string((o1 >> 1) & 3)); }
  if (o1 & 8)  { a.push_back("--language"); a.push_back((o1 & 16) ? "cz" : "fr"); }
  if (o1 & 32) { a.push_back("--encoding"); a.push_back((o1 & 64) ? "cp-1250" : "iso-8859-2"); }
  if (o1 & 128){ a.push_back("--iterations"); a.push_back("1"); }
  // combinations of bits select the rarely used options
  if ((o1 & 0x28) == 0x28) { a.push_back("--obs"); a.push_back("/dev/null"); }
  if ((o1 & 0x90) == 0x90) { a.push_back("--ellipsoid"); a.push_back("wgs84"); a.push_back("--latitude"); a.push_back("50"); }
  if ((o0 & 0x0C) == 0x0C) { a.push_back("--verbose"); a.push_back("yes"); }
  std::vector<char*> argv;
  for (auto& s : a) argv.push_back(const_cast<char*>(s.c_str()));
  argv.push_back(nullptr);

  gama_local_main(int(a.size()), argv.data());

  // ---- oracle on the XML output
  const std::string xml = get(fd_xml);
  if (!xml.empty())
    {
      XML_Parser p = XML_ParserCreate(nullptr);
      int ok = XML_Parse(p, xml.c_str(), int(xml.size()), 1);
      std::string why;
      if (!ok) why = std::string(XML_ErrorString(XML_GetErrorCode(p))) + " at line "
                     + std::to_string(XML_GetCurrentLineNumber(p));
      XML_ParserFree(p);
      if (!ok) violation("XML output is not well formed", why + "\n" + xml);

      if (xml.find("category=\"gamaLocalParserError\"") != std::string::npos)
        {
          size_t lines = 1;
          // expat counts LF, CR LF and a lone CR as line ends
          for (size_t i=0; i<size; i++)
            if (data[i] == '\n' || (data[i] == '\r' && !(i+1 < size && data[i+1] == '\n'))) lines++;
          size_t k = xml.find("<lineNumber>");
          if (k == std::string::npos) violation("parser error without a line number", xml);
          long ln = atol(xml.c_str() + k + 12);
          if (ln < 1 || ln > long(lines)) violation("parser error with a line number outside the input", xml);
          // second <description> carries the diagnostic text
          size_t d1 = xml.find("<description>");
          size_t d2 = d1 == std::string::npos ? d1 : xml.find("<description>", d1 + 1);
          if (d2 == std::string::npos) violation("parser error without a diagnostic text", xml);
          size_t e2 = xml.find("</description>", d2);
          bool empty = true;
          for (size_t i=d2+13; i<e2 && i<xml.size(); i++) if (!isspace((unsigned char)xml[i])) empty = false;
          if (empty) violation("parser error with an empty diagnostic text", xml);
        }
    }
  return 0;
}
