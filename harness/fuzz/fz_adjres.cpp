// libFuzzer target: readers of gama-local adjustment results (XML and HTML).  byte 0 bit 0: html.
#include <gnu_gama/xml/localnetwork_adjustment_results.h>
#include <gnu_gama/exception.h>
#include <cstdint>
#include <cstdio>
#include <sstream>
#include <string>

namespace {
[[noreturn]] void violation(const char* what, const std::string& detail)
{
  fprintf(stderr, "\nORACLE-VIOLATION: %s\n%s\n", what, detail.substr(0, 800).c_str());
  fflush(stderr);
  __builtin_trap();
}
}

extern "C" int LLVMFuzzerTestOneInput(const uint8_t* data, size_t size)
{
  if (size < 1 || size > 32768) return 0;
  const bool html = data[0] & 1;
  const std::string doc(reinterpret_cast<const char*>(data+1), size-1);
  size_t lines = 1;
  for (size_t i=0; i<doc.size(); i++)
    if (doc[i] == '\n' || (doc[i] == '\r' && !(i+1 < doc.size() && doc[i+1] == '\n'))) lines++;
  GNU_gama::LocalNetworkAdjustmentResults res;
  std::istringstream in(doc);
  try
    {
      if (html) res.read_html(in); else res.read_xml(in);
      // touch what was read
      volatile double s = 0;
      for (auto& p : res.fixed_points) s += p.x + p.y + p.z;
      for (auto& p : res.adjusted_points) s += p.x + p.y + p.z + p.indx + p.indy + p.indz;
      for (auto& o : res.obslist) s += o.obs + o.adj + o.stdev + o.qrr + o.f;
      for (auto& o : res.orientations) s += o.approx + o.adj + o.index;
      const int d = res.cov.dim();
      for (int i=1; i<=d && i<=4; i++) s += res.cov(i,i);
      (void)s;
    }
  catch (const GNU_gama::Exception::parser& p)
    {
      if (p.str.empty()) violation("parser exception without text", doc);
      if (!html && (p.line < 1 || p.line > int(lines) + 1)) {
        char b[64]; snprintf(b, sizeof b, "line %d of %zu", p.line, lines);
        violation("parser exception with a line outside the input", std::string(b) + " " + p.str);
      }
    }
  catch (const GNU_gama::Exception::base&) {}
  catch (const std::exception&) {}
  return 0;
}
