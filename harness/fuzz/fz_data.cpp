// libFuzzer target: DataParser (gama-g3 input, adj-input-data, g3 adjustment results) and what
// gama-g3 does with the parsed objects.  byte 0: algorithm (2 bits).
#include <gnu_gama/xml/dataparser.h>
#include <gnu_gama/xml/dataobject.h>
#include <gnu_gama/g3/g3_model.h>
#include <gnu_gama/adj/adj.h>
#include <gnu_gama/exception.h>
#include <cstdint>
#include <cstdio>
#include <list>
#include <sstream>
#include <string>

namespace {
[[noreturn]] void violation(const char* what, const std::string& detail)
{
  fprintf(stderr, "\nORACLE-VIOLATION: %s\n%s\n", what, detail.substr(0, 800).c_str());
  fflush(stderr);
  __builtin_trap();
}
const GNU_gama::Adj::algorithm ALGS[] = {GNU_gama::Adj::envelope, GNU_gama::Adj::gso, GNU_gama::Adj::svd, GNU_gama::Adj::cholesky};
}

extern "C" int LLVMFuzzerTestOneInput(const uint8_t* data, size_t size)
{
  if (size < 1 || size > 16384) return 0;
  const unsigned o0 = data[0];
  const std::string doc(reinterpret_cast<const char*>(data+1), size-1);
  size_t lines = 1;
  for (size_t i=0; i<doc.size(); i++)
    if (doc[i] == '\n' || (doc[i] == '\r' && !(i+1 < doc.size() && doc[i+1] == '\n'))) lines++;

  std::list<GNU_gama::DataObject::Base*> objects;
  bool parsed = false;
  try
    {
      GNU_gama::DataParser parser(objects);
      // delivery as in gama-g3: line by line
      std::istringstream input(doc);
      std::string text;
      while (std::getline(input, text))
        {
          parser.xml_parse(text.c_str(), int(text.length()), 0);
          parser.xml_parse("\n", 1, 0);
        }
      parser.xml_parse("", 0, 1);
      parsed = true;
    }
  catch (const GNU_gama::Exception::parser& p)
    {
      if (p.str.empty()) violation("parser exception without text", doc);
      if (p.line < 1 || p.line > int(lines) + 1) {
        char b[64]; snprintf(b, sizeof b, "line %d of %zu", p.line, lines);
        violation("parser exception with a line outside the input", std::string(b) + " " + p.str);
      }
    }
  catch (const GNU_gama::Exception::base&) {}
  catch (const std::exception&) {}

  for (auto* o : objects)
    {
      if (!parsed) { delete o; continue; }
      try
        {
          if (auto* m = dynamic_cast<GNU_gama::DataObject::g3_model*>(o))
            {
              GNU_gama::g3::Model* model = m->model;
              if (model)
                {
                  model->set_algorithm(ALGS[o0 & 3]);
                  model->update_linearization();
                  std::ostringstream pe;
                  model->write_xml_adjustment_input_data(pe);
                  model->update_adjustment();
                  std::ostringstream res;
                  model->write_xml_adjustment_results(res);
                  delete model;
                  m->model = nullptr;
                }
            }
          else if (auto* a = dynamic_cast<GNU_gama::DataObject::AdjInput*>(o))
            {
              if (a->data && a->data->mat() && a->data->cov())
                {
                  GNU_gama::Adj adj;
                  adj.set_algorithm(ALGS[o0 & 3]);
                  adj.set(a->data);        // Adj takes ownership
                  a->data = nullptr;
                  const auto& x = adj.x();
                  const auto& r = adj.r();
                  volatile double s = adj.rtr();
                  for (int i=1; i<=x.dim() && i<=3; i++) s += adj.q_xx(i,i);
                  for (int i=1; i<=r.dim() && i<=3; i++) s += adj.q_bb(i,i);
                  (void)s;
                }
            }
          else
            {
              volatile size_t n = o->xml().size();
              (void)n;
            }
        }
      catch (const GNU_gama::Exception::base&) {}
      catch (const std::exception&) {}
      delete o;
    }
  return 0;
}
