// gdrv_mv: line-protocol driver around the dense matrix/vector templates of
// lib/matvec (property C15).  Pure function of its stdin; one JSON answer line
// per command line.  Ten registers r0..r9 hold objects of
//   mat  Mat<>      tmat TransMat<>   sym SymMat<>   cov CovMat<>   band BandMat<>
//   vec  Vec<>      tvec TransVec<>
// Every library call is made exactly as a user would write it (concrete static
// types, so that the overload a user gets is the overload that is tested); the
// "...b" variants force the generic MatBase overloads.
// Exception::matvec is answered as {"exc":"matvec","code":n,"text":..} - never
// swallowed.  Requests the harness itself must refuse (dead register, kind
// without such an operation, index outside the object) are answered
// {"skip":"why"} and touch nothing, so that the Python model stays in step.
//
//   new K r a [b]        construct with dimensions (contents uninitialised)
//   newv K r a [b] v...  construct, then write all stored elements through operator()
//                        (mat/tmat row-wise; sym lower triangle row-wise; cov/band
//                        upper band row-wise; vec/tvec in order)
//   del r | copy d s (copy-construct) | assign d s (operator=) | move d s (move-assign)
//   movec d s (move-construct) | reset r | resize r a [b] (reset(a,b))
//   set_zero r | set_all r f | set_identity r | set_diagonal r f
//   get r i [j] | set r i [j] v | scale r f (*=) | divide r f (/=)
//   add|sub|mul d a b | addb|subb|mulb d a b (generic MatBase overloads)
//   muls d a f (a*f) | smul d f a (f*a) | iadd a b (a+=b) | isub a b
//   trans d a | transpose r | tomat d a | square|lower|upper d a (sym->mat)
//   symlower|symupper d a (mat->sym)
//   inv d a | invert r | choldec r | solve r v | nullity r
//   invband d a pbw | tridiag r | eig d r
//   svd dU dW dV a | svdr dU dW dV a0 a (SVD(a0).decompose(); reset(a)) | svd_solve dx a b
//   svd_q a (all q_xx, nullity) | pinv d a | gso d a M N
//   dot a b | tdot a b (TransVec*Vec) | norms a | io d a (write -> read round trip)
//   dump r | dumpall | batch R C v... (inv, SVD, pinv of one matrix, for the enumeration)
#include <matvec/matvec.h>
#include <matvec/symmat.h>
#include <matvec/covmat.h>
#include <matvec/bandmat.h>
#include <matvec/svd.h>
#include <matvec/pinv.h>
#include <matvec/gso.h>
#include <matvec/sortvec.h>
#include <iostream>
#include <sstream>
#include <string>
#include <vector>
#include <memory>
#include <cstdio>
#include <cmath>
#include <stdexcept>

using namespace GNU_gama;
using std::string;

namespace {

typedef Exception::matvec        Exc;
typedef Mat<double,int,Exc>      MatT;
typedef TransMat<double,int,Exc> TMatT;
typedef SymMat<double,int,Exc>   SymT;
typedef CovMat<double,int,Exc>   CovT;
typedef BandMat<double,int,Exc>  BandT;
typedef Vec<double,int,Exc>      VecT;
typedef TransVec<double,int,Exc> TVecT;
typedef MatBase<double,int,Exc>  BaseT;
typedef VecBase<double,int,Exc>  VBaseT;

enum Kind { NONE, MAT, TMAT, SYM, COV, BAND, VEC, TVEC };
const char* kname[] = { "none", "mat", "tmat", "sym", "cov", "band", "vec", "tvec" };

struct Skip { string why; };

struct Reg {
  Kind kind{NONE};
  std::unique_ptr<MatT>  m;
  std::unique_ptr<TMatT> t;
  std::unique_ptr<SymT>  s;
  std::unique_ptr<CovT>  c;
  std::unique_ptr<BandT> b;
  std::unique_ptr<VecT>  v;
  std::unique_ptr<TVecT> w;
  void clear() { kind = NONE; m.reset(); t.reset(); s.reset(); c.reset(); b.reset(); v.reset(); w.reset(); }
  bool ismat() const { return kind >= MAT && kind <= BAND; }
  bool isvec() const { return kind == VEC || kind == TVEC; }
  BaseT* base() const {
    switch (kind) {
    case MAT: return m.get(); case TMAT: return t.get(); case SYM: return s.get();
    case COV: return c.get(); case BAND: return b.get(); default: return nullptr; }
  }
  VBaseT* vbase() const {
    switch (kind) { case VEC: return v.get(); case TVEC: return w.get(); default: return nullptr; }
  }
};

const int NREG = 10;
Reg R[NREG];

// results are first built completely, then installed: an exception leaves the target untouched
void put(int d, MatT*  p) { R[d].clear(); R[d].kind = MAT;  R[d].m.reset(p); }
void put(int d, TMatT* p) { R[d].clear(); R[d].kind = TMAT; R[d].t.reset(p); }
void put(int d, SymT*  p) { R[d].clear(); R[d].kind = SYM;  R[d].s.reset(p); }
void put(int d, CovT*  p) { R[d].clear(); R[d].kind = COV;  R[d].c.reset(p); }
void put(int d, BandT* p) { R[d].clear(); R[d].kind = BAND; R[d].b.reset(p); }
void put(int d, VecT*  p) { R[d].clear(); R[d].kind = VEC;  R[d].v.reset(p); }
void put(int d, TVecT* p) { R[d].clear(); R[d].kind = TVEC; R[d].w.reset(p); }

Kind kind_of(const string& s)
{
  for (int k = MAT; k <= TVEC; k++) if (s == kname[k]) return Kind(k);
  throw std::runtime_error("bad kind " + s);
}

void num(std::ostream& o, double v)
{
  if (std::isnan(v)) { o << "\"nan\""; return; }
  if (std::isinf(v)) { o << (v > 0 ? "\"inf\"" : "\"-inf\""); return; }
  char buf[40]; snprintf(buf, sizeof buf, "%.17g", v); o << buf;
}

string jstr(const char* s)
{
  string r = "\"";
  for (; s && *s; ++s) {
    if (*s == '"' || *s == '\\') { r += '\\'; r += *s; }
    else if ((unsigned char)*s < 32) r += ' ';
    else r += *s;
  }
  return r + "\"";
}

void dense(std::ostream& o, const BaseT& M)
{
  o << "[";
  for (int i = 1; i <= M.rows(); i++) {
    if (i > 1) o << ",";
    o << "[";
    for (int j = 1; j <= M.cols(); j++) { if (j > 1) o << ","; num(o, M(i, j)); }
    o << "]";
  }
  o << "]";
}

void densev(std::ostream& o, const VBaseT& v)
{
  o << "[";
  for (int i = 1; i <= v.dim(); i++) { if (i > 1) o << ","; num(o, v(i)); }
  o << "]";
}

void dump(std::ostream& o, const Reg& r)
{
  o << "{\"k\":\"" << kname[r.kind] << "\"";
  if (r.ismat()) {
    const BaseT& M = *r.base();
    int w = -1;
    if (r.kind == COV)  w = r.c->bandWidth();
    if (r.kind == BAND) w = r.b->bandWidth();
    o << ",\"r\":" << M.rows() << ",\"c\":" << M.cols() << ",\"w\":" << w
      << ",\"n\":" << long(M.end() - M.begin());
    if (r.kind == SYM)  o << ",\"dim\":" << r.s->dim();
    if (r.kind == COV)  o << ",\"dim\":" << r.c->dim();
    if (r.kind == BAND) o << ",\"dim\":" << r.b->dim();
    o << ",\"v\":"; dense(o, M);
  }
  else if (r.isvec()) {
    const VBaseT& v = *r.vbase();
    o << ",\"r\":" << v.dim() << ",\"n\":" << long(v.end() - v.begin()) << ",\"v\":"; densev(o, v);
  }
  o << "}";
}

int reg(std::istream& in)
{
  int r = -1;
  if (!(in >> r) || r < 0 || r >= NREG) throw std::runtime_error("bad register");
  return r;
}

Reg& live(int r)
{
  if (R[r].kind == NONE) throw Skip{"dead register"};
  return R[r];
}

double dbl(std::istream& in)
{
  double v;
  if (!(in >> v)) throw std::runtime_error("number expected");
  return v;
}

int integer(std::istream& in)
{
  int v;
  if (!(in >> v)) throw std::runtime_error("integer expected");
  return v;
}

void ok(std::ostream& o) { o << "{\"ok\":1}"; }

// ---- construction ------------------------------------------------------------------------------

void construct(int d, Kind k, int a, int b, std::istream* vals)
{
  if (a < 0 || b < 0) throw Skip{"negative dimension"};
  switch (k) {
  case MAT: {
    std::unique_ptr<MatT> p(new MatT(a, b));
    if (vals) for (int i = 1; i <= a; i++) for (int j = 1; j <= b; j++) (*p)(i, j) = dbl(*vals);
    put(d, p.release()); break; }
  case TMAT: {
    std::unique_ptr<TMatT> p(new TMatT);
    p->reset(a, b);
    if (vals) for (int i = 1; i <= a; i++) for (int j = 1; j <= b; j++) (*p)(i, j) = dbl(*vals);
    put(d, p.release()); break; }
  case SYM: {
    std::unique_ptr<SymT> p(new SymT(a));
    if (vals) for (int i = 1; i <= a; i++) for (int j = 1; j <= i; j++) (*p)(i, j) = dbl(*vals);
    put(d, p.release()); break; }
  case COV: {
    if (b > (a ? a - 1 : 0)) throw Skip{"band width > dim-1"};
    std::unique_ptr<CovT> p(new CovT(a, b));
    if (vals) for (int i = 1; i <= a; i++) for (int j = i; j <= i + b && j <= a; j++) (*p)(i, j) = dbl(*vals);
    put(d, p.release()); break; }
  case BAND: {
    if (b > (a ? a - 1 : 0)) throw Skip{"band width > dim-1"};
    std::unique_ptr<BandT> p(new BandT(a, b));
    if (vals) {
      // the rows of the band storage are padded behind the last column; the padding takes
      // part in set_all / *= / cholDec and is given a defined value here
      p->set_zero();
      for (int i = 1; i <= a; i++) for (int j = i; j <= i + b && j <= a; j++) (*p)(i, j) = dbl(*vals);
    }
    put(d, p.release()); break; }
  case VEC: {
    std::unique_ptr<VecT> p(new VecT(a));
    if (vals) for (int i = 1; i <= a; i++) (*p)(i) = dbl(*vals);
    put(d, p.release()); break; }
  case TVEC: {
    std::unique_ptr<TVecT> p(new TVecT(a));
    if (vals) for (int i = 1; i <= a; i++) (*p)(i) = dbl(*vals);
    put(d, p.release()); break; }
  default: throw std::runtime_error("construct");
  }
}

// ---- arithmetic --------------------------------------------------------------------------------

void op_add(int d, Reg& a, Reg& b, bool minus, bool generic)
{
  Kind ka = a.kind, kb = b.kind;
  if (a.ismat() && b.ismat()) {
    if (!generic) {
      if (ka == MAT && kb == MAT)   { put(d, new MatT(minus ? *a.m - *b.m : *a.m + *b.m)); return; }
      if (ka == MAT && kb == TMAT)  { put(d, new MatT(minus ? *a.m - *b.t : *a.m + *b.t)); return; }
      if (ka == TMAT && kb == MAT)  { put(d, new MatT(minus ? *a.t - *b.m : *a.t + *b.m)); return; }
      if (ka == TMAT && kb == TMAT) { put(d, new TMatT(minus ? *a.t - *b.t : *a.t + *b.t)); return; }
      if (ka == SYM && kb == SYM)   { put(d, new SymT(minus ? *a.s - *b.s : *a.s + *b.s)); return; }
    }
    const BaseT& A = *a.base();
    const BaseT& B = *b.base();
    put(d, new MatT(minus ? A - B : A + B));
    return;
  }
  if (generic) throw Skip{"no generic overload"};
  if (ka == VEC && kb == VEC)   { put(d, new VecT(minus ? *a.v - *b.v : *a.v + *b.v)); return; }
  if (ka == TVEC && kb == TVEC) { put(d, new TVecT(minus ? *a.w - *b.w : *a.w + *b.w)); return; }
  throw Skip{"no such sum"};
}

void op_mul(int d, Reg& a, Reg& b, bool generic)
{
  Kind ka = a.kind, kb = b.kind;
  if (a.ismat() && b.ismat()) {
    if (!generic) {
      if (ka == MAT && kb == MAT)   { put(d, new MatT(*a.m * *b.m)); return; }
      if (ka == MAT && kb == TMAT)  { put(d, new MatT(*a.m * *b.t)); return; }
      if (ka == TMAT && kb == MAT)  { put(d, new MatT(*a.t * *b.m)); return; }
      if (ka == TMAT && kb == TMAT) { put(d, new MatT(*a.t * *b.t)); return; }
      if (ka == MAT && kb == SYM)   { put(d, new MatT(*a.m * *b.s)); return; }
      if (ka == SYM && kb == SYM)   { put(d, new SymT(*a.s * *b.s)); return; }
    }
    const BaseT& A = *a.base();
    const BaseT& B = *b.base();
    put(d, new MatT(A * B));
    return;
  }
  if (a.ismat() && kb == VEC) {
    if (!generic) {
      if (ka == MAT)  { put(d, new VecT(*a.m * *b.v)); return; }
      if (ka == TMAT) { put(d, new VecT(*a.t * *b.v)); return; }
      if (ka == COV)  { put(d, new VecT(*a.c * *b.v)); return; }
      if (ka == BAND) { put(d, new VecT(*a.b * *b.v)); return; }
    }
    const BaseT& A = *a.base();
    put(d, new VecT(A * *b.v));
    return;
  }
  if (ka == TVEC && b.ismat()) {
    if (!generic && kb == MAT) { put(d, new TVecT(*a.w * *b.m)); return; }
    const BaseT& B = *b.base();
    put(d, new TVecT(*a.w * B));
    return;
  }
  if (!generic && ka == VEC && kb == TMAT) { put(d, new TVecT(*a.v * *b.t)); return; }
  throw Skip{"no such product"};
}

void op_scalar(int d, Reg& a, double f, bool left)
{
  switch (a.kind) {
  case MAT:  put(d, new MatT (left ? f * *a.m : *a.m * f)); return;
  case VEC:  put(d, new VecT (left ? f * *a.v : *a.v * f)); return;
  case SYM:  put(d, new SymT (left ? f * *a.s : *a.s * f)); return;
  case TVEC: put(d, new TVecT(left ? f * *a.w : *a.w * f)); return;
  default: throw Skip{"no scalar product for this kind"};   // TransMat::operator*(Float) does not compile
  }
}

// ---- SVD helpers -------------------------------------------------------------------------------

void svd_json(std::ostream& out, SVD<double,int,Exc>& svd)
{
  const MatT& U = svd.SVD_U();
  const VecT& W = svd.SVD_W();
  const MatT& V = svd.SVD_V();
  out << "\"U\":"; dense(out, U);
  out << ",\"W\":"; densev(out, W);
  out << ",\"V\":"; dense(out, V);
}

void batch(std::istream& in, std::ostream& out)
{
  int r = integer(in), c = integer(in);
  MatT A(r, c);
  for (int i = 1; i <= r; i++) for (int j = 1; j <= c; j++) A(i, j) = dbl(in);
  const MatT A0(A);
  out << "{";
  if (r == c) {
    out << "\"inv\":";
    try { MatT X = inv(A); dense(out, X); }
    catch (const Exc& e) { out << "{\"exc\":\"matvec\",\"code\":" << e.error() << "}"; }
    out << ",";
  }
  out << "\"svd\":";
  try { SVD<double,int,Exc> svd(A); svd.decompose(); out << "{"; svd_json(out, svd); out << ",\"nullity\":" << svd.nullity() << "}"; }
  catch (const Exc& e) { out << "{\"exc\":\"matvec\",\"code\":" << e.error() << "}"; }
  out << ",\"pinv\":";
  try { MatT P = pinv(A); dense(out, P); }
  catch (const Exc& e) { out << "{\"exc\":\"matvec\",\"code\":" << e.error() << "}"; }
  // the argument must not be touched by any of the three
  bool same = A.rows() == r && A.cols() == c;
  for (int i = 1; same && i <= r; i++) for (int j = 1; j <= c; j++) if (A(i, j) != A0(i, j)) same = false;
  out << ",\"same\":" << (same ? 1 : 0) << "}";
}

// ---- stream round trip -------------------------------------------------------------------------

void op_io(int d, Reg& a)
{
  std::ostringstream os;
  os.precision(17);
  switch (a.kind) {
  case MAT:  os << *a.m; break;
  case TMAT: os << *a.t; break;
  case SYM:  os << *a.s; break;
  case COV:  os << *a.c; break;
  case BAND: os << *a.b; break;
  case VEC:  os << *a.v; break;
  case TVEC: os << *a.w; break;
  default: throw std::runtime_error("io");
  }
  std::istringstream is(os.str());
  // read into the existing object when the target holds one of the same kind
  // (a read is then an assignment between different sizes), else into a fresh one
  bool reuse = (R[d].kind == a.kind) && (&R[d] != &a);
  switch (a.kind) {
  case MAT:  { if (reuse) { is >> *R[d].m; } else { std::unique_ptr<MatT>  p(new MatT);  is >> *p; put(d, p.release()); } break; }
  case TMAT: { if (reuse) { is >> *R[d].t; } else { std::unique_ptr<TMatT> p(new TMatT); is >> *p; put(d, p.release()); } break; }
  case SYM:  { if (reuse) { is >> *R[d].s; } else { std::unique_ptr<SymT>  p(new SymT);  is >> *p; put(d, p.release()); } break; }
  case COV:  { if (reuse) { is >> *R[d].c; } else { std::unique_ptr<CovT>  p(new CovT);  is >> *p; put(d, p.release()); } break; }
  case BAND: { if (reuse) { is >> *R[d].b; } else { std::unique_ptr<BandT> p(new BandT); is >> *p; put(d, p.release()); } break; }
  case VEC:  { if (reuse) { is >> *R[d].v; } else { std::unique_ptr<VecT>  p(new VecT);  is >> *p; put(d, p.release()); } break; }
  case TVEC: { if (reuse) { is >> *R[d].w; } else { std::unique_ptr<TVecT> p(new TVecT); is >> *p; put(d, p.release()); } break; }
  default: break;
  }
  if (!is) throw Exc(Exception::StreamError, "gdrv_mv: stream failed in read");
}

// ---- dispatch ----------------------------------------------------------------------------------

void dispatch(std::istringstream& in, std::ostream& out)
{
  string cmd; in >> cmd;

  if (cmd == "new" || cmd == "newv") {
    string ks; in >> ks;
    Kind k = kind_of(ks);
    int d = reg(in);
    int a = integer(in), b = 0;
    if (k == MAT || k == TMAT || k == COV || k == BAND) b = integer(in);
    construct(d, k, a, b, cmd == "newv" ? &in : nullptr);
    ok(out); return;
  }
  if (cmd == "del") { int r = reg(in); R[r].clear(); ok(out); return; }
  if (cmd == "dump") { int r = reg(in); dump(out, R[r]); return; }
  if (cmd == "dumpall") {
    out << "{\"regs\":{";
    bool first = true;
    for (int i = 0; i < NREG; i++) if (R[i].kind != NONE) {
      if (!first) out << ",";
      first = false;
      out << "\"" << i << "\":"; dump(out, R[i]);
    }
    out << "}}";
    return;
  }
  if (cmd == "batch") { batch(in, out); return; }

  if (cmd == "copy" || cmd == "movec") {
    int d = reg(in), s = reg(in);
    Reg& a = live(s);
    bool mv = cmd == "movec";
    if (d == s) throw Skip{"same register"};
    switch (a.kind) {
    case MAT:  put(d, mv ? new MatT (std::move(*a.m)) : new MatT (*a.m)); break;
    case TMAT: put(d, mv ? new TMatT(std::move(*a.t)) : new TMatT(*a.t)); break;
    case SYM:  put(d, mv ? new SymT (std::move(*a.s)) : new SymT (*a.s)); break;
    case COV:  put(d, mv ? new CovT (std::move(*a.c)) : new CovT (*a.c)); break;
    case BAND: put(d, mv ? new BandT(std::move(*a.b)) : new BandT(*a.b)); break;
    case VEC:  put(d, mv ? new VecT (std::move(*a.v)) : new VecT (*a.v)); break;
    case TVEC: put(d, mv ? new TVecT(std::move(*a.w)) : new TVecT(*a.w)); break;
    default: break;
    }
    ok(out); return;
  }
  if (cmd == "assign" || cmd == "move") {
    int d = reg(in), s = reg(in);
    Reg& t = live(d);
    Reg& a = live(s);
    if (t.kind != a.kind) throw Skip{"kinds differ"};
    bool mv = cmd == "move";
    if (mv && d == s) throw Skip{"self move"};
    switch (a.kind) {
    case MAT:  if (mv) *t.m = std::move(*a.m); else *t.m = *a.m; break;
    case TMAT: if (mv) *t.t = std::move(*a.t); else *t.t = *a.t; break;
    case SYM:  if (mv) *t.s = std::move(*a.s); else *t.s = *a.s; break;
    case COV:  if (mv) *t.c = std::move(*a.c); else *t.c = *a.c; break;
    case BAND: if (mv) *t.b = std::move(*a.b); else *t.b = *a.b; break;
    case VEC:  if (mv) *t.v = std::move(*a.v); else *t.v = *a.v; break;
    case TVEC: if (mv) *t.w = std::move(*a.w); else *t.w = *a.w; break;
    default: break;
    }
    ok(out); return;
  }
  if (cmd == "reset") {
    Reg& a = live(reg(in));
    switch (a.kind) {
    case MAT:  a.m->reset(); break;
    case TMAT: a.t->BaseT::reset(); break;
    case SYM:  a.s->reset(0); break;          // SymMat hides MatBase::reset()
    case COV:  a.c->reset(); break;
    case BAND: a.b->reset(); break;
    case VEC:  a.v->reset(); break;
    case TVEC: a.w->reset(); break;
    default: break;
    }
    ok(out); return;
  }
  if (cmd == "resize") {
    Reg& a = live(reg(in));
    int p = integer(in), q = 0;
    if (a.ismat()) q = integer(in);
    else { int ignored; in >> ignored; }      // the second number is optional for vectors
    if (p < 0 || q < 0) throw Skip{"negative dimension"};
    if ((a.kind == COV || a.kind == BAND) && q > (p ? p - 1 : 0)) throw Skip{"band width > dim-1"};
    switch (a.kind) {
    case MAT:  a.m->reset(p, q); break;
    case TMAT: a.t->reset(p, q); break;
    case SYM:  a.s->reset(p, q); break;       // throws BadRank unless p == q
    case COV:  a.c->reset(p, q); break;
    case BAND: a.b->reset(p, q); break;
    case VEC:  a.v->reset(p); break;
    case TVEC: a.w->reset(p); break;
    default: break;
    }
    ok(out); return;
  }
  if (cmd == "set_zero" || cmd == "set_all" || cmd == "set_identity" || cmd == "set_diagonal") {
    Reg& a = live(reg(in));
    double f = 0;
    if (cmd == "set_all" || cmd == "set_diagonal") f = dbl(in);
    if (a.isvec()) {
      if (cmd == "set_zero") a.vbase()->set_zero();
      else if (cmd == "set_all") a.vbase()->set_all(f);
      else throw Skip{"not for vectors"};
    } else {
      BaseT& M = *a.base();
      if (cmd == "set_zero") M.set_zero();
      else if (cmd == "set_all") M.set_all(f);
      else if (cmd == "set_identity") M.set_identity();
      else M.set_diagonal(f);
    }
    ok(out); return;
  }
  if (cmd == "get" || cmd == "set") {
    Reg& a = live(reg(in));
    int i = integer(in), j = 1;
    if (a.ismat()) j = integer(in);
    bool wr = cmd == "set";
    double f = wr ? dbl(in) : 0;
    if (a.isvec()) {
      if (i < 1 || i > a.vbase()->dim()) throw Skip{"index outside"};
      if (wr) {
        if (a.kind == VEC) (*a.v)(i) = f; else (*a.w)(i) = f;
        ok(out);
      } else {
        const VBaseT& v = *a.vbase();
        out << "{\"v\":"; num(out, v(i)); out << "}";
      }
      return;
    }
    if (i < 1 || j < 1 || i > a.base()->rows() || j > a.base()->cols()) throw Skip{"index outside"};
    if (wr) {
      switch (a.kind) {
      case MAT:  (*a.m)(i, j) = f; break;
      case TMAT: (*a.t)(i, j) = f; break;
      case SYM:  (*a.s)(i, j) = f; break;
      case COV:  (*a.c)(i, j) = f; break;     // BadIndex outside the band
      case BAND: (*a.b)(i, j) = f; break;
      default: break;
      }
      ok(out);
    } else {
      double v = 0;
      switch (a.kind) {
      case MAT:  v = static_cast<const MatT&> (*a.m)(i, j); break;
      case TMAT: v = static_cast<const TMatT&>(*a.t)(i, j); break;
      case SYM:  v = static_cast<const SymT&> (*a.s)(i, j); break;
      case COV:  v = static_cast<const CovT&> (*a.c)(i, j); break;
      case BAND: v = static_cast<const BandT&>(*a.b)(i, j); break;
      default: break;
      }
      out << "{\"v\":"; num(out, v); out << "}";
    }
    return;
  }
  if (cmd == "scale" || cmd == "divide") {
    Reg& a = live(reg(in));
    double f = dbl(in);
    bool div = cmd == "divide";
    switch (a.kind) {
    case MAT:  if (div) *a.m /= f; else *a.m *= f; break;
    case TMAT: if (div) *a.t /= f; else *a.t *= f; break;
    case SYM:  if (div) *a.s /= f; else *a.s *= f; break;
    case COV:  if (div) *a.c /= f; else *a.c *= f; break;
    case BAND: if (div) *a.b /= f; else *a.b *= f; break;
    case VEC:  if (div) *a.v /= f; else *a.v *= f; break;
    case TVEC: if (div) *a.w /= f; else *a.w *= f; break;
    default: break;
    }
    ok(out); return;
  }
  if (cmd == "add" || cmd == "sub" || cmd == "addb" || cmd == "subb") {
    int d = reg(in); Reg& a = live(reg(in)); Reg& b = live(reg(in));
    op_add(d, a, b, cmd[0] == 's', cmd.size() == 4);
    ok(out); return;
  }
  if (cmd == "mul" || cmd == "mulb") {
    int d = reg(in); Reg& a = live(reg(in)); Reg& b = live(reg(in));
    op_mul(d, a, b, cmd == "mulb");
    ok(out); return;
  }
  if (cmd == "muls") { int d = reg(in); Reg& a = live(reg(in)); double f = dbl(in); op_scalar(d, a, f, false); ok(out); return; }
  if (cmd == "smul") { int d = reg(in); double f = dbl(in); Reg& a = live(reg(in)); op_scalar(d, a, f, true); ok(out); return; }
  if (cmd == "iadd" || cmd == "isub") {
    Reg& a = live(reg(in)); Reg& b = live(reg(in));
    bool minus = cmd == "isub";
    if (a.kind == VEC && b.kind == VEC) { if (minus) *a.v -= *b.v; else *a.v += *b.v; }
    else if (a.kind == SYM && b.kind == SYM) { if (minus) *a.s -= *b.s; else *a.s += *b.s; }
    else throw Skip{"no such compound assignment"};
    ok(out); return;
  }
  if (cmd == "trans") {
    int d = reg(in); Reg& a = live(reg(in));
    switch (a.kind) {
    case MAT:  put(d, new TMatT(trans(*a.m))); break;
    case TMAT: put(d, new MatT (trans(*a.t))); break;
    case SYM:  put(d, new SymT (trans(*a.s))); break;
    case VEC:  put(d, new TVecT(trans(*a.v))); break;
    case TVEC: put(d, new VecT (trans(*a.w))); break;
    default: throw Skip{"no trans for this kind"};
    }
    ok(out); return;
  }
  if (cmd == "transpose") {
    Reg& a = live(reg(in));
    if (!a.ismat()) throw Skip{"not a matrix"};
    a.base()->transpose();                    // NotImplemented except for Mat
    ok(out); return;
  }
  if (cmd == "tomat") {
    int d = reg(in); Reg& a = live(reg(in));
    if (a.kind != TMAT) throw Skip{"not a TransMat"};
    put(d, new MatT(*a.t));
    ok(out); return;
  }
  if (cmd == "square" || cmd == "lower" || cmd == "upper") {
    int d = reg(in); Reg& a = live(reg(in));
    if (a.kind != SYM) throw Skip{"not a SymMat"};
    if (cmd == "square") put(d, new MatT(Square(*a.s)));
    else if (cmd == "lower") put(d, new MatT(Lower(*a.s)));
    else put(d, new MatT(Upper(*a.s)));
    ok(out); return;
  }
  if (cmd == "symlower" || cmd == "symupper") {
    int d = reg(in); Reg& a = live(reg(in));
    if (a.kind != MAT) throw Skip{"not a Mat"};
    if (cmd == "symlower") put(d, new SymT(Lower(*a.m))); else put(d, new SymT(Upper(*a.m)));
    ok(out); return;
  }
  if (cmd == "inv") {
    int d = reg(in); Reg& a = live(reg(in));
    if (a.kind == MAT) put(d, new MatT(inv(*a.m)));
    else if (a.kind == SYM) put(d, new SymT(inv(*a.s)));
    else throw Skip{"no inv for this kind"};
    ok(out); return;
  }
  if (cmd == "invert") {
    Reg& a = live(reg(in));
    if (a.kind == MAT) a.m->invert();
    else if (a.kind == SYM) a.s->invert();
    else if (a.ismat()) a.base()->invert();   // NotImplemented
    else throw Skip{"not a matrix"};
    ok(out); return;
  }
  if (cmd == "choldec") {
    Reg& a = live(reg(in));
    if (a.kind == SYM) { a.s->cholDec(); out << "{\"ok\":1,\"nullity\":" << a.s->nullity() << "}"; return; }
    if (a.kind == COV) a.c->cholDec();
    else if (a.kind == BAND) a.b->cholDec();
    else throw Skip{"no cholDec for this kind"};
    ok(out); return;
  }
  if (cmd == "nullity") {
    Reg& a = live(reg(in));
    if (a.kind != SYM) throw Skip{"not a SymMat"};
    out << "{\"v\":" << a.s->nullity() << "}"; return;
  }
  if (cmd == "solve") {
    Reg& a = live(reg(in)); Reg& b = live(reg(in));
    if (b.kind != VEC) throw Skip{"rhs is not a Vec"};
    if (a.kind == SYM) a.s->solve(*b.v);
    else if (a.kind == COV) a.c->solve(*b.v);
    else if (a.kind == BAND) a.b->solve(*b.v);
    else throw Skip{"no solve for this kind"};
    ok(out); return;
  }
  if (cmd == "invband") {
    int d = reg(in); Reg& a = live(reg(in)); int pbw = integer(in);
    if (a.kind != BAND) throw Skip{"not a BandMat"};
    if (pbw < 0 || pbw > (a.b->dim() ? a.b->dim() - 1 : 0)) throw Skip{"band width > dim-1"};
    if (R[d].kind == BAND && &R[d] != &a) a.b->invBand(*R[d].b, pbw);     // into an existing object
    else { std::unique_ptr<BandT> z(new BandT); a.b->invBand(*z, pbw); put(d, z.release()); }
    ok(out); return;
  }
  if (cmd == "tridiag") {
    Reg& a = live(reg(in));
    if (a.kind != BAND) throw Skip{"not a BandMat"};
    a.b->triDiag();
    ok(out); return;
  }
  if (cmd == "eig") {
    int d = reg(in); Reg& a = live(reg(in));
    if (a.kind != BAND) throw Skip{"not a BandMat"};
    if (R[d].kind == VEC) a.b->eigenVal(*R[d].v);
    else { std::unique_ptr<VecT> e(new VecT); a.b->eigenVal(*e); put(d, e.release()); }
    ok(out); return;
  }
  if (cmd == "svd" || cmd == "svdr") {
    int dU = reg(in), dW = reg(in), dV = reg(in);
    Reg* a0 = nullptr;
    if (cmd == "svdr") a0 = &live(reg(in));
    Reg& a = live(reg(in));
    if (a.kind != MAT || (a0 && a0->kind != MAT)) throw Skip{"not a Mat"};
    if (dU == dW || dU == dV || dW == dV) throw Skip{"targets must differ"};
    std::unique_ptr<MatT> U, V; std::unique_ptr<VecT> W;
    int nullity;
    if (a0) {
      SVD<double,int,Exc> svd(*a0->m);
      svd.decompose();
      svd.reset(*a.m);
      U.reset(new MatT(svd.SVD_U())); W.reset(new VecT(svd.SVD_W())); V.reset(new MatT(svd.SVD_V()));
      nullity = svd.nullity();
    } else {
      SVD<double,int,Exc> svd(*a.m);
      svd.decompose();
      U.reset(new MatT(svd.SVD_U())); W.reset(new VecT(svd.SVD_W())); V.reset(new MatT(svd.SVD_V()));
      nullity = svd.nullity();
    }
    put(dU, U.release()); put(dW, W.release()); put(dV, V.release());
    out << "{\"ok\":1,\"nullity\":" << nullity << "}"; return;
  }
  if (cmd == "svd_solve") {
    int dx = reg(in); Reg& a = live(reg(in)); Reg& b = live(reg(in));
    if (a.kind != MAT || b.kind != VEC) throw Skip{"Mat and Vec expected"};
    SVD<double,int,Exc> svd(*a.m);
    if (R[dx].kind == VEC && &R[dx] != &b) svd.solve(*b.v, *R[dx].v);
    else { std::unique_ptr<VecT> x(new VecT); svd.solve(*b.v, *x); put(dx, x.release()); }
    ok(out); return;
  }
  if (cmd == "svd_q") {
    Reg& a = live(reg(in));
    if (a.kind != MAT) throw Skip{"not a Mat"};
    SVD<double,int,Exc> svd(*a.m);
    int n = a.m->cols();
    out << "{\"nullity\":" << svd.nullity() << ",\"qxx\":[";
    for (int i = 1; i <= n; i++) {
      if (i > 1) out << ",";
      out << "[";
      for (int j = 1; j <= n; j++) { if (j > 1) out << ","; num(out, svd.q_xx(i, j)); }
      out << "]";
    }
    out << "]}"; return;
  }
  if (cmd == "pinv") {
    int d = reg(in); Reg& a = live(reg(in));
    if (a.kind != MAT) throw Skip{"not a Mat"};
    put(d, new MatT(pinv(*a.m)));
    ok(out); return;
  }
  if (cmd == "gso") {
    int d = reg(in); Reg& a = live(reg(in)); int M = integer(in), N = integer(in);
    if (a.kind != MAT) throw Skip{"not a Mat"};
    if (M < 1 || N < 1 || M > a.m->rows() || N > a.m->cols()) throw Skip{"block outside the matrix"};
    std::unique_ptr<MatT> w(new MatT(*a.m));
    GSO<double,int,Exc> g(*w, M, N);
    g.gso1();
    int defect = g.defect();
    std::ostringstream l;
    for (int i = 1; i <= N; i++) { if (i > 1) l << ","; l << (g.lindep(i) ? 1 : 0); }
    put(d, w.release());
    out << "{\"ok\":1,\"defect\":" << defect << ",\"lindep\":[" << l.str() << "]}"; return;
  }
  if (cmd == "dot" || cmd == "tdot") {
    Reg& a = live(reg(in)); Reg& b = live(reg(in));
    double v;
    if (cmd == "tdot") {
      if (a.kind != TVEC || b.kind != VEC) throw Skip{"TransVec and Vec expected"};
      v = *a.w * *b.v;
    } else {
      if (!a.isvec() || !b.isvec()) throw Skip{"vectors expected"};
      v = a.vbase()->dot(*b.vbase());
    }
    out << "{\"v\":"; num(out, v); out << "}"; return;
  }
  if (cmd == "norms") {
    Reg& a = live(reg(in));
    if (!a.isvec()) throw Skip{"vector expected"};
    const VBaseT& v = *a.vbase();
    out << "{\"l1\":"; num(out, v.norm_L1()); out << ",\"l2\":"; num(out, v.norm_L2());
    out << ",\"linf\":"; num(out, v.norm_Linf()); out << "}"; return;
  }
  if (cmd == "sort") {
    Reg& a = live(reg(in));
    if (a.kind != VEC) throw Skip{"Vec expected"};
    sort(*a.v);
    ok(out); return;
  }
  if (cmd == "io") {
    int d = reg(in); Reg& a = live(reg(in));
    op_io(d, a);
    ok(out); return;
  }
  throw std::runtime_error("unknown command " + cmd);
}

} // namespace

int main()
{
  std::ios::sync_with_stdio(false);
  string line;
  while (std::getline(std::cin, line)) {
    if (line.empty()) continue;
    std::istringstream in(line);
    std::ostringstream out;
    try {
      dispatch(in, out);
    }
    catch (const Exc& e) {
      out.str(""); out << "{\"exc\":\"matvec\",\"code\":" << e.error() << ",\"text\":" << jstr(e.what()) << "}";
    }
    catch (const Skip& s) {
      out.str(""); out << "{\"skip\":" << jstr(s.why.c_str()) << "}";
    }
    catch (const std::runtime_error& e) {
      out.str(""); out << "{\"fatal\":" << jstr(e.what()) << "}";
    }
    catch (const std::exception& e) {
      out.str(""); out << "{\"exc\":\"std\",\"text\":" << jstr(e.what()) << "}";
    }
    std::cout << out.str() << std::endl;
  }
  for (int i = 0; i < NREG; i++) R[i].clear();      // destructors run under ASan (double free of aliased buffers)
  return 0;
}
