// gdrv_adj: line-protocol driver around GNU_gama::Adj and the four AdjBase
// solver classes.  Pure function of its stdin.  One JSON answer per command.
//
// Input grammar (whitespace separated tokens):
//   problem M N
//     M x { k  idx val ... }          sparse rows (1-based column indices)
//     M x rhs
//     NB  then NB x { dim width  <dim*(w+1)-w*(w+1)/2 values> }   covariance
//     K   then K indices              regularisation list; K=-1: none given
//   cmd ...                           see dispatch() below
#include <gnu_gama/adj/adj.h>
#include <gnu_gama/adj/adj_input_data.h>
#include <gnu_gama/adj/adj_envelope.h>
#include <gnu_gama/adj/adj_chol.h>
#include <gnu_gama/adj/adj_gso.h>
#include <gnu_gama/adj/adj_svd.h>
#include <gnu_gama/exception.h>
#include <gnu_gama/local/exception.h>
#include <iostream>
#include <sstream>
#include <vector>
#include <map>
#include <memory>
#include <cstdio>
#include <cmath>

using namespace GNU_gama;
using std::string;
using std::vector;

namespace {

struct Problem {
  int M{0}, N{0};
  vector<vector<std::pair<int,double>>> rows;
  vector<double> rhs;
  struct Block { int dim, width; vector<double> v; };
  vector<Block> blocks;
  int K{-1};
  vector<int> minx;
};

Problem P;

AdjInputData* make_data(const Problem& p, bool with_minx)
{
  AdjInputData* d = new AdjInputData;
  int nz = 0;
  for (auto& r : p.rows) nz += r.size();
  SparseMatrix<>* A = new SparseMatrix<>(nz, p.M, p.N);
  for (auto& r : p.rows) {
    A->new_row();
    for (auto& e : r) A->add_element(e.second, e.first);
  }
  d->set_mat(A);
  int fl = 0;
  for (auto& b : p.blocks) fl += b.v.size();
  BlockDiagonal<>* C = new BlockDiagonal<>(p.blocks.size(), fl);
  for (auto& b : p.blocks) C->add_block(b.dim, b.width, b.v.data());
  d->set_cov(C);
  Vec<> rhs(p.M);
  for (int i=1; i<=p.M; i++) rhs(i) = p.rhs[i-1];
  d->set_rhs(rhs);
  if (with_minx && p.K >= 0) {
    IntegerList<>* l = new IntegerList<>(p.K);
    int k = 0;
    for (IntegerList<>::iterator i=l->begin(); i!=l->end(); ++i) *i = p.minx[k++];
    d->set_minx(l);
  }
  return d;
}

typedef AdjBase<double,int,Exception::matvec> Base;
typedef AdjBaseFull<double,int,Exception::matvec> Full;

struct Obj {
  string kind;            // "adj" or "raw"
  string alg;
  std::unique_ptr<Adj> adj;
  // raw
  std::unique_ptr<Base> base;
  std::unique_ptr<AdjInputData> data;   // for raw envelope
  Mat<> A; Vec<> b;                     // for raw full (identity weights)
};

std::map<int, std::unique_ptr<Obj>> objs;

Adj::algorithm alg_of(const string& s)
{
  if (s == "envelope") return Adj::envelope;
  if (s == "gso") return Adj::gso;
  if (s == "svd") return Adj::svd;
  if (s == "cholesky") return Adj::cholesky;
  throw std::runtime_error("bad algorithm " + s);
}

void num(std::ostream& o, double v)
{
  if (std::isnan(v)) { o << "\"nan\""; return; }
  if (std::isinf(v)) { o << (v>0 ? "\"inf\"" : "\"-inf\""); return; }
  char buf[40]; snprintf(buf, sizeof buf, "%.17g", v); o << buf;
}

void vecj(std::ostream& o, const Vec<>& v)
{
  o << "[";
  for (int i=1; i<=v.dim(); i++) { if (i>1) o << ","; num(o, v(i)); }
  o << "]";
}

string jstr(const char* s)
{
  string r = "\"";
  for (; s && *s; ++s) {
    if (*s == '"' || *s == '\\') { r += '\\'; r += *s; }
    else if ((unsigned char)*s < 32) r += ' ';
    else r += *s;
  }
  return r + "\"";
}

void fill_dense(Obj& o)
{
  o.A.reset(P.M, P.N); o.A.set_zero();
  o.b.reset(P.M);
  for (int i=0; i<P.M; i++) {
    for (auto& e : P.rows[i]) o.A(i+1, e.first) = e.second;
    o.b(i+1) = P.rhs[i];
  }
}

void raw_reset(Obj& o)
{
  if (o.alg == "envelope") {
    o.data.reset(make_data(P, false));
    static_cast<AdjEnvelope<>*>(o.base.get())->reset(o.data.get());
  } else {
    fill_dense(o);
    static_cast<Full*>(o.base.get())->reset(o.A, o.b);
  }
}

void dispatch(std::istringstream& in, std::ostream& out)
{
  string cmd; in >> cmd;
  if (cmd == "new") {
    int slot; string kind, alg; in >> slot >> kind >> alg;
    std::unique_ptr<Obj> o(new Obj);
    o->kind = kind; o->alg = alg;
    string opt; in >> opt;      // optional: "noset" | "minx K i1..iK" (K=-1 none, K=-2 min_x())
    Problem saved = P;
    bool call_all = false;
    if (opt == "minx") {
      int k; in >> k;
      P.minx.clear();
      if (k == -2) { call_all = true; P.K = -1; }
      else { P.K = k; for (int i=0; i<k; i++) { int v; in >> v; P.minx.push_back(v); } }
    }
    struct Restore { Problem& p; Problem& s; ~Restore() { p.K = s.K; p.minx = s.minx; } } restore{P, saved};
    if (kind == "adj") {
      o->adj.reset(new Adj);
      o->adj->set_algorithm(alg_of(alg));
      if (opt != "noset") o->adj->set(make_data(P, true));
    } else {
      if (alg == "envelope") o->base.reset(new AdjEnvelope<>);
      else if (alg == "gso") o->base.reset(new AdjGSO<double,int,Exception::matvec>);
      else if (alg == "svd") o->base.reset(new AdjSVD<double,int,Exception::matvec>);
      else if (alg == "cholesky") o->base.reset(new AdjCholDec<>);
      else throw std::runtime_error("bad algorithm");
      // regularisation as in Adj::init_least_squares: before reset
      if (P.K >= 0) {
        vector<int> m = P.minx; m.push_back(0);
        o->base->min_x(P.K, m.data());
      }
      else if (call_all) o->base->min_x();
      raw_reset(*o);
    }
    objs[slot] = std::move(o);
    out << "{\"ok\":1}";
    return;
  }
  if (cmd == "del") { int slot; in >> slot; objs.erase(slot); out << "{\"ok\":1}"; return; }

  int slot = atoi(cmd.c_str());
  auto it = objs.find(slot);
  if (it == objs.end()) throw std::runtime_error("no object in slot " + cmd);
  Obj& o = *it->second;
  string q; in >> q;
  bool isadj = o.kind == "adj";
  if (q == "x")      { out << "{\"v\":"; vecj(out, isadj ? o.adj->x() : o.base->unknowns()); out << "}"; }
  else if (q == "r") { out << "{\"v\":"; vecj(out, isadj ? o.adj->r() : o.base->residuals()); out << "}"; }
  else if (q == "rtr")    { out << "{\"v\":"; num(out, isadj ? o.adj->rtr() : o.base->sum_of_squares()); out << "}"; }
  else if (q == "defect") { out << "{\"v\":" << (isadj ? o.adj->defect() : o.base->defect()) << "}"; }
  else if (q == "qxx" || q == "qbb" || q == "q0xx") {
    int i, j; in >> i >> j; double v;
    if (q == "qxx") v = isadj ? o.adj->q_xx(i,j) : o.base->q_xx(i,j);
    else if (q == "qbb") v = isadj ? o.adj->q_bb(i,j) : o.base->q_bb(i,j);
    else { if (isadj) throw std::runtime_error("q0xx on adj"); v = o.base->q0_xx(i,j); }
    out << "{\"v\":"; num(out, v); out << "}";
  }
  else if (q == "allqbx") {
    // cofactors between adjusted observations and unknowns (AdjBase classes only; M x N)
    if (isadj) throw std::runtime_error("allqbx on adj");
    out << "{\"v\":[";
    for (int i=1; i<=P.M; i++) {
      if (i>1) out << ",";
      out << "[";
      for (int j=1; j<=P.N; j++) { if (j>1) out << ","; num(out, o.base->q_bx(i,j)); }
      out << "]";
    }
    out << "]}";
  }
  else if (q == "allqxx" || q == "allqbb") {
    int n = q == "allqxx" ? P.N : P.M;
    out << "{\"v\":[";
    for (int i=1; i<=n; i++) {
      if (i>1) out << ",";
      out << "[";
      for (int j=1; j<=n; j++) {
        if (j>1) out << ",";
        double v = q == "allqxx" ? (isadj ? o.adj->q_xx(i,j) : o.base->q_xx(i,j))
                                 : (isadj ? o.adj->q_bb(i,j) : o.base->q_bb(i,j));
        num(out, v);
      }
      out << "]";
    }
    out << "]}";
  }
  else if (q == "lindep") { int i; in >> i; if (isadj) throw std::runtime_error("lindep on adj");
    out << "{\"v\":" << (o.base->lindep(i) ? 1 : 0) << "}"; }
  else if (q == "cond")  { if (isadj) throw std::runtime_error("cond on adj");
    out << "{\"v\":"; num(out, o.base->cond()); out << "}"; }
  else if (q == "minx") {
    if (isadj) throw std::runtime_error("minx on adj");
    int k; in >> k;
    if (k < 0) o.base->min_x();
    else { vector<int> m(k+1); for (int i=0; i<k; i++) in >> m[i]; o.base->min_x(k, m.data()); }
    out << "{\"ok\":1}";
  }
  else if (q == "reset") {
    if (isadj) o.adj->set(make_data(P, true)); else raw_reset(o);
    out << "{\"ok\":1}";
  }
  else if (q == "alg") {
    string a; in >> a;
    if (!isadj) throw std::runtime_error("alg on raw");
    o.adj->set_algorithm(alg_of(a)); o.alg = a;
    out << "{\"ok\":1}";
  }
  else throw std::runtime_error("unknown query " + q);
}

bool read_body(std::istream& in)
{
  P.rows.assign(P.M, {});
  for (int i=0; i<P.M; i++) {
    int k; in >> k;
    for (int j=0; j<k; j++) { int c; double v; in >> c >> v; P.rows[i].push_back({c, v}); }
  }
  P.rhs.resize(P.M);
  for (int i=0; i<P.M; i++) in >> P.rhs[i];
  int nb; in >> nb;
  P.blocks.clear();
  for (int b=0; b<nb; b++) {
    Problem::Block B; in >> B.dim >> B.width;
    int n = B.dim*(B.width+1) - B.width*(B.width+1)/2;
    B.v.resize(n);
    for (int i=0; i<n; i++) in >> B.v[i];
    P.blocks.push_back(B);
  }
  in >> P.K;
  P.minx.clear();
  for (int i=0; i<P.K; i++) { int k; in >> k; P.minx.push_back(k); }
  return bool(in);
}

bool read_problem(std::istream& in)
{
  string w;
  if (!(in >> w) || w != "problem") return false;
  in >> P.M >> P.N;
  return read_body(in);
}

} // namespace

int main()
{
  std::ios::sync_with_stdio(false);
  if (!read_problem(std::cin)) { std::cout << "{\"fatal\":\"bad problem\"}" << std::endl; return 2; }
  string line;
  std::getline(std::cin, line);
  while (std::getline(std::cin, line)) {
    if (line.empty()) continue;
    if (line.rfind("problem ", 0) == 0) {
      // another problem replaces the current one: objects that exist keep their state and get it by their next 'reset'
      std::istringstream h(line);
      string w; h >> w >> P.M >> P.N;
      bool ok = read_body(std::cin);
      string rest; std::getline(std::cin, rest);
      std::cout << (ok ? "{\"ok\":\"problem\"}" : "{\"fatal\":\"bad problem\"}") << std::endl;
      if (!ok) return 2;
      continue;
    }
    std::istringstream in(line);
    std::ostringstream out;
    try {
      dispatch(in, out);
    }
    catch (const Exception::matvec& e) {
      out.str(""); out << "{\"exc\":\"matvec\",\"code\":" << e.error() << ",\"text\":" << jstr(e.what()) << "}";
    }
    catch (const Exception::adjustment& e) {
      out.str(""); out << "{\"exc\":\"adjustment\",\"text\":" << jstr(e.what()) << "}";
    }
    catch (const Exception::string& e) {
      out.str(""); out << "{\"exc\":\"string\",\"text\":" << jstr(e.what()) << "}";
    }
    catch (const std::runtime_error& e) {
      out.str(""); out << "{\"fatal\":" << jstr(e.what()) << "}";
    }
    catch (const std::exception& e) {
      out.str(""); out << "{\"exc\":\"std\",\"text\":" << jstr(e.what()) << "}";
    }
    std::cout << out.str() << std::endl;
  }
  return 0;
}
