// gdrv_res: dump of GNU_gama::LocalNetworkAdjustmentResults (gama's own reader of adjustment results)
//   gdrv_res xml|html <file>
#include <gnu_gama/xml/localnetwork_adjustment_results.h>
#include <gnu_gama/exception.h>
#include <fstream>
#include <iostream>
#include <sstream>
#include <cstdio>
#include <cmath>
#include <cstring>

static void num(std::ostream& o, double v)
{
  if (std::isnan(v)) { o << "\"nan\""; return; }
  if (std::isinf(v)) { o << (v>0 ? "\"inf\"" : "\"-inf\""); return; }
  char buf[40]; snprintf(buf, sizeof buf, "%.17g", v); o << buf;
}
static std::string jstr(const std::string& s)
{
  std::string r = "\"";
  for (unsigned char c : s) {
    if (c == '"' || c == '\\') { r += '\\'; r += c; }
    else if (c < 32) { char b[8]; snprintf(b, sizeof b, "\\u%04x", c); r += b; }
    else r += c;
  }
  return r + "\"";
}

int main(int argc, char** argv)
{
  if (argc < 3) return 2;
  std::ifstream in(argv[2]);
  GNU_gama::LocalNetworkAdjustmentResults R;
  std::ostringstream out;
  try {
    if (!strcmp(argv[1], "html")) R.read_html(in); else R.read_xml(in);
  }
  catch (const GNU_gama::Exception::parser& e) {
    std::cout << "{\"exc\":\"parser\",\"line\":" << e.line << ",\"text\":" << jstr(e.str) << "}" << std::endl; return 0;
  }
  catch (const std::exception& e) {
    std::cout << "{\"exc\":\"std\",\"text\":" << jstr(e.what()) << "}" << std::endl; return 0;
  }
  out << "{\"description\":" << jstr(R.description);
  out << ",\"algorithm\":" << jstr(R.network_general_parameters.gama_local_algorithm)
      << ",\"axes_xy\":" << jstr(R.network_general_parameters.axes_xy)
      << ",\"angles\":" << jstr(R.network_general_parameters.angles);
  out << ",\"summary\":{\"adj_xyz\":" << R.coordinates_summary.adjusted.xyz << ",\"adj_xy\":" << R.coordinates_summary.adjusted.xy
      << ",\"adj_z\":" << R.coordinates_summary.adjusted.z
      << ",\"con_xyz\":" << R.coordinates_summary.constrained.xyz << ",\"con_xy\":" << R.coordinates_summary.constrained.xy
      << ",\"con_z\":" << R.coordinates_summary.constrained.z
      << ",\"fix_xyz\":" << R.coordinates_summary.fixed.xyz << ",\"fix_xy\":" << R.coordinates_summary.fixed.xy
      << ",\"fix_z\":" << R.coordinates_summary.fixed.z
      << ",\"distances\":" << R.observations_summary.distances << ",\"directions\":" << R.observations_summary.directions
      << ",\"angles\":" << R.observations_summary.angles << ",\"xyz_coords\":" << R.observations_summary.xyz_coords
      << ",\"h_diffs\":" << R.observations_summary.h_diffs << ",\"z_angles\":" << R.observations_summary.z_angles
      << ",\"s_dists\":" << R.observations_summary.s_dists << ",\"vectors\":" << R.observations_summary.vectors
      << ",\"azimuths\":" << R.observations_summary.azimuths
      << ",\"equations\":" << R.project_equations.equations << ",\"unknowns\":" << R.project_equations.unknowns
      << ",\"dof\":" << R.project_equations.degrees_of_freedom << ",\"defect\":" << R.project_equations.defect
      << ",\"connected\":" << R.project_equations.connected_network;
  out << ",\"sum_of_squares\":"; num(out, R.project_equations.sum_of_squares);
  out << ",\"apriori\":"; num(out, R.standard_deviation.apriori);
  out << ",\"aposteriori\":"; num(out, R.standard_deviation.aposteriori);
  out << ",\"using_aposteriori\":" << R.standard_deviation.using_aposteriori;
  out << ",\"probability\":"; num(out, R.standard_deviation.probability);
  out << ",\"ratio\":"; num(out, R.standard_deviation.ratio);
  out << ",\"lower\":"; num(out, R.standard_deviation.lower);
  out << ",\"upper\":"; num(out, R.standard_deviation.upper);
  out << ",\"status\":" << int(R.standard_deviation.status);
  out << ",\"confidence_scale\":"; num(out, R.standard_deviation.confidence_scale);
  out << "}";
  auto points = [&](const char* name, const GNU_gama::LocalNetworkAdjustmentResults::PointList& L) {
    out << ",\"" << name << "\":[";
    bool f = true;
    for (auto& p : L) {
      if (!f) out << ","; f = false;
      out << "{\"id\":" << jstr(p.id) << ",\"hxy\":" << p.hxy << ",\"hz\":" << p.hz
          << ",\"cxy\":" << p.cxy << ",\"cz\":" << p.cz << ",\"indx\":" << p.indx << ",\"indy\":" << p.indy << ",\"indz\":" << p.indz;
      out << ",\"x\":"; num(out, p.x); out << ",\"y\":"; num(out, p.y); out << ",\"z\":"; num(out, p.z);
      out << "}";
    }
    out << "]";
  };
  points("fixed", R.fixed_points);
  points("approximate", R.approximate_points);
  points("adjusted", R.adjusted_points);
  out << ",\"ellipses\":[";
  { bool f = true; for (auto& e : R.ellipses) { if (!f) out << ","; f = false;
      out << "{\"id\":" << jstr(e.id) << ",\"major\":"; num(out, e.major); out << ",\"minor\":"; num(out, e.minor);
      out << ",\"alpha\":"; num(out, e.alpha); out << "}"; } }
  out << "],\"orientations\":[";
  { bool f = true; for (auto& o : R.orientations) { if (!f) out << ","; f = false;
      out << "{\"id\":" << jstr(o.id) << ",\"index\":" << o.index << ",\"approx\":"; num(out, o.approx);
      out << ",\"adj\":"; num(out, o.adj); out << "}"; } }
  out << "],\"cov\":{\"dim\":" << R.cov.dim() << ",\"band\":" << R.cov.bandWidth() << ",\"flt\":[";
  { bool f = true;
    const int d = R.cov.dim(), w = R.cov.bandWidth();
    for (int i=1; i<=d; i++) for (int j=i; j<=d && j<=i+w; j++) { if (!f) out << ","; f = false; num(out, R.cov(i,j)); } }
  out << "]},\"original_index\":[";
  { bool f = true; for (int i : R.original_index) { if (!f) out << ","; f = false; out << i; } }
  out << "],\"observations\":[";
  { bool f = true; for (auto& o : R.obslist) { if (!f) out << ","; f = false;
      out << "{\"tag\":" << jstr(o.xml_tag) << ",\"from\":" << jstr(o.from) << ",\"to\":" << jstr(o.to)
          << ",\"left\":" << jstr(o.left) << ",\"right\":" << jstr(o.right);
      out << ",\"obs\":"; num(out, o.obs); out << ",\"adj\":"; num(out, o.adj); out << ",\"stdev\":"; num(out, o.stdev);
      out << ",\"qrr\":"; num(out, o.qrr); out << ",\"f\":"; num(out, o.f);
      out << ",\"std_residual\":"; num(out, o.std_residual);
      out << ",\"err_obs\":" << jstr(o.err_obs) << ",\"err_adj\":" << jstr(o.err_adj) << "}"; } }
  out << "]}";
  std::cout << out.str() << std::endl;
  return 0;
}
