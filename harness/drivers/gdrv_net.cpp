// gdrv_net: runs the gama-local pipeline on one GKF file through the library API
// (same sequence of steps as main() in src/gama-local.cpp) and dumps the internal
// state as one JSON document: points, unknowns, linearised equations (obtained by
// running LocalLinearization again on every active observation), covariance blocks,
// regularisation list, solution, cofactors.
//
//   gdrv_net <file.gkf> <algorithm|-> [lin]      lin: stop after linearisation
#include <gnu_gama/xml/gkfparser.h>
#include <gnu_gama/local/network.h>
#include <gnu_gama/local/gamadata.h>
#include <gnu_gama/local/language.h>
#include <gnu_gama/local/acord/acord2.h>
#include <gnu_gama/local/local_linearization.h>
#include <gnu_gama/local/test_linearization_visitor.h>
#include <gnu_gama/local/results/text/general_parameters.h>
#include <gnu_gama/local/xmlerror.h>
#include <fstream>
#include <iostream>
#include <sstream>
#include <cstdio>
#include <cmath>
#include <cstring>

using namespace GNU_gama::local;
using std::string;

GNU_gama::local::XMLerror xmlerr;

static void num(std::ostream& o, double v)
{
  if (std::isnan(v)) { o << "\"nan\""; return; }
  if (std::isinf(v)) { o << (v>0 ? "\"inf\"" : "\"-inf\""); return; }
  char buf[40]; snprintf(buf, sizeof buf, "%.17g", v); o << buf;
}

static string jstr(const string& s)
{
  string r = "\"";
  for (unsigned char c : s) {
    if (c == '"' || c == '\\') { r += '\\'; r += c; }
    else if (c < 32) { char b[8]; snprintf(b, sizeof b, "\\u%04x", c); r += b; }
    else r += c;
  }
  return r + "\"";
}

static const char* obs_type(const Observation* o)
{
  if (dynamic_cast<const Direction*>(o))  return "direction";
  if (dynamic_cast<const Distance*>(o))   return "distance";
  if (dynamic_cast<const Angle*>(o))      return "angle";
  if (dynamic_cast<const S_Distance*>(o)) return "s-distance";
  if (dynamic_cast<const Z_Angle*>(o))    return "z-angle";
  if (dynamic_cast<const Azimuth*>(o))    return "azimuth";
  if (dynamic_cast<const H_Diff*>(o))     return "dh";
  if (dynamic_cast<const X*>(o))          return "x";
  if (dynamic_cast<const Y*>(o))          return "y";
  if (dynamic_cast<const Z*>(o))          return "z";
  if (dynamic_cast<const Xdiff*>(o))      return "dx";
  if (dynamic_cast<const Ydiff*>(o))      return "dy";
  if (dynamic_cast<const Zdiff*>(o))      return "dz";
  return "?";
}

static void dump_obs_ident(std::ostream& out, const Observation* o)
{
  out << "\"t\":\"" << obs_type(o) << "\",\"from\":" << jstr(o->from().str())
      << ",\"to\":" << jstr(o->to().str());
  if (const Angle* a = dynamic_cast<const Angle*>(o)) out << ",\"fs\":" << jstr(a->fs().str());
}

static void dump_points(std::ostream& out, LocalNetwork* IS)
{
  out << "\"points\":[";
  bool first = true;
  for (PointData::const_iterator i=IS->PD.begin(); i!=IS->PD.end(); ++i) {
    const LocalPoint& p = (*i).second;
    if (!first) out << ","; first = false;
    out << "{\"id\":" << jstr((*i).first.str())
        << ",\"has_xy\":" << p.test_xy() << ",\"has_z\":" << p.test_z();
    out << ",\"x\":"; num(out, p.x()); out << ",\"y\":"; num(out, p.y()); out << ",\"z\":"; num(out, p.z());
    out << ",\"x0\":"; num(out, p.x_0()); out << ",\"y0\":"; num(out, p.y_0()); out << ",\"z0\":"; num(out, p.z_0());
    out << ",\"fixed_xy\":" << p.fixed_xy() << ",\"free_xy\":" << p.free_xy() << ",\"constr_xy\":" << p.constrained_xy()
        << ",\"fixed_z\":" << p.fixed_z() << ",\"free_z\":" << p.free_z() << ",\"constr_z\":" << p.constrained_z()
        << ",\"active_xy\":" << p.active_xy() << ",\"active_z\":" << p.active_z()
        << ",\"ix\":" << p.index_x() << ",\"iy\":" << p.index_y() << ",\"iz\":" << p.index_z() << "}";
  }
  out << "]";
}

static void dump_removed(std::ostream& out, LocalNetwork* IS)
{
  out << "\"removed_points\":[";
  std::list<LocalNetwork::rm_points>::const_iterator c = IS->removed_code.begin();
  bool first = true;
  for (PointIDList::const_iterator i=IS->removed_points.begin(); i!=IS->removed_points.end(); ++i, ++c) {
    if (!first) out << ","; first = false;
    out << "[" << jstr((*i).str()) << "," << int(*c) << "]";
  }
  out << "],\"removed_obs\":[";
  first = true;
  for (auto o : IS->rejected_observations()) {
    if (!first) out << ","; first = false;
    out << "{"; dump_obs_ident(out, o); out << "}";
  }
  out << "]";
}

static void dump_equations(std::ostream& out, LocalNetwork* IS)
{
  const int M = IS->observations_count();
  const int N = IS->unknowns_count();
  out << "\"M\":" << M << ",\"N\":" << N << ",\"unknowns\":[";
  for (int i=1; i<=N; i++) {
    if (i>1) out << ",";
    out << "[\"" << IS->unknown_type(i) << "\"," << jstr(IS->unknown_pointid(i).str()) << "]";
  }
  out << "],\"obs\":[";
  LocalLinearization lin(IS->PD, IS->apriori_m_0());
  // indices of unknowns were assigned by project_equations(); the visitor must not
  // create new ones, so tell it how many exist
  for (int i=1; i<=M; i++) {
    Observation* o = IS->ptr_obs(i);
    if (i>1) out << ",";
    out << "{"; dump_obs_ident(out, o);
    out << ",\"value\":"; num(out, o->value());
    out << ",\"raw\":"; num(out, o->raw_value());
    out << ",\"stdev\":"; num(out, o->stdDev());
    out << ",\"from_dh\":"; num(out, o->from_dh());
    out << ",\"to_dh\":"; num(out, o->to_dh());
    if (const Direction* d = dynamic_cast<const Direction*>(o)) {
      out << ",\"orientation\":"; num(out, d->test_orientation() ? d->orientation() : NAN);
    }
    o->accept(&lin);
    out << ",\"rhs\":"; num(out, lin.rhs);
    out << ",\"net_rhs\":"; num(out, IS->rhs(i));
    out << ",\"idx\":[";
    for (long k=0; k<lin.size; k++) { if (k) out << ","; out << lin.index[k]; }
    out << "],\"coef\":[";
    for (long k=0; k<lin.size; k++) { if (k) out << ","; num(out, lin.coeff[k]); }
    out << "]}";
  }
  out << "],\"lin_unknowns\":" << lin.unknowns();
  out << ",\"clusters\":[";
  bool first = true;
  for (auto cl : IS->OD.clusters) {
    const int n = cl->activeObs();
    if (!n) continue;
    if (!first) out << ","; first = false;
    CovMat C = cl->activeCov();
    out << "{\"n\":" << n << ",\"dim\":" << C.dim() << ",\"band\":" << C.bandWidth() << ",\"cov\":[";
    bool f2 = true;
    for (CovMat::iterator c=C.begin(); c!=C.end(); ++c) { if (!f2) out << ","; f2 = false; num(out, *c); }
    out << "]}";
  }
  out << "],\"minx\":[";
  {
    bool f3 = true;
    for (PointData::iterator i=IS->PD.begin(); i!=IS->PD.end(); ++i) {
      const LocalPoint& p = (*i).second;
      if (p.constrained_xy() && p.index_x()) { if (!f3) out << ","; f3 = false; out << p.index_y() << "," << p.index_x(); }
      if (p.constrained_z() && p.index_z())  { if (!f3) out << ","; f3 = false; out << p.index_z(); }
    }
  }
  out << "],\"min_n\":" << IS->min_n();
  out << ",\"m0_apr\":"; num(out, IS->apriori_m_0());
  out << ",\"connected\":" << IS->connected_network();
}

static void dump_solution(std::ostream& out, LocalNetwork* IS)
{
  const int M = IS->observations_count();
  const int N = IS->unknowns_count();
  const GNU_gama::local::Vec& x = IS->solve();
  const GNU_gama::local::Vec& r = IS->residuals();
  out << "\"x\":[";
  for (int i=1; i<=N; i++) { if (i>1) out << ","; num(out, x(i)); }
  out << "],\"r\":[";
  for (int i=1; i<=M; i++) { if (i>1) out << ","; num(out, r(i)); }
  out << "],\"vwv\":"; num(out, IS->trans_VWV());
  out << ",\"defect\":" << IS->null_space() << ",\"dof\":" << IS->degrees_of_freedom();
  out << ",\"m0\":"; num(out, IS->m_0());
  out << ",\"m0_apost\":"; num(out, IS->m_0_aposteriori_value());
  out << ",\"conf_int_coef\":"; num(out, IS->conf_int_coef());
  out << ",\"qxx\":[";
  for (int i=1; i<=N; i++) {
    if (i>1) out << ",";
    out << "[";
    for (int j=1; j<=N; j++) { if (j>1) out << ","; num(out, IS->qxx(i,j)); }
    out << "]";
  }
  out << "],\"qbb_diag\":[";
  for (int i=1; i<=M; i++) { if (i>1) out << ","; num(out, IS->qbb(i,i)); }
  out << "],\"stdev_obs\":[";
  for (int i=1; i<=M; i++) { if (i>1) out << ","; num(out, IS->stdev_obs(i)); }
  out << "],\"wcoef_res\":[";
  for (int i=1; i<=M; i++) { if (i>1) out << ","; num(out, IS->wcoef_res(i)); }
  out << "],\"weight_obs\":[";
  for (int i=1; i<=M; i++) { if (i>1) out << ","; num(out, IS->weight_obs(i)); }
  out << "],\"lindep\":[";
  for (int i=1; i<=N; i++) { if (i>1) out << ","; out << (IS->lindep(i) ? 1 : 0); }
  out << "],\"iterations\":" << IS->linearization_iterations();
}

static std::string g_outlying;

int main(int argc, char** argv)
{
  if (argc < 3) { std::cout << "{\"fatal\":\"usage\"}" << std::endl; return 2; }
  const char* path = argv[1];
  const string alg = argv[2];
  const bool lin_only = argc > 3 && !strcmp(argv[3], "lin");
  set_gama_language(en);
  std::ostringstream out;
  out << "{";
  LocalNetwork* IS = new LocalNetwork;
  try {
    {
      std::ifstream inp(path);
      GKFparser gkf(*IS);
      try {
        char c; int n, finish = 0; string line;
        do {
          line.clear(); n = 0;
          while (inp.get(c)) { line += c; n++; if (c == '\n') break; }
          if (inp.eof() || !inp.good()) finish = 1;
          gkf.xml_parse(line.c_str(), n, finish);
        } while (!finish);
      }
      catch (const ParserException& e) {
        out << "\"stage\":\"parse_error\",\"line\":" << e.line << ",\"text\":" << jstr(e.what()) << "}";
        std::cout << out.str() << std::endl; return 0;
      }
      catch (const GNU_gama::local::Exception& e) {
        out << "\"stage\":\"parse_exception\",\"text\":" << jstr(e.what()) << "}";
        std::cout << out.str() << std::endl; return 0;
      }
    }
    if (alg != "-") IS->set_algorithm(alg);
    if (!IS->has_algorithm()) IS->set_algorithm();
    out << "\"algorithm\":" << jstr(IS->algorithm()) << ",";
    if (IS->PD.empty()) throw GNU_gama::local::Exception("No points available");
    if (IS->OD.clusters.empty()) throw GNU_gama::local::Exception("No observations available");

    out << "\"consistent\":" << IS->consistent() << ",\"y_sign\":" << IS->y_sign() << ",";
    try {
      IS->remove_inconsistency();
      Acord2 acord2(IS->PD, IS->OD);
      acord2.execute();
      refine_obsdh_reductions(IS);
    }
    catch (GNU_gama::local::Exception& e) {
      out << "\"stage\":\"acord_exception\",\"text\":" << jstr(e.what()) << "}";
      std::cout << out.str() << std::endl; return 0;
    }
    catch (...) {
      out << "\"stage\":\"acord_failed\"}";
      std::cout << out.str() << std::endl; return 0;
    }

    if (IS->points_count() == 0 || IS->unknowns_count() == 0)
      throw GNU_gama::local::Exception("No network points defined");

    out << "\"huge_abs_terms\":" << IS->huge_abs_terms() << ",";
    if (IS->huge_abs_terms()) {
      std::ostringstream ol;
      ol << "\"outlying\":[";
      bool first = true;
      for (int i=1; i<=IS->observations_count(); i++)
        if (IS->test_abs_term(i)) {
          if (!first) ol << ","; first = false;
          ol << "{"; dump_obs_ident(ol, IS->ptr_obs(i)); ol << ",\"term\":"; num(ol, IS->test_abs_term(i)); ol << "}";
        }
      ol << "],";
      g_outlying = ol.str();     // also reported when a later step throws
      out << g_outlying;
      IS->remove_huge_abs_terms();
    }

    if (lin_only) {
      IS->project_equations();
      dump_points(out, IS); out << ",";
      dump_removed(out, IS); out << ",";
      dump_equations(out, IS);
      out << ",\"stage\":\"linearized\"}";
      std::cout << out.str() << std::endl;
      return 0;
    }

    std::ostringstream gp;
    bool ok = GeneralParameters(IS, gp);
    if (!ok) {
      dump_points(out, IS); out << ",";
      dump_removed(out, IS); out << ",";
      out << "\"general_parameters\":" << jstr(gp.str()) << ",\"stage\":\"not_adjustable\"}";
      std::cout << out.str() << std::endl;
      return 0;
    }
    // first linearisation (before refinement iterations): dump separately
    {
      std::ostringstream first;
      dump_equations(first, IS);
      out << "\"first\":{" << first.str() << "},";
    }
    bool refined = IS->refine_adjustment();
    // gama-local calls TestLinearization(IS, cout) here, which solves the network for the last linearisation point; at
    // the iteration limit refine_adjustment() returns with the adjustment pending and counts from the previous revision
    IS->solve();
    out << "\"refined\":" << refined << ",";
    dump_points(out, IS); out << ",";
    dump_removed(out, IS); out << ",";
    dump_equations(out, IS); out << ",";
    dump_solution(out, IS);
    out << ",\"stage\":\"adjusted\"}";
    std::cout << out.str() << std::endl;
    return 0;
  }
  catch (const GNU_gama::Exception::adjustment& e) {
    std::cout << "{" << g_outlying << "\"stage\":\"exception\",\"class\":\"adjustment\",\"text\":" << jstr(e.str) << "}" << std::endl;
  }
  catch (const GNU_gama::Exception::matvec& e) {
    std::cout << "{" << g_outlying << "\"stage\":\"exception\",\"class\":\"matvec\",\"code\":" << e.error() << ",\"text\":" << jstr(e.what()) << "}" << std::endl;
  }
  catch (const GNU_gama::local::Exception& e) {
    std::cout << "{" << g_outlying << "\"stage\":\"exception\",\"class\":\"local\",\"text\":" << jstr(e.what()) << "}" << std::endl;
  }
  catch (const std::exception& e) {
    std::cout << "{" << g_outlying << "\"stage\":\"exception\",\"class\":\"std\",\"text\":" << jstr(e.what()) << "}" << std::endl;
  }
  return 0;
}
