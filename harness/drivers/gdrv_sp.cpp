// gdrv_sp: line-protocol driver around the sparse kernels (property C16):
// SparseMatrix, SparseMatrixGraph, ReverseCuthillMcKee, Envelope, BlockDiagonal,
// Homogenization.  Pure function of its stdin; one JSON answer per command line.
//
// Input: the same 'problem' section as gdrv_adj
//   problem M N
//     M x { k  idx val ... }     sparse rows in the given order (1-based column indices)
//     M x rhs
//     NB  then NB x { dim width <values> }   covariance blocks (upper band by rows)
//     -1                                     (regularisation list, unused)
// then commands:
//   sparse                 build SparseMatrix by new_row/add_element; dump
//   replicate | transpose | transpose2 (transpose of the transpose) | extend k idx val ..
//                          (replicate(n+k, rows+1, cols), then one more row)
//   homog                  Homogenization(mat, cov, rhs): mat() dump and rhs()
//   use A|H                matrix for the commands below (H = homogenised)
//   graph                  adjacency lists and connected()
//   rcm                    ReverseCuthillMcKee: perm, invp
//   envelope [id]          graph + ordering + Envelope::set as AdjEnvelope::solve_ordering does
//                          ('id': identity ordering instead of RCM); dump
//   envdump | envcopy (copy constructor and assignment, dump of the copies)
//   choldec                Envelope::cholDec(); defect, dump
//   lsolve|dsolve start stop v..   on a vector of length stop-start+1
//   usolve start stop v..          on a vector of full length (rows stop..start are eliminated)
//   solve v..              Envelope::solve
//   inverse | inverse_self q0.inverse(envelope); dump of q0
//   envcov                 Envelope(BlockDiagonal) dump
//   bd | bd_replicate | bd_choldec        BlockDiagonal dump / replicate / cholDec (return code, dump)
#include <gnu_gama/adj/adj.h>             // first: adj.h, adj_input_data.h, adj_envelope.h include each other
#include <gnu_gama/sparse/smatrix.h>
#include <gnu_gama/sparse/smatrix_graph.h>
#include <gnu_gama/sparse/smatrix_ordering.h>
#include <gnu_gama/sparse/sbdiagonal.h>
#include <gnu_gama/adj/envelope.h>
#include <gnu_gama/adj/homogenization.h>
#include <gnu_gama/adj/adj_input_data.h>
#include <gnu_gama/exception.h>
#include <iostream>
#include <sstream>
#include <vector>
#include <memory>
#include <cstdio>
#include <cmath>

using namespace GNU_gama;
using std::string;
using std::vector;

namespace {

typedef SparseMatrix<double,int>       Sparse;
typedef SparseMatrixGraph<double,int>  Graph;
typedef ReverseCuthillMcKee<int>       RCM;
typedef Envelope<double,int>           Env;
typedef BlockDiagonal<double,int>      BlockD;

struct Problem {
  int M{0}, N{0};
  vector<vector<std::pair<int,double>>> rows;
  vector<double> rhs;
  struct Block { int dim, width; vector<double> v; };
  vector<Block> blocks;
};

Problem P;

// identity ordering through the public interface of SparseMatrixOrdering
struct IdentityOrdering : public SparseMatrixOrdering<int> {
  void algorithm(const Adjacency<int>* g) override
  {
    for (int i = 1; i <= g->nodes(); i++) this->perm(i) = i;
  }
};

std::unique_ptr<Sparse> A;                 // as given
std::unique_ptr<AdjInputData> data;        // owner of the matrix handed to Homogenization
std::unique_ptr<Homogenization<double,int>> hom;
const Sparse* cur = nullptr;               // matrix in use
std::unique_ptr<Env> env;
std::unique_ptr<BlockD> bd;

void num(std::ostream& o, double v)
{
  if (std::isnan(v)) { o << "\"nan\""; return; }
  if (std::isinf(v)) { o << (v > 0 ? "\"inf\"" : "\"-inf\""); return; }
  char buf[40]; snprintf(buf, sizeof buf, "%.17g", v); o << buf;
}

string jstr(const char* s)
{
  string r = "\"";
  for (; s && *s; ++s) {
    if (*s == '"' || *s == '\\') { r += '\\'; r += *s; }
    else if ((unsigned char)*s < 32) r += ' ';
    else r += *s;
  }
  return r + "\"";
}

Sparse* build(const Problem& p)
{
  int nz = 0;
  for (auto& r : p.rows) nz += r.size();
  Sparse* s = new Sparse(nz, p.M, p.N);
  for (auto& r : p.rows) {
    s->new_row();
    for (auto& e : r) s->add_element(e.second, e.first);
  }
  return s;
}

BlockD* build_cov(const Problem& p)
{
  int fl = 0;
  for (auto& b : p.blocks) fl += b.v.size();
  BlockD* C = new BlockD(p.blocks.size(), fl);
  for (auto& b : p.blocks) C->add_block(b.dim, b.width, b.v.data());
  return C;
}

void dump_sparse(std::ostream& o, const Sparse* s)
{
  o << "{\"m\":" << s->rows() << ",\"n\":" << s->columns() << ",\"nnz\":" << s->nonzeroes()
    << ",\"check\":" << (s->check() ? 1 : 0) << ",\"rows\":[";
  for (int r = 1; r <= s->rows(); r++) {
    if (r > 1) o << ",";
    o << "[";
    const double* b = s->begin(r);
    const double* e = s->end(r);
    const int* i = s->ibegin(r);
    bool first = true;
    for (; b != e; ++b, ++i) {
      if (!first) o << ",";
      first = false;
      o << "[" << *i << ","; num(o, *b); o << "]";
    }
    o << "]";
  }
  o << "]}";
}

void dump_env(std::ostream& o, const Env& e)
{
  const int n = e.dim();
  o << "{\"dim\":" << n << ",\"defect\":" << e.defect() << ",\"diag\":[";
  for (int i = 1; i <= n; i++) { if (i > 1) o << ","; num(o, e.diagonal(i)); }
  o << "],\"width\":[";
  for (int i = 1; i <= n; i++) { if (i > 1) o << ","; o << long(e.end(i) - e.begin(i)); }
  // every (i,j), j<i, through element(): null outside the profile; element(j,i) must be the same address
  o << "],\"low\":[";
  bool sym = true;
  for (int i = 1; i <= n; i++) {
    if (i > 1) o << ",";
    o << "[";
    for (int j = 1; j < i; j++) {
      if (j > 1) o << ",";
      const double* p = e.element(i, j);
      if (p != e.element(j, i)) sym = false;
      if (p) num(o, *p); else o << "null";
    }
    o << "]";
  }
  o << "],\"sym\":" << (sym ? 1 : 0) << "}";
}

void dump_bd(std::ostream& o, const BlockD& b)
{
  o << "{\"blocks\":" << b.blocks() << ",\"dim\":" << b.dim() << ",\"nnz\":" << b.nonzeroes() << ",\"b\":[";
  for (int i = 1; i <= b.blocks(); i++) {
    if (i > 1) o << ",";
    o << "{\"dim\":" << b.dim(i) << ",\"width\":" << b.width(i) << ",\"v\":[";
    const double* p = b.begin(i);
    const double* e = b.end(i);
    for (bool f = true; p != e; ++p, f = false) { if (!f) o << ","; num(o, *p); }
    o << "]}";
  }
  o << "]}";
}

vector<double> numbers(std::istream& in)
{
  vector<double> v; double x;
  while (in >> x) v.push_back(x);
  return v;
}

void vec_json(std::ostream& o, const vector<double>& v)
{
  o << "{\"v\":[";
  for (size_t i = 0; i < v.size(); i++) { if (i) o << ","; num(o, v[i]); }
  o << "]}";
}

void need_env() { if (!env) throw std::runtime_error("no envelope"); }

void dispatch(std::istringstream& in, std::ostream& out)
{
  string cmd; in >> cmd;
  if (cmd == "sparse") {
    A.reset(build(P));
    cur = A.get();
    dump_sparse(out, A.get());
    return;
  }
  if (!A) throw std::runtime_error("'sparse' first");
  if (cmd == "replicate") { std::unique_ptr<Sparse> r(A->replicate()); dump_sparse(out, r.get()); return; }
  if (cmd == "transpose") { std::unique_ptr<Sparse> t(A->transpose()); dump_sparse(out, t.get()); return; }
  if (cmd == "transpose2") {
    std::unique_ptr<Sparse> t(A->transpose());
    std::unique_ptr<Sparse> tt(t->transpose());
    dump_sparse(out, tt.get());
    return;
  }
  if (cmd == "extend") {
    int k; in >> k;
    std::unique_ptr<Sparse> r(A->replicate(A->nonzeroes() + k, A->rows() + 1, A->columns()));
    r->new_row();
    for (int i = 0; i < k; i++) { int c; double v; in >> c >> v; r->add_element(v, c); }
    dump_sparse(out, r.get());
    return;
  }
  if (cmd == "homog") {
    data.reset(new AdjInputData);
    data->set_mat(build(P));
    data->set_cov(build_cov(P));
    Vec<> rhs(P.M);
    for (int i = 1; i <= P.M; i++) rhs(i) = P.rhs[i-1];
    data->set_rhs(rhs);
    hom.reset(new Homogenization<double,int>(data.get()));
    const Sparse* h = hom->mat();
    const Vec<>& r = hom->rhs();
    out << "{\"mat\":"; dump_sparse(out, h);
    out << ",\"rhs\":[";
    for (int i = 1; i <= r.dim(); i++) { if (i > 1) out << ","; num(out, r(i)); }
    out << "]}";
    return;
  }
  if (cmd == "use") {
    string w; in >> w;
    if (w == "H") { if (!hom) throw std::runtime_error("'homog' first"); cur = hom->mat(); }
    else cur = A.get();
    env.reset();
    out << "{\"ok\":1}";
    return;
  }
  if (cmd == "graph") {
    Graph g(cur);
    out << "{\"nodes\":" << g.nodes() << ",\"adj\":[";
    for (int i = 1; i <= g.nodes(); i++) {
      if (i > 1) out << ",";
      out << "[";
      for (Graph::const_iterator b = g.begin(i), e = g.end(i); b != e; ++b) { if (b != g.begin(i)) out << ","; out << *b; }
      out << "]";
    }
    out << "],\"degree\":[";
    for (int i = 1; i <= g.nodes(); i++) { if (i > 1) out << ","; out << g.degree(i); }
    out << "],\"connected\":" << (g.connected() ? 1 : 0) << "}";
    return;
  }
  if (cmd == "rcm") {
    Graph g(cur);
    RCM o(&g);
    out << "{\"nodes\":" << o.nodes() << ",\"perm\":[";
    for (int i = 1; i <= o.nodes(); i++) { if (i > 1) out << ","; out << o.perm(i); }
    out << "],\"invp\":[";
    for (int i = 1; i <= o.nodes(); i++) { if (i > 1) out << ","; out << o.invp(i); }
    out << "]}";
    return;
  }
  if (cmd == "envelope") {
    string opt; in >> opt;
    Graph g(cur);
    std::unique_ptr<SparseMatrixOrdering<int>> ord;
    if (opt == "id") { ord.reset(new IdentityOrdering); ord->reset(&g); }
    else { RCM* r = new RCM; ord.reset(r); r->reset(&g); }
    env.reset(new Env);
    env->set(cur, &g, ord.get());
    out << "{\"perm\":[";
    for (int i = 1; i <= ord->nodes(); i++) { if (i > 1) out << ","; out << ord->perm(i); }
    out << "],\"invp\":[";
    for (int i = 1; i <= ord->nodes(); i++) { if (i > 1) out << ","; out << ord->invp(i); }
    out << "],\"env\":"; dump_env(out, *env); out << "}";
    return;
  }
  if (cmd == "envcov") {
    std::unique_ptr<BlockD> c(build_cov(P));
    Env e(*c);
    dump_env(out, e);
    return;
  }
  if (cmd == "bd")           { bd.reset(build_cov(P)); dump_bd(out, *bd); return; }
  if (cmd == "bd_replicate") { std::unique_ptr<BlockD> c(build_cov(P)); std::unique_ptr<BlockD> r(c->replicate()); dump_bd(out, *r); return; }
  if (cmd == "bd_choldec")   {
    bd.reset(build_cov(P));
    int rc = bd->cholDec();
    out << "{\"rc\":" << rc << ",\"bd\":"; dump_bd(out, *bd); out << "}";
    return;
  }

  need_env();
  if (cmd == "envdump") { dump_env(out, *env); return; }
  if (cmd == "envcopy") {
    Env c(*env);                     // copy constructor
    Env a;
    a = *env;                        // assignment to an empty object
    Env b(c);
    b = a;                           // assignment over an existing object
    b = b;                           // self assignment
    out << "{\"ctor\":"; dump_env(out, c); out << ",\"assign\":"; dump_env(out, b); out << "}";
    return;
  }
  if (cmd == "choldec") {
    env->cholDec();
    dump_env(out, *env);
    return;
  }
  if (cmd == "lsolve" || cmd == "dsolve") {
    int start, stop; in >> start >> stop;
    vector<double> v = numbers(in);
    if (start < 1 || stop > env->dim() || int(v.size()) != stop - start + 1 || v.empty()) throw std::runtime_error("bad range");
    if (cmd == "lsolve") env->lowerSolve(start, stop, v.data());    // the sub-block rows/columns start..stop
    else env->diagonalSolve(start, stop, v.data());
    vec_json(out, v);
    return;
  }
  if (cmd == "usolve") {
    // back substitution of rows stop..start updates the elements of the columns in front of
    // 'start' too, and upperSolve() positions itself with rhs += stop-1: unlike lowerSolve and
    // diagonalSolve it takes the address of element 1 of a full-length vector (its only caller
    // uses start=1, where both readings coincide)
    int start, stop; in >> start >> stop;
    vector<double> v = numbers(in);
    if (start < 1 || stop > env->dim() || start > stop || int(v.size()) != env->dim()) throw std::runtime_error("bad range");
    env->upperSolve(start, stop, v.data());
    vec_json(out, v);
    return;
  }
  if (cmd == "solve") {
    vector<double> v = numbers(in);
    if (int(v.size()) != env->dim()) throw std::runtime_error("bad rhs");
    env->solve(v.data(), env->dim());
    vec_json(out, v);
    return;
  }
  if (cmd == "inverse") {
    Env q0;
    q0.inverse(*env);
    dump_env(out, q0);
    return;
  }
  if (cmd == "inverse_self") {
    Env q0(*env);
    q0.inverse(q0);
    dump_env(out, q0);
    return;
  }
  throw std::runtime_error("unknown command " + cmd);
}

bool read_problem(std::istream& in)
{
  string w;
  if (!(in >> w) || w != "problem") return false;
  in >> P.M >> P.N;
  P.rows.assign(P.M, {});
  for (int i = 0; i < P.M; i++) {
    int k; in >> k;
    for (int j = 0; j < k; j++) { int c; double v; in >> c >> v; P.rows[i].push_back({c, v}); }
  }
  P.rhs.resize(P.M);
  for (int i = 0; i < P.M; i++) in >> P.rhs[i];
  int nb; in >> nb;
  P.blocks.clear();
  for (int b = 0; b < nb; b++) {
    Problem::Block B; in >> B.dim >> B.width;
    int n = B.dim*(B.width+1) - B.width*(B.width+1)/2;
    B.v.resize(n);
    for (int i = 0; i < n; i++) in >> B.v[i];
    P.blocks.push_back(B);
  }
  int k; in >> k;
  for (int i = 0; i < k; i++) { int x; in >> x; }
  return bool(in);
}

} // namespace

int main()
{
  std::ios::sync_with_stdio(false);
  if (!read_problem(std::cin)) { std::cout << "{\"fatal\":\"bad problem\"}" << std::endl; return 2; }
  string line;
  std::getline(std::cin, line);
  while (std::getline(std::cin, line)) {
    if (line.empty()) continue;
    std::istringstream in(line);
    std::ostringstream out;
    try {
      dispatch(in, out);
    }
    catch (const Exception::matvec& e) {
      out.str(""); out << "{\"exc\":\"matvec\",\"code\":" << e.error() << ",\"text\":" << jstr(e.what()) << "}";
    }
    catch (const Exception::string& e) {
      out.str(""); out << "{\"exc\":\"string\",\"text\":" << jstr(e.what()) << "}";
    }
    catch (const std::runtime_error& e) {
      out.str(""); out << "{\"fatal\":" << jstr(e.what()) << "}";
    }
    catch (const std::exception& e) {
      out.str(""); out << "{\"exc\":\"std\",\"text\":" << jstr(e.what()) << "}";
    }
    std::cout << out.str() << std::endl;
  }
  env.reset(); hom.reset(); data.reset(); A.reset(); bd.reset();
  return 0;
}
