// gdrv_nethist <file.gkf> <algorithm>
//   call histories on one LocalNetwork object (property C04, network level).
//   Commands on stdin, one per line; every command prints one JSON line:
//     {"v": number | [numbers]}  or  {"exc": class, "text": ...}
//   queries:  solve | resid | vwv | defect | dof | m0 | cond | counts |
//             qxx i j | qbb i j | stdev_obs i | wcoef_res i | stdev_res i | lindep i |
//             stdev_unk i | conf_int
//   state:    alg <name> | update points|observations|residuals|adjustment | refine | remove_huge
#include <gnu_gama/xml/gkfparser.h>
#include <gnu_gama/local/network.h>
#include <gnu_gama/local/language.h>
#include <gnu_gama/local/acord/acord2.h>
#include <gnu_gama/local/test_linearization_visitor.h>
#include <fstream>
#include <iostream>
#include <sstream>
#include <cmath>
#include <cstdio>

using namespace GNU_gama::local;
using std::string;

static void num(std::ostream& out, double v)
{
  if (std::isfinite(v)) { char b[40]; snprintf(b, sizeof b, "%.17g", v); out << b; }
  else out << "\"" << (std::isnan(v) ? "nan" : (v > 0 ? "inf" : "-inf")) << "\"";
}

static string jstr(const string& s)
{
  string r = "\"";
  for (unsigned char c : s) {
    if (c == '"' || c == '\\') { r += '\\'; r += char(c); }
    else if (c < 0x20) { char b[8]; snprintf(b, sizeof b, "\\u%04x", c); r += b; }
    else r += char(c);
  }
  return r + "\"";
}

int main(int argc, char** argv)
{
  if (argc < 3) { std::cout << "{\"fatal\":\"usage\"}" << std::endl; return 2; }
  set_gama_language(en);
  LocalNetwork* IS = new LocalNetwork;
  try {
    std::ifstream inp(argv[1]);
    GKFparser gkf(*IS);
    char c; int n, finish = 0; string line;
    do {
      line.clear(); n = 0;
      while (inp.get(c)) { line += c; n++; if (c == '\n') break; }
      if (inp.eof() || !inp.good()) finish = 1;
      gkf.xml_parse(line.c_str(), n, finish);
    } while (!finish);
    IS->set_algorithm(argv[2]);
    IS->remove_inconsistency();
    Acord2 acord2(IS->PD, IS->OD);
    acord2.execute();
    refine_obsdh_reductions(IS);
  }
  catch (...) {
    std::cout << "{\"fatal\":\"setup\"}" << std::endl; return 0;
  }
  std::cout << "{\"ready\":1}" << std::endl;

  string cmdline;
  while (std::getline(std::cin, cmdline)) {
    std::istringstream in(cmdline);
    string q; in >> q;
    if (q.empty()) continue;
    std::ostringstream out;
    try {
      if (q == "solve") { const auto& x = IS->solve(); out << "{\"v\":["; for (int i=1;i<=x.dim();i++){ if(i>1) out<<","; num(out,x(i)); } out << "]}"; }
      else if (q == "resid") { const auto& r = IS->residuals(); out << "{\"v\":["; for (int i=1;i<=r.dim();i++){ if(i>1) out<<","; num(out,r(i)); } out << "]}"; }
      else if (q == "vwv")    { out << "{\"v\":"; num(out, IS->trans_VWV()); out << "}"; }
      else if (q == "defect") { out << "{\"v\":" << IS->null_space() << "}"; }
      else if (q == "dof")    { out << "{\"v\":" << IS->degrees_of_freedom() << "}"; }
      else if (q == "m0")     { out << "{\"v\":"; num(out, IS->m_0()); out << "}"; }
      else if (q == "cond")   { out << "{\"v\":"; num(out, IS->cond()); out << "}"; }
      else if (q == "conf_int") { out << "{\"v\":"; num(out, IS->conf_int_coef()); out << "}"; }
      else if (q == "counts") { out << "{\"v\":[" << IS->unknowns_count() << "," << IS->observations_count() << "," << IS->points_count() << "]}"; }
      else if (q == "qxx") { int i,j; in >> i >> j; out << "{\"v\":"; num(out, IS->qxx(i,j)); out << "}"; }
      else if (q == "qbb") { int i,j; in >> i >> j; out << "{\"v\":"; num(out, IS->qbb(i,j)); out << "}"; }
      else if (q == "stdev_obs") { int i; in >> i; out << "{\"v\":"; num(out, IS->stdev_obs(i)); out << "}"; }
      else if (q == "wcoef_res") { int i; in >> i; out << "{\"v\":"; num(out, IS->wcoef_res(i)); out << "}"; }
      else if (q == "stdev_res") { int i; in >> i; out << "{\"v\":"; num(out, IS->stdev_res(i)); out << "}"; }
      else if (q == "stdev_unk") { int i; in >> i; out << "{\"v\":"; num(out, IS->unknown_stdev(i)); out << "}"; }
      else if (q == "lindep") { int i; in >> i; out << "{\"v\":" << (IS->lindep(i) ? 1 : 0) << "}"; }
      else if (q == "alg") { string a; in >> a; IS->set_algorithm(a); out << "{\"v\":0}"; }
      else if (q == "update") {
        string w; in >> w;
        if      (w == "points")       IS->update_points();
        else if (w == "observations") IS->update_observations();
        else if (w == "residuals")    IS->update_residuals();
        else                          IS->update_adjustment();
        out << "{\"v\":0}";
      }
      else if (q == "refine") { IS->solve(); IS->refine_approx_coordinates(); out << "{\"v\":0}"; }
      else if (q == "remove_huge") { if (IS->huge_abs_terms()) IS->remove_huge_abs_terms(); out << "{\"v\":0}"; }
      else out << "{\"fatal\":\"unknown command\"}";
    }
    catch (const GNU_gama::Exception::matvec& e) { out.str(""); out << "{\"exc\":\"matvec\",\"code\":" << e.error() << ",\"text\":" << jstr(e.what()) << "}"; }
    catch (const GNU_gama::Exception::adjustment& e) { out.str(""); out << "{\"exc\":\"adjustment\",\"text\":" << jstr(e.str) << "}"; }
    catch (const GNU_gama::local::Exception& e) { out.str(""); out << "{\"exc\":\"local\",\"text\":" << jstr(e.what()) << "}"; }
    catch (const std::exception& e) { out.str(""); out << "{\"exc\":\"std\",\"text\":" << jstr(e.what()) << "}"; }
    std::cout << out.str() << std::endl;
  }
  return 0;
}
