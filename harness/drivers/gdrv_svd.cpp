// gdrv_svd : call histories on one GNU_gama::SVD object (property C04, mechanism "V restored from minV").
//   stdin:  first line  "m n"  then m rows of n numbers, then one line with m numbers (rhs), then commands:
//     solve | nullity | qxx i j | qbb i j | lindep i | minx K i1..iK | minx_all | reset | decompose
//   every command prints one JSON line {"v": ...} or {"exc": ...}
#include <matvec/svd.h>
#include <iostream>
#include <sstream>
#include <cmath>
#include <cstdio>
#include <vector>
using namespace GNU_gama;

static void num(std::ostream& out, double v)
{
  if (std::isfinite(v)) { char b[40]; snprintf(b, sizeof b, "%.17g", v); out << b; }
  else out << "\"" << (std::isnan(v) ? "nan" : (v > 0 ? "inf" : "-inf")) << "\"";
}

int main()
{
  int m, n;
  if (!(std::cin >> m >> n) || m < 1 || n < 1 || m > 200 || n > 200) { std::cout << "{\"fatal\":\"size\"}" << std::endl; return 0; }
  Mat<> A(m, n);
  Vec<> b(m);
  for (int i=1; i<=m; i++) for (int j=1; j<=n; j++) std::cin >> A(i,j);
  for (int i=1; i<=m; i++) std::cin >> b(i);
  std::string rest; std::getline(std::cin, rest);
  SVD<>* svd = new SVD<>(A);
  std::string cmdline;
  while (std::getline(std::cin, cmdline)) {
    std::istringstream in(cmdline);
    std::string q; in >> q;
    if (q.empty()) continue;
    std::ostringstream out;
    try {
      if (q == "solve") { Vec<> x(n); svd->solve(b, x); out << "{\"v\":["; for (int i=1;i<=n;i++){ if(i>1) out<<","; num(out,x(i)); } out << "]}"; }
      else if (q == "nullity") out << "{\"v\":" << svd->nullity() << "}";
      else if (q == "decompose") { svd->decompose(); out << "{\"v\":0}"; }
      else if (q == "qxx") { int i,j; in >> i >> j; out << "{\"v\":"; num(out, svd->q_xx(i,j)); out << "}"; }
      else if (q == "qbb") { int i,j; in >> i >> j; out << "{\"v\":"; num(out, svd->q_bb(i,j)); out << "}"; }
      else if (q == "lindep") { int i; in >> i; out << "{\"v\":" << (svd->lindep(i) ? 1 : 0) << "}"; }
      else if (q == "minx") { int k; in >> k; std::vector<int> l(k > 0 ? k : 1); for (int i=0;i<k;i++) in >> l[i]; svd->min_x(k, l.data()); out << "{\"v\":0}"; }
      else if (q == "minx_all") { svd->min_x(); out << "{\"v\":0}"; }
      else if (q == "reset") { svd->reset(A); out << "{\"v\":0}"; }
      else out << "{\"fatal\":\"unknown\"}";
    }
    catch (const Exception::matvec& e) { out.str(""); out << "{\"exc\":\"matvec\",\"code\":" << e.error() << "}"; }
    catch (const std::exception& e) { out.str(""); out << "{\"exc\":\"std\"}"; }
    std::cout << out.str() << std::endl;
  }
  delete svd;
  return 0;
}
