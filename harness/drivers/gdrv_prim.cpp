// gdrv_prim: line-protocol driver for the scalar primitives of GNU Gama
// (properties C17 and C18).  Pure function of its stdin: one command per
// line, one JSON answer per line.  Numbers are answered with 17 significant
// digits, non-finite values as the strings "nan" / "inf" / "-inf".
// String arguments are hex encoded (two hex digits per byte, "-" = empty
// string) because literals contain spaces.  Gama exceptions are answered as
// {"exc":...}, never swallowed.
//
//   normal   a1 a2 ...             {"v":[Normal(a)...]}
//   student  dof a1 a2 ...         {"v":[Student(a,dof)...]}
//   chi2     dof a1 a2 ...         {"v":[Chi_square(a,dof)...]}
//   ndist    x1 x2 ...             {"D":[...],"f":[...]}   NormalDistribution
//   ksprob   x1 x2 ...             {"v":[KSprob(x)...]}
//   ellipsoids                     {"e":[{"n":enum,"id":..,"caption":..,"a":..,"b":..,"f":..,"rc":set()},...]}
//   blh2xyz  n  b l h  b l h ...   {"v":[[x,y,z],...]}      n = gama_ellipsoid enum value
//   xyz2blh  n  x y z  x y z ...   {"v":[[b,l,h],...]}
//   round    n  b l h  ...         {"v":[[x,y,z,b',l',h'],...]}  xyz2blh(blh2xyz(.))
//   gon2deg  sign prec g1 g2 ...   {"s":["..",...],"ok":[..],"v":[..]}   ok/v: deg2gon() of each string
//   rad2deg  sign prec r1 r2 ...   the same for rad2deg_str
//   latlong  prec r1 r2 ...        {"s":[latitude()...],"lon":[longitude()...],"ok":[..],"v":[..]}
//   deg2gon  hex hex ...           {"ok":[0|1...],"v":[gon|null...]}
//   rad2dms  r1 ...                {"v":[...]}
//   dms2rad  d1 ...                {"v":[...]}
//   lit      hex hex ...           {"r":[[flags,toDouble,toInteger,toIndex,deg2gon],...]}
//        flags bit0 IsFloat, bit1 IsInteger, bit2 toDouble, bit3 toInteger,
//        bit4 toIndex, bit5 deg2gon; values are null when the call answered false
//   bearing  ya xa yb xb  ...      {"v":[[bearing,distance,bearing_fn,distance_fn],...]}
//        bearing_distance(ya,xa,yb,xb,..) ; bearing(..) and distance(LocalPoint,LocalPoint)
#include <gnu_gama/statan.h>
#include <gnu_gama/ellipsoid.h>
#include <gnu_gama/ellipsoids.h>
#include <gnu_gama/gon2deg.h>
#include <gnu_gama/latlong.h>
#include <gnu_gama/radian.h>
#include <gnu_gama/intfloat.h>
#include <gnu_gama/xml/baseparser.h>
#include <gnu_gama/local/bearing.h>
#include <gnu_gama/local/lpoint.h>
#include <gnu_gama/exception.h>
#include <iostream>
#include <sstream>
#include <string>
#include <vector>
#include <cstdio>
#include <cmath>
#include <cstdlib>
#include <stdexcept>

using std::string;
using std::vector;

namespace {

void num(std::ostream& o, double v)
{
  if (std::isnan(v)) { o << "\"nan\""; return; }
  if (std::isinf(v)) { o << (v>0 ? "\"inf\"" : "\"-inf\""); return; }
  char buf[40]; snprintf(buf, sizeof buf, "%.17g", v); o << buf;
}

string jstr(const string& s)
{
  string r = "\"";
  for (unsigned char c : s) {
    if (c == '"' || c == '\\') { r += '\\'; r += char(c); }
    else if (c < 32 || c > 126) { char b[8]; snprintf(b, sizeof b, "\\u%04x", c); r += b; }
    else r += char(c);
  }
  return r + "\"";
}

int hexval(char c)
{
  if (c >= '0' && c <= '9') return c - '0';
  if (c >= 'a' && c <= 'f') return c - 'a' + 10;
  if (c >= 'A' && c <= 'F') return c - 'A' + 10;
  throw std::runtime_error("bad hex digit");
}

string unhex(const string& h)
{
  if (h == "-") return string();
  if (h.size() % 2) throw std::runtime_error("odd hex length");
  string s;
  for (size_t i=0; i<h.size(); i+=2) s += char(hexval(h[i])*16 + hexval(h[i+1]));
  return s;
}

double todouble(const string& t)
{
  // strtod understands inf/nan and hexadecimal floats as well
  char* end = nullptr;
  double v = std::strtod(t.c_str(), &end);
  if (end == t.c_str() || *end) throw std::runtime_error("bad number " + t);
  return v;
}

vector<double> rest(std::istream& in)
{
  vector<double> v;
  string t;
  while (in >> t) v.push_back(todouble(t));
  return v;
}

void list(std::ostream& o, const vector<double>& v)
{
  o << "[";
  for (size_t i=0; i<v.size(); i++) { if (i) o << ","; num(o, v[i]); }
  o << "]";
}

// CoreParser::toDouble/toInteger/toIndex are protected members of an abstract
// class: reach them through a minimal concrete subclass (no parsing is done).
class Lit : public GNU_gama::CoreParser {
public:
  void xml_parse(const char*, int, int) override {}
  int characterDataHandler(const char*, int) override { return 0; }
  int startElement(const char*, const char**) override { return 0; }
  int endElement(const char*) override { return 0; }
  using GNU_gama::CoreParser::toDouble;
  using GNU_gama::CoreParser::toInteger;
  using GNU_gama::CoreParser::toIndex;
};

// prints ["str",...],"ok":[..],"v":[..] : the strings and deg2gon() applied to each of them
void strings_and_back(std::ostream& out, const vector<string>& str)
{
  out << "[";
  for (size_t i=0; i<str.size(); i++) { if (i) out << ","; out << jstr(str[i]); }
  out << "],\"ok\":[";
  vector<double> v(str.size(), -777);
  vector<int> ok(str.size(), 0);
  for (size_t i=0; i<str.size(); i++) ok[i] = GNU_gama::deg2gon(str[i], v[i]);
  for (size_t i=0; i<str.size(); i++) { if (i) out << ","; out << ok[i]; }
  out << "],\"v\":[";
  for (size_t i=0; i<str.size(); i++) { if (i) out << ","; if (ok[i]) num(out, v[i]); else out << "null"; }
  out << "]";
}

void dispatch(std::istream& in, std::ostream& out)
{
  using namespace GNU_gama;
  string cmd;
  in >> cmd;

  if (cmd == "normal") {
    vector<double> a = rest(in), r;
    for (double x : a) r.push_back(Normal(x));
    out << "{\"v\":"; list(out, r); out << "}";
  }
  else if (cmd == "student" || cmd == "chi2") {
    int dof; in >> dof;
    if (!in) throw std::runtime_error("dof expected");
    vector<double> a = rest(in), r;
    for (double x : a) r.push_back(cmd == "student" ? Student(x, dof) : Chi_square(x, dof));
    out << "{\"v\":"; list(out, r); out << "}";
  }
  else if (cmd == "ndist") {
    vector<double> a = rest(in), D, F;
    for (double x : a) {
      double d = -777, f = -777;
      NormalDistribution(x, d, f);
      D.push_back(d); F.push_back(f);
    }
    out << "{\"D\":"; list(out, D); out << ",\"f\":"; list(out, F); out << "}";
  }
  else if (cmd == "ksprob") {
    vector<double> a = rest(in), r;
    for (double x : a) r.push_back(KSprob(x));
    out << "{\"v\":"; list(out, r); out << "}";
  }
  else if (cmd == "ellipsoids") {
    out << "{\"e\":[";
    for (int n = ellipsoid_airy; n <= ellipsoid_wgs84; n++) {
      Ellipsoid E;
      E.id = -1;
      int rc = set(&E, gama_ellipsoid(n));
      if (n > ellipsoid_airy) out << ",";
      out << "{\"n\":" << n << ",\"id\":" << jstr(gama_ellipsoid_id[n])
          << ",\"caption\":" << jstr(gama_ellipsoid_caption[n])
          << ",\"lookup\":" << int(ellipsoid(gama_ellipsoid_id[n]))
          << ",\"eid\":" << E.id << ",\"rc\":" << rc << ",\"a\":";
      num(out, E.a()); out << ",\"b\":"; num(out, E.b()); out << ",\"f\":"; num(out, E.f());
      out << "}";
    }
    out << "]}";
  }
  else if (cmd == "blh2xyz" || cmd == "xyz2blh" || cmd == "round") {
    int n; in >> n;
    if (!in || n < int(ellipsoid_airy) || n > int(ellipsoid_wgs84)) throw std::runtime_error("bad ellipsoid");
    Ellipsoid E;
    set(&E, gama_ellipsoid(n));
    vector<double> a = rest(in);
    if (a.size() % 3) throw std::runtime_error("triples expected");
    out << "{\"v\":[";
    for (size_t i=0; i<a.size(); i+=3) {
      double p=-777, q=-777, r=-777;
      vector<double> v;
      if (cmd == "blh2xyz") { E.blh2xyz(a[i], a[i+1], a[i+2], p, q, r); v = {p, q, r}; }
      else if (cmd == "xyz2blh") { E.xyz2blh(a[i], a[i+1], a[i+2], p, q, r); v = {p, q, r}; }
      else {
        double b=-777, l=-777, h=-777;
        E.blh2xyz(a[i], a[i+1], a[i+2], p, q, r);
        E.xyz2blh(p, q, r, b, l, h);
        v = {p, q, r, b, l, h};
      }
      if (i) out << ",";
      list(out, v);
    }
    out << "]}";
  }
  else if (cmd == "gon2deg" || cmd == "rad2deg") {
    int sign, prec; in >> sign >> prec;
    if (!in) throw std::runtime_error("sign prec expected");
    vector<double> a = rest(in);
    vector<string> str;
    for (double x : a) str.push_back(cmd == "gon2deg" ? gon2deg(x, sign, prec) : rad2deg_str(x, sign, prec));
    out << "{\"s\":";
    strings_and_back(out, str);
    out << "}";
  }
  else if (cmd == "latlong") {
    int prec; in >> prec;
    if (!in) throw std::runtime_error("prec expected");
    vector<double> a = rest(in);
    vector<string> lat, lon;
    for (double x : a) { lat.push_back(latitude(x, prec)); lon.push_back(longitude(x, prec)); }
    out << "{\"lon\":[";
    for (size_t i=0; i<lon.size(); i++) { if (i) out << ","; out << jstr(lon[i]); }
    out << "],\"s\":";
    strings_and_back(out, lat);
    out << "}";
  }
  else if (cmd == "deg2gon") {
    string h;
    vector<int> ok; vector<double> v;
    while (in >> h) {
      double g = -777;
      bool b = deg2gon(unhex(h), g);
      ok.push_back(b); v.push_back(g);
    }
    out << "{\"ok\":[";
    for (size_t i=0; i<ok.size(); i++) { if (i) out << ","; out << ok[i]; }
    out << "],\"v\":[";
    for (size_t i=0; i<ok.size(); i++) { if (i) out << ","; if (ok[i]) num(out, v[i]); else out << "null"; }
    out << "]}";
  }
  else if (cmd == "rad2dms" || cmd == "dms2rad") {
    vector<double> a = rest(in), r;
    for (double x : a) r.push_back(cmd == "rad2dms" ? rad2dms(x) : dms2rad(x));
    out << "{\"v\":"; list(out, r); out << "}";
  }
  else if (cmd == "lit") {
    Lit L;
    string h;
    bool first = true;
    out << "{\"r\":[";
    while (in >> h) {
      const string s = unhex(h);
      int flags = 0;
      if (IsFloat(s))   flags |= 1;
      if (IsInteger(s)) flags |= 2;
      double d = -777; int iv = -777, ix = -777; double g = -777;
      bool bd = L.toDouble(s, d);   if (bd) flags |= 4;
      bool bi = L.toInteger(s, iv); if (bi) flags |= 8;
      bool bx = L.toIndex(s, ix);   if (bx) flags |= 16;
      bool bg = deg2gon(s, g);      if (bg) flags |= 32;
      if (!first) out << ",";
      first = false;
      out << "[" << flags << ",";
      if (bd) num(out, d); else out << "null";
      out << ",";
      if (bi) out << iv; else out << "null";
      out << ",";
      if (bx) out << ix; else out << "null";
      out << ",";
      if (bg) num(out, g); else out << "null";
      out << "]";
    }
    out << "]}";
  }
  else if (cmd == "bearing") {
    vector<double> a = rest(in);
    if (a.size() % 4) throw std::runtime_error("quadruples expected");
    out << "{\"v\":[";
    for (size_t i=0; i<a.size(); i+=4) {
      double br = -777, d = -777;
      local::bearing_distance(a[i], a[i+1], a[i+2], a[i+3], br, d);
      // LocalPoint(x, y)
      local::LocalPoint A(a[i+1], a[i]), B(a[i+3], a[i+2]);
      double b2 = local::bearing(A, B);
      double d2 = local::distance(A, B);
      if (i) out << ",";
      list(out, vector<double>{br, d, b2, d2});
    }
    out << "]}";
  }
  else
    throw std::runtime_error("unknown command " + cmd);
}

} // namespace

int main()
{
  std::ios::sync_with_stdio(false);
  string line;
  while (std::getline(std::cin, line)) {
    if (line.empty()) continue;
    std::istringstream in(line);
    std::ostringstream out;
    try {
      dispatch(in, out);
    }
    catch (const GNU_gama::Exception::matvec& e) {
      out.str(""); out << "{\"exc\":\"matvec\",\"code\":" << e.error() << ",\"text\":" << jstr(e.what()) << "}";
    }
    catch (const GNU_gama::Exception::string& e) {
      out.str(""); out << "{\"exc\":\"string\",\"text\":" << jstr(e.what()) << "}";
    }
    catch (const GNU_gama::Exception::base& e) {
      out.str(""); out << "{\"exc\":\"base\",\"text\":" << jstr(e.what()) << "}";
    }
    catch (const std::runtime_error& e) {
      out.str(""); out << "{\"fatal\":" << jstr(e.what()) << "}";
    }
    catch (const std::exception& e) {
      out.str(""); out << "{\"exc\":\"std\",\"text\":" << jstr(e.what()) << "}";
    }
    std::cout << out.str() << std::endl;
  }
  std::cout.flush();
  return 0;
}
