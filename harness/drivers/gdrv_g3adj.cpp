// gdrv_g3adj: adjusts a gama-g3 --project-equations dump (<adj-input-data>) with
// the general adjustment class GNU_gama::Adj, once per algorithm.
//
//   gdrv_g3adj dump.xml [alg ...]          (default: all four algorithms)
//
// The dump is read by gama's own DataParser (as a user of the library would do)
// delivered line by line as gama-g3 itself reads its input.  One JSON object on
// stdout:
//   {"parse":"ok","rows":M,"cols":N,"minx":[...]|null,
//    "algs":{"envelope":{"x":[..],"r":[..],"defect":d,"rtr":s,"qxx":[diag],"qbb":[diag]}|{"error":".."}, ...}}
#include <gnu_gama/xml/dataparser.h>
#include <gnu_gama/xml/dataobject.h>
#include <gnu_gama/adj/adj.h>
#include <gnu_gama/adj/adj_input_data.h>
#include <gnu_gama/exception.h>
#include <cmath>
#include <cstdio>
#include <fstream>
#include <iostream>
#include <list>
#include <sstream>
#include <string>
#include <vector>

using namespace GNU_gama;

namespace {

void num(std::ostream& o, double v)
{
  if (std::isnan(v)) { o << "\"nan\""; return; }
  if (std::isinf(v)) { o << (v>0 ? "\"inf\"" : "\"-inf\""); return; }
  char buf[40]; snprintf(buf, sizeof buf, "%.17g", v); o << buf;
}

std::string jstr(const std::string& s)
{
  std::string r = "\"";
  for (char c : s) {
    if (c == '"' || c == '\\') { r += '\\'; r += c; }
    else if ((unsigned char)c < 32) r += ' ';
    else r += c;
  }
  return r + "\"";
}

// parse the document, return the first AdjInputData (ownership to the caller) or null
AdjInputData* read_dump(const std::string& doc, std::string& err)
{
  std::list<DataObject::Base*> objects;
  AdjInputData* data = nullptr;
  try
    {
      DataParser parser(objects);
      std::istringstream input(doc);
      std::string text;
      while (std::getline(input, text))
        {
          parser.xml_parse(text.c_str(), int(text.length()), 0);
          parser.xml_parse("\n", 1, 0);
        }
      parser.xml_parse("", 0, 1);
    }
  catch (const Exception::parser& p)
    {
      std::ostringstream s; s << "parser line " << p.line << ": " << p.str;
      err = s.str();
    }
  catch (const Exception::base&) { err = "gama exception"; }
  catch (const std::exception& e) { err = std::string("std::exception ") + e.what(); }

  for (auto* o : objects)
    {
      if (auto* a = dynamic_cast<DataObject::AdjInput*>(o))
        if (!data && err.empty()) { data = a->data; a->data = nullptr; }
      delete o;
    }
  if (!data && err.empty()) err = "no <adj-input-data> in the document";
  return data;
}

Adj::algorithm alg_of(const std::string& s)
{
  if (s == "envelope") return Adj::envelope;
  if (s == "gso")      return Adj::gso;
  if (s == "svd")      return Adj::svd;
  if (s == "cholesky") return Adj::cholesky;
  throw std::runtime_error("bad algorithm " + s);
}

}

int main(int argc, char* argv[])
{
  if (argc < 2) { std::cerr << "usage: gdrv_g3adj dump.xml [alg ...]\n"; return 2; }
  std::ifstream f(argv[1]);
  if (!f) { std::cout << "{\"parse\":\"cannot open\"}\n"; return 0; }
  std::stringstream ss; ss << f.rdbuf();
  const std::string doc = ss.str();

  std::vector<std::string> algs;
  for (int i=2; i<argc; i++) algs.push_back(argv[i]);
  if (algs.empty()) algs = {"envelope", "gso", "svd", "cholesky"};

  std::ostringstream out;
  bool first = true;
  int rows = -1, cols = -1;
  std::string minx = "null";
  for (const std::string& alg : algs)
    {
      std::string err;
      AdjInputData* data = read_dump(doc, err);
      if (!data)
        {
          std::cout << "{\"parse\":" << jstr(err) << "}\n";
          return 0;
        }
      if (!data->mat() || !data->cov() || data->rhs().dim() == 0)
        {
          std::cout << "{\"parse\":\"incomplete adj-input-data\"}\n";
          delete data;
          return 0;
        }
      rows = data->mat()->rows();
      cols = data->mat()->columns();
      if (const IntegerList<>* p = data->minx())
        {
          std::ostringstream m; m << "[";
          bool f1 = true;
          for (IntegerList<>::const_iterator i=p->begin(), e=p->end(); i!=e; ++i)
            { if (!f1) m << ","; f1 = false; m << *i; }
          m << "]";
          minx = m.str();
        }

      if (!first) out << ",";
      first = false;
      out << jstr(alg) << ":";
      std::ostringstream o;
      try
        {
          Adj adj;
          adj.set_algorithm(alg_of(alg));
          adj.set(data);                 // Adj uses the object, the driver keeps ownership
          const Vec<>& x = adj.x();
          const Vec<>& r = adj.r();
          o << "{\"x\":[";
          for (int i=1; i<=x.dim(); i++) { if (i>1) o << ","; num(o, x(i)); }
          o << "],\"r\":[";
          for (int i=1; i<=r.dim(); i++) { if (i>1) o << ","; num(o, r(i)); }
          o << "],\"defect\":" << adj.defect() << ",\"rtr\":";
          num(o, adj.rtr());
          o << ",\"qxx\":[";
          for (int i=1; i<=x.dim(); i++) { if (i>1) o << ","; num(o, adj.q_xx(i,i)); }
          o << "],\"qbb\":[";
          for (int i=1; i<=r.dim(); i++) { if (i>1) o << ","; num(o, adj.q_bb(i,i)); }
          o << "]}";
          out << o.str();
        }
      catch (const Exception::matvec& e)     { out << "{\"error\":" << jstr(std::string("matvec ") + e.what()) << "}"; }
      catch (const Exception::adjustment& e) { out << "{\"error\":" << jstr("adjustment " + e.str) << "}"; }
      catch (const Exception::string& e)     { out << "{\"error\":" << jstr("string " + e.str) << "}"; }
      catch (const Exception::base&)         { out << "{\"error\":\"gama exception\"}"; }
      catch (const std::exception& e)        { out << "{\"error\":" << jstr(std::string("std ") + e.what()) << "}"; }
      // Adj does not delete its data in the destructor
      delete data;
    }
  std::cout << "{\"parse\":\"ok\",\"rows\":" << rows << ",\"cols\":" << cols
            << ",\"minx\":" << minx << ",\"algs\":{" << out.str() << "}}\n";
  return 0;
}
