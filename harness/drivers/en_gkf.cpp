// en_gkf: bounded exhaustive enumerators around GKFparser (C11), in process.
//
//   en_gkf events <maxnodes> <worker> <nworkers>   all element forests with <= maxnodes elements over the
//                                                  tag alphabet, placed inside <points-observations>
//   en_gkf trunc <file>                            every prefix of the file (truncation at every byte)
//   en_gkf split <file>                            every two-chunk delivery vs delivery in one piece
//
// Oracle: parser either accepts or throws ParserException with non-empty text and
// 1 <= line <= number of lines; accepted inputs are pushed through the rest of the gama-local
// pipeline (Acord2, linearisation, adjustment) which may end only by gama's own exceptions.
// A sanitizer report kills the process; the death callback stores the current document in
// $EN_ARTIFACT so that the Python side can report it.
#include <gnu_gama/xml/gkfparser.h>
#include <gnu_gama/local/network.h>
#include <gnu_gama/local/language.h>
#include <gnu_gama/local/acord/acord2.h>
#include <gnu_gama/local/test_linearization_visitor.h>
#include <gnu_gama/local/results/text/general_parameters.h>
#include <gnu_gama/local/xmlerror.h>
#include <gnu_gama/xml/localnetworkxml.h>
#include <fstream>
#include <iostream>
#include <sstream>
#include <string>
#include <vector>
#include <cstdio>
#include <cstdlib>
#include <cstring>

using namespace GNU_gama::local;
using std::string;

GNU_gama::local::XMLerror xmlerr;
extern "C" void __sanitizer_set_death_callback(void (*)(void));

namespace {

string current;
long   n_docs = 0, n_accepted = 0, n_rejected = 0, n_adjusted = 0, n_pipeline_exc = 0;
long   n_violations = 0;
string first_violation, first_violation_doc;

void save_current()
{
  const char* p = getenv("EN_ARTIFACT");
  if (!p) return;
  FILE* f = fopen(p, "wb");
  if (!f) return;
  fwrite(current.data(), 1, current.size(), f);
  fclose(f);
}

void violation(const string& what)
{
  n_violations++;
  if (first_violation.empty()) { first_violation = what; first_violation_doc = current; }
}

size_t count_lines(const string& s)
{
  size_t n = 1;
  for (size_t i=0; i<s.size(); i++)
    if (s[i] == '\n' || (s[i] == '\r' && !(i+1 < s.size() && s[i+1] == '\n'))) n++;
  return n;
}

struct Result {
  int    kind = 0;        // 0 accepted, 1 parser exception, 2 other gama exception at parse time
  int    line = 0, code = 0;
  string text;
  string fingerprint;     // for accepted input: exported description of the network
};

// parse delivered in the given chunks
Result parse(const std::vector<string>& chunks, LocalNetwork* IS)
{
  Result r;
  GKFparser gkf(*IS);
  try {
    for (size_t i=0; i<chunks.size(); i++)
      gkf.xml_parse(chunks[i].c_str(), int(chunks[i].size()), i+1 == chunks.size() ? 1 : 0);
  }
  catch (const ParserException& e) { r.kind = 1; r.line = e.line; r.code = e.error_code; r.text = e.what(); return r; }
  catch (const GNU_gama::local::Exception& e) { r.kind = 2; r.text = e.what(); return r; }
  catch (const GNU_gama::Exception::matvec& e) { r.kind = 2; r.text = e.what(); return r; }
  return r;
}

string fingerprint(LocalNetwork* IS)
{
  std::ostringstream o;
  o << IS->PD.size() << "|" << IS->OD.clusters.size() << "|";
  for (auto i = IS->OD.begin(); i != IS->OD.end(); ++i) {
    char b[64]; snprintf(b, sizeof b, "%.17g", (*i)->value());
    o << (*i)->from().str() << ">" << (*i)->to().str() << "=" << b << ";";
  }
  for (auto& p : IS->PD) {
    char b[128]; snprintf(b, sizeof b, "%.17g,%.17g,%.17g", p.second.x(), p.second.y(), p.second.z());
    o << p.first.str() << ":" << b << ":" << p.second.active_xy() << p.second.free_xy() << p.second.constrained_xy()
      << p.second.active_z() << p.second.free_z() << p.second.constrained_z() << ";";
  }
  o << IS->apriori_m_0() << "|" << IS->conf_pr() << "|" << IS->tol_abs() << "|" << IS->description;
  return o.str();
}

void check_rejection(const Result& r, const string& doc)
{
  if (r.kind == 1) {
    n_rejected++;
    const long lines = long(count_lines(doc));
    if (r.text.empty()) violation("rejected with an empty diagnostic");
    if (r.line < 1 || r.line > lines) {
      char b[96]; snprintf(b, sizeof b, "rejected with line %d outside 1..%ld", r.line, lines);
      violation(string(b) + ": " + r.text);
    }
  }
  else if (r.kind == 2) {
    n_rejected++;
    if (r.text.empty()) violation("exception without text while parsing");
  }
}

// the rest of the pipeline as in main() of gama-local
void pipeline(LocalNetwork* IS)
{
  try {
    if (!IS->has_algorithm()) IS->set_algorithm();
    if (IS->PD.empty() || IS->OD.clusters.empty()) return;
    IS->remove_inconsistency();
    try {
      Acord2 acord2(IS->PD, IS->OD);
      acord2.execute();
      refine_obsdh_reductions(IS);
    }
    catch (...) { n_pipeline_exc++; return; }
    if (IS->points_count() == 0 || IS->unknowns_count() == 0) return;
    if (IS->huge_abs_terms()) IS->remove_huge_abs_terms();
    std::ostringstream tmp;
    if (!GeneralParameters(IS, tmp)) return;
    IS->refine_adjustment();
    std::ostringstream xml;
    IS->set_gons();
    GNU_gama::LocalNetworkXML out(IS);
    out.write(xml);
    n_adjusted++;
  }
  catch (const GNU_gama::Exception::adjustment&) { n_pipeline_exc++; }
  catch (const GNU_gama::Exception::matvec&)     { n_pipeline_exc++; }
  catch (const GNU_gama::local::Exception&)      { n_pipeline_exc++; }
  catch (const std::exception&)                  { n_pipeline_exc++; }
}

void run_doc(const string& doc, bool with_pipeline)
{
  current = doc;
  n_docs++;
  LocalNetwork* IS = new LocalNetwork;
  Result r = parse({doc}, IS);
  if (r.kind == 0) { n_accepted++; if (with_pipeline) pipeline(IS); }
  else check_rejection(r, doc);
  delete IS;
}

// ---------------------------------------------------------------- events

const char* TAGS[] = {
  "point id=\"A\" x=\"1\" y=\"2\" fix=\"xy\"", "point id=\"B\" adj=\"xyz\"",
  "obs from=\"A\"", "obs",
  "direction to=\"B\" val=\"10\"", "distance to=\"B\" val=\"10\"", "angle bs=\"B\" fs=\"C\" val=\"10\"",
  "s-distance to=\"B\" val=\"10\"", "z-angle to=\"B\" val=\"90\"", "azimuth to=\"B\" val=\"10\"",
  "cov-mat dim=\"1\" band=\"0\"", "cov-mat dim=\"2\" band=\"1\"",
  "coordinates", "height-differences", "dh from=\"A\" to=\"B\" val=\"1\" stdev=\"1\"",
  "vectors", "vec from=\"A\" to=\"B\" dx=\"1\" dy=\"2\" dz=\"3\"",
  "description", "parameters sigma-apr=\"1\"", "points-observations", "network", "gama-local", "unknown-tag"
};
const int NT = sizeof(TAGS)/sizeof(TAGS[0]);

string tagname(int t) { string s = TAGS[t]; size_t k = s.find(' '); return k == string::npos ? s : s.substr(0, k); }

// enumerate forests as sequences of tokens: t >= 0 open tag t, -1 close
long enumerate(std::vector<int>& seq, std::vector<int>& stack, int opened, int maxnodes,
               long& index, long worker, long nworkers)
{
  long count = 0;
  if (stack.empty() && opened > 0) {
    if (index++ % nworkers == worker) {
      std::vector<int> st;
      string body;
      for (int t : seq) {
        if (t >= 0) { body += "<" + string(TAGS[t]) + ">"; st.push_back(t); if (tagname(t) == "cov-mat") body += "1 "; }
        else { body += "</" + tagname(st.back()) + ">\n"; st.pop_back(); }
      }
      string doc = "<?xml version=\"1.0\" ?>\n<gama-local>\n<network>\n<points-observations>\n"
                   + body + "</points-observations>\n</network>\n</gama-local>\n";
      run_doc(doc, true);
      count++;
    }
  }
  if (!stack.empty()) {
    int t = stack.back();
    stack.pop_back(); seq.push_back(-1);
    count += enumerate(seq, stack, opened, maxnodes, index, worker, nworkers);
    seq.pop_back(); stack.push_back(t);
  }
  if (opened < maxnodes)
    for (int t=0; t<NT; t++) {
      stack.push_back(t); seq.push_back(t);
      count += enumerate(seq, stack, opened+1, maxnodes, index, worker, nworkers);
      seq.pop_back(); stack.pop_back();
    }
  return count;
}

string slurp(const char* path)
{
  std::ifstream f(path, std::ios::binary);
  std::ostringstream s; s << f.rdbuf();
  return s.str();
}

void report(const char* mode)
{
  std::cout << "{\"mode\":\"" << mode << "\",\"docs\":" << n_docs << ",\"accepted\":" << n_accepted
            << ",\"rejected\":" << n_rejected << ",\"adjusted\":" << n_adjusted
            << ",\"pipeline_exceptions\":" << n_pipeline_exc << ",\"violations\":" << n_violations << "}" << std::endl;
  if (n_violations) {
    current = first_violation_doc;
    save_current();
    std::cerr << "EN-VIOLATION: " << first_violation << std::endl;
  }
}

} // namespace

int main(int argc, char** argv)
{
  if (argc < 3) { std::cerr << "usage\n"; return 2; }
  set_gama_language(en);
  __sanitizer_set_death_callback(save_current);
  const string mode = argv[1];
  if (mode == "events") {
    int maxnodes = atoi(argv[2]);
    long worker = argc > 3 ? atol(argv[3]) : 0, nworkers = argc > 4 ? atol(argv[4]) : 1;
    std::vector<int> seq, stack;
    long index = 0;
    enumerate(seq, stack, 0, maxnodes, index, worker, nworkers);
    report("events");
  }
  else if (mode == "trunc") {
    const string doc = slurp(argv[2]);
    for (size_t n=0; n<=doc.size(); n++) run_doc(doc.substr(0, n), n == doc.size());
    report("trunc");
  }
  else if (mode == "split") {
    const string doc = slurp(argv[2]);
    current = doc;
    LocalNetwork* W = new LocalNetwork;
    Result whole = parse({doc}, W);
    string fw = whole.kind == 0 ? fingerprint(W) : "";
    delete W;
    for (size_t n=0; n<=doc.size(); n++) {
      n_docs++;
      current = doc.substr(0, n) + "\n<<<SPLIT>>>\n" + doc.substr(n);
      LocalNetwork* IS = new LocalNetwork;
      Result r = parse({doc.substr(0, n), doc.substr(n)}, IS);
      if (r.kind != whole.kind || r.line != whole.line || r.text != whole.text) {
        char b[160]; snprintf(b, sizeof b, "split at byte %zu: kind %d line %d vs whole kind %d line %d", n, r.kind, r.line, whole.kind, whole.line);
        violation(string(b) + " [" + r.text + "] vs [" + whole.text + "]");
      }
      else if (r.kind == 0) { n_accepted++; if (fingerprint(IS) != fw) violation("split delivery builds a different network"); }
      else n_rejected++;
      delete IS;
    }
    report("split");
  }
  else { std::cerr << "unknown mode\n"; return 2; }
  return n_violations ? 1 : 0;
}
