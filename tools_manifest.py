#!/usr/bin/env python3
"""Regenerate MANIFEST.json from the table below (keeps it valid at all times)."""
import json, os
HERE = os.path.dirname(os.path.abspath(__file__))
CHECKS = {}
exec(open(os.path.join(HERE, "manifest_table.py")).read())
props = [json.loads(l) for l in open(os.path.join(HERE, "properties.jsonl"))]
checks, na = [], []
for p in props:
    pid = p["id"]
    c = CHECKS.get(pid)
    if c is None or c.get("na"):
        na.append({"property_id": pid, "reason": (c or {}).get("na", "check not built yet (work in progress); not claimed")})
        continue
    checks.append({
        "property_id": pid,
        "quick_cmd": "./check %s quick" % pid,
        "thorough_cmd": "./check %s thorough" % pid,
        "evidence_file": "/verif/evidence/%s.json" % pid,
        "replay_cmd_template": "./check %s --replay {path}" % pid,
        "engine": c.get("engine", "hypothesis+gdrv"),
        "level_claimed": {"category": c.get("level", "exploration"), "text": c["text"], "design_ref": "DESIGN.md 7 " + pid},
        "level_note": c["note"],
        "technique": c["technique"],
    })
m = {
    "version": 1,
    "setup_cmd": "./setup.sh",
    "hooks": {"guard": "GNU_GAMA_VERIF", "enable": "harness/CMakeLists.txt compiles a mirror of /repo's working tree with -DGNU_GAMA_VERIF (no hook is currently needed; the define is set for completeness)",
              "baseline_off_cmd": "python3 /verif/baseline_check.py",
              "source_commits": [], "add_only": True},
    "engines": [
        {"name": "hypothesis+gdrv", "path": "vlib/runner.py", "serves_properties": sorted(k for k, v in CHECKS.items() if not v.get("na")),
         "kind_free_text": "Hypothesis 6.168 strategies (python3-vt) drive sanitized C++ driver processes (harness/drivers) and the real binaries; numpy/scipy reference oracles; shrunk failures become replay JSON"},
        {"name": "libFuzzer", "path": "harness/fuzz", "serves_properties": ["C11"], "kind_free_text": "coverage-guided in-process fuzzing under ASan/UBSan"},
    ],
    "checks": checks,
    "not_applicable": na,
    "notes": "All checks rebuild a sanitized mirror of /repo's working tree first (vlib/build.py). Exit 0 pass, 1 VIOLATION, 2 build failure.",
}
json.dump(m, open(os.path.join(HERE, "MANIFEST.json"), "w"), indent=1)
print("checks:", [c["property_id"] for c in checks], "na:", [n["property_id"] for n in na])
