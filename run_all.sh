#!/bin/bash
# run every claimed check of MANIFEST.json at the given tier (default quick) and summarise
cd "$(dirname "$0")"
tier=${1:-quick}
ids=$(python3 -c "import json; print(' '.join(c['property_id'] for c in json.load(open('MANIFEST.json'))['checks']))")
rc_all=0
for id in $ids; do
  start=$(date +%s)
  out=$(./check $id $tier 2>&1); rc=$?
  echo "$id rc=$rc $(( $(date +%s) - start ))s  $(echo "$out" | grep -E "^$id $tier" | head -1)"
  echo "$out" | grep -E "^VIOLATION|^INCONCLUSIVE|^GENERATOR-STARVED|^BUILD-FAILED" | head -5
  [ $rc -ne 0 ] && rc_all=1
done
exit $rc_all
