#!/bin/bash
# MANIFEST.setup_cmd: build the sanitized harness from /repo's working tree (offline).
set -e
cd "$(dirname "$0")"
python3-vt -m vlib.build
python3-vt - <<'PY'
import hypothesis, numpy, scipy
print("hypothesis", hypothesis.__version__, "numpy", numpy.__version__, "scipy", scipy.__version__)
PY
